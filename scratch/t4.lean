import CC.JH.Spec
open CC CC.JH.Spec
def f (k : Nat) : BitVec 1024 := ofBeBytes 1024 (bitsToBytes (degroup (rounds8 k (group (Hm1 256), C0)).1))
#eval IO.println s!"theorem t0 : f 0 = 0x{hexOfWord (f 0)}#1024 := by decide +kernel"
#eval IO.println s!"theorem t6 : f 6 = 0x{hexOfWord (f 6)}#1024 := by decide +kernel"
#eval IO.println s!"theorem t12 : f 12 = 0x{hexOfWord (f 12)}#1024 := by decide +kernel"
