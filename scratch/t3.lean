import CC.JH.Spec
import CC.JH.Model
open CC CC.JH
set_option maxRecDepth 100000 in
theorem h0_256 : Model.h0Bytes 256 = Spec.bitsToBytes (Spec.H0 256) := by decide +kernel
