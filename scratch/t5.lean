import CC.JH.Spec
open CC CC.JH.Spec
def f (k : Nat) : BitVec 1024 := ofBeBytes 1024 (bitsToBytes (degroup (rounds8 k (group (Hm1 256), C0)).1))
set_option maxRecDepth 100000
theorem t12 : f 12 = 0x63d917e17c775b46a984a6100c1868e7c6b253041e0dd7beee5aa1ea590f328dc0edb2c32323af9137081338df90e1e53f9d9d6a571d9f7d68e386353fcf1abf9be40d3d3f0e36436ec9f6b0f7201e30ca5cc51017ac11a3f0fa6f9cce7a6f966ae31b8593358a8c4418a575a45df9369c1be9c974658ea6fb1fd50b038ed9f4#1024 := by decide +kernel
