//! `which <macro>` — which `Machine` type the three dispatch macros of ppv-lite86 instantiate when they are
//! expanded in a crate WITHOUT a `std` feature (this harness crate has none, so every build of it takes the
//! compile-time `cfg!(target_feature = ..)` ladder; with `no_simd` the portable macro of generic.rs).
//! Output: `feats=<sse2><ssse3><sse4.1><avx><avx2> sel=<generic|sse2|ssse3|sse41|avx2|?>` where `feats` are the
//! static target features of THIS build and `sel` classifies `core::any::type_name::<M>()` by the type flags
//! (`SSE41` and `AVX` are one type, reported as `sse41`).

use ppv_lite86::{dispatch, dispatch_light128, dispatch_light256, Machine};

dispatch!(m, M, {
    fn which_dispatch() -> &'static str {
        let _ = m;
        core::any::type_name::<M>()
    }
});
dispatch_light128!(m, M, {
    fn which_light128() -> &'static str {
        let _ = m;
        core::any::type_name::<M>()
    }
});
dispatch_light256!(m, M, {
    fn which_light256() -> &'static str {
        let _ = m;
        core::any::type_name::<M>()
    }
});

fn classify(t: &str) -> &'static str {
    if t.contains("GenericMachine") {
        "generic"
    } else if t.contains("Avx2Machine") {
        "avx2"
    } else if t.contains("SseMachine") {
        match (t.contains("YesS3"), t.contains("YesS4")) {
            (false, false) => "sse2",
            (true, false) => "ssse3",
            (true, true) => "sse41",
            (false, true) => "?",
        }
    } else {
        "?"
    }
}

pub fn feats() -> String {
    let b = |x: bool| if x { '1' } else { '0' };
    [
        b(cfg!(target_feature = "sse2")),
        b(cfg!(target_feature = "ssse3")),
        b(cfg!(target_feature = "sse4.1")),
        b(cfg!(target_feature = "avx")),
        b(cfg!(target_feature = "avx2")),
    ]
    .iter()
    .collect()
}

pub fn step(toks: &[&str]) -> String {
    let t = match toks {
        ["which", "dispatch"] => which_dispatch(),
        ["which", "light128"] => which_light128(),
        ["which", "light256"] => which_light256(),
        _ => return "bad-op".into(),
    };
    format!("feats={} sel={}", feats(), classify(t))
}
