//! `blake …` operations on the real `blake_hash` crate.
use crate::util::*;
use blake_hash::{Blake224, Blake256, Blake384, Blake512, Compressor256, Compressor512};
use digest::generic_array::GenericArray;
use digest::Digest;
use ppv_lite86::{vec128_storage, vec256_storage};
use std::collections::HashMap;

#[derive(Clone)]
pub enum Any {
    B224(Blake224),
    B256(Blake256),
    B384(Blake384),
    B512(Blake512),
}

macro_rules! with {
    ($any:expr, $c:ident, $e:expr) => {
        match $any {
            Any::B224($c) => $e,
            Any::B256($c) => $e,
            Any::B384($c) => $e,
            Any::B512($c) => $e,
        }
    };
}

#[derive(Default)]
pub struct St {
    pub hs: HashMap<u64, Any>,
}

fn new_hasher(bits: &str) -> Option<Any> {
    Some(match bits {
        "224" => Any::B224(Blake224::default()),
        "256" => Any::B256(Blake256::default()),
        "384" => Any::B384(Blake384::default()),
        "512" => Any::B512(Blake512::default()),
        _ => return None,
    })
}

fn update(h: &mut Any, data: &[u8]) -> String {
    match guard(|| with!(h, c, Digest::update(c, data))) {
        Some(()) => "ok".into(),
        None => "panic".into(),
    }
}

// ---- component op: `$X4::put_block::<M>` on an arbitrary chaining value -------------------
//
// `Compressor256 { h: [vec128_storage; 2] }` / `Compressor512 { h: [vec256_storage; 2] }` have a
// private field and no constructor taking a chaining value.  They are single-field structs, so
// their layout is that of the field; the harness builds them (and reads them back) by
// `transmute` from/to the array of storages.  A size mismatch would be a compile error.

fn c256_of(h: [u32; 8]) -> Compressor256 {
    let a: [vec128_storage; 2] = [[h[0], h[1], h[2], h[3]].into(), [h[4], h[5], h[6], h[7]].into()];
    unsafe { std::mem::transmute::<[vec128_storage; 2], Compressor256>(a) }
}
fn c256_to(c: Compressor256) -> [u32; 8] {
    let a = unsafe { std::mem::transmute::<Compressor256, [vec128_storage; 2]>(c) };
    let x: [u32; 4] = a[0].into();
    let y: [u32; 4] = a[1].into();
    [x[0], x[1], x[2], x[3], y[0], y[1], y[2], y[3]]
}
fn c512_of(h: [u64; 8]) -> Compressor512 {
    let a: [vec256_storage; 2] = [[h[0], h[1], h[2], h[3]].into(), [h[4], h[5], h[6], h[7]].into()];
    unsafe { std::mem::transmute::<[vec256_storage; 2], Compressor512>(a) }
}
fn c512_to(c: Compressor512) -> [u64; 8] {
    let a = unsafe { std::mem::transmute::<Compressor512, [vec256_storage; 2]>(c) };
    let x: [u64; 4] = a[0].into();
    let y: [u64; 4] = a[1].into();
    [x[0], x[1], x[2], x[3], y[0], y[1], y[2], y[3]]
}

#[cfg(all(not(feature = "no_simd"), not(feature = "api_only")))]
mod pb {
    use super::*;
    use ppv_lite86::x86_64::{AVX, AVX2, SSE2, SSE41, SSSE3};
    use ppv_lite86::Machine;

    macro_rules! arms {
        ($name:ident, $comp:ty, $modname:ident, $n:ty, $word:ty) => {
            pub fn $name(backend: &str, st: &mut $comp, block: &GenericArray<u8, $n>, t: ($word, $word)) -> bool {
                #[target_feature(enable = "avx2")]
                unsafe fn f_avx2(st: &mut $comp, block: &GenericArray<u8, $n>, t: ($word, $word)) {
                    blake_hash::$modname::put_block::<AVX2>(AVX2::instance(), st, block, t)
                }
                #[target_feature(enable = "avx")]
                #[target_feature(enable = "sse4.1")]
                #[target_feature(enable = "ssse3")]
                unsafe fn f_avx(st: &mut $comp, block: &GenericArray<u8, $n>, t: ($word, $word)) {
                    blake_hash::$modname::put_block::<AVX>(AVX::instance(), st, block, t)
                }
                #[target_feature(enable = "sse4.1")]
                #[target_feature(enable = "ssse3")]
                unsafe fn f_sse41(st: &mut $comp, block: &GenericArray<u8, $n>, t: ($word, $word)) {
                    blake_hash::$modname::put_block::<SSE41>(SSE41::instance(), st, block, t)
                }
                #[target_feature(enable = "ssse3")]
                unsafe fn f_ssse3(st: &mut $comp, block: &GenericArray<u8, $n>, t: ($word, $word)) {
                    blake_hash::$modname::put_block::<SSSE3>(SSSE3::instance(), st, block, t)
                }
                #[target_feature(enable = "sse2")]
                unsafe fn f_sse2(st: &mut $comp, block: &GenericArray<u8, $n>, t: ($word, $word)) {
                    blake_hash::$modname::put_block::<SSE2>(SSE2::instance(), st, block, t)
                }
                let ok = |f: &str| match f {
                    "avx2" => is_x86_feature_detected!("avx2"),
                    "avx" => is_x86_feature_detected!("avx"),
                    "sse41" => is_x86_feature_detected!("sse4.1"),
                    "ssse3" => is_x86_feature_detected!("ssse3"),
                    _ => true,
                };
                unsafe {
                    match backend {
                        // the dispatching `Compressor::put_block` is private: `ref` = best machine
                        "ref" | "native" | "avx2" if ok("avx2") => f_avx2(st, block, t),
                        "avx" if ok("avx") => f_avx(st, block, t),
                        "sse41" if ok("sse41") => f_sse41(st, block, t),
                        "ssse3" if ok("ssse3") => f_ssse3(st, block, t),
                        "sse2" => f_sse2(st, block, t),
                        _ => return false,
                    }
                }
                true
            }
        };
    }
    use digest::generic_array::typenum::{U128, U64};
    arms!(put256, Compressor256, u32x4, U64, u32);
    arms!(put512, Compressor512, u64x4, U128, u64);
}

#[cfg(feature = "api_only")]
mod pb {
    use super::*;
    use digest::generic_array::typenum::{U128, U64};
    pub fn put256(_b: &str, _st: &mut Compressor256, _block: &GenericArray<u8, U64>, _t: (u32, u32)) -> bool {
        false
    }
    pub fn put512(_b: &str, _st: &mut Compressor512, _block: &GenericArray<u8, U128>, _t: (u64, u64)) -> bool {
        false
    }
}

#[cfg(all(feature = "no_simd", not(feature = "api_only")))]
mod pb {
    use super::*;
    use digest::generic_array::typenum::{U128, U64};
    use ppv_lite86::generic::GenericMachine;
    use ppv_lite86::Machine;
    pub fn put256(backend: &str, st: &mut Compressor256, block: &GenericArray<u8, U64>, t: (u32, u32)) -> bool {
        if backend != "generic" && backend != "ref" {
            return false;
        }
        blake_hash::u32x4::put_block::<GenericMachine>(unsafe { GenericMachine::instance() }, st, block, t);
        true
    }
    pub fn put512(backend: &str, st: &mut Compressor512, block: &GenericArray<u8, U128>, t: (u64, u64)) -> bool {
        if backend != "generic" && backend != "ref" {
            return false;
        }
        blake_hash::u64x4::put_block::<GenericMachine>(unsafe { GenericMachine::instance() }, st, block, t);
        true
    }
}

fn putblock(backend: &str, ws: &str, h: &[u8], block: &[u8], t0: &str, t1: &str) -> String {
    match ws {
        "256" => {
            let (Ok(t0), Ok(t1)) = (t0.parse::<u32>(), t1.parse::<u32>()) else {
                return "bad-op".into();
            };
            if h.len() != 32 || block.len() != 64 {
                return "bad-op".into();
            }
            let mut hw = [0u32; 8];
            for i in 0..8 {
                hw[i] = u32::from_be_bytes(h[4 * i..4 * i + 4].try_into().unwrap());
            }
            let r = guard(|| {
                let mut c = c256_of(hw);
                let ok = pb::put256(backend, &mut c, GenericArray::from_slice(block), (t0, t1));
                (ok, c256_to(c))
            });
            match r {
                None => "panic".into(),
                Some((false, _)) => "bad-op".into(),
                Some((true, o)) => {
                    let mut v = Vec::new();
                    for x in o.iter() {
                        v.extend_from_slice(&x.to_be_bytes());
                    }
                    hex_nodash(&v)
                }
            }
        }
        "512" => {
            let (Ok(t0), Ok(t1)) = (t0.parse::<u64>(), t1.parse::<u64>()) else {
                return "bad-op".into();
            };
            if h.len() != 64 || block.len() != 128 {
                return "bad-op".into();
            }
            let mut hw = [0u64; 8];
            for i in 0..8 {
                hw[i] = u64::from_be_bytes(h[8 * i..8 * i + 8].try_into().unwrap());
            }
            let r = guard(|| {
                let mut c = c512_of(hw);
                let ok = pb::put512(backend, &mut c, GenericArray::from_slice(block), (t0, t1));
                (ok, c512_to(c))
            });
            match r {
                None => "panic".into(),
                Some((false, _)) => "bad-op".into(),
                Some((true, o)) => {
                    let mut v = Vec::new();
                    for x in o.iter() {
                        v.extend_from_slice(&x.to_be_bytes());
                    }
                    hex_nodash(&v)
                }
            }
        }
        _ => "bad-op".into(),
    }
}

pub fn step(st: &mut St, backend: &str, toks: &[&str]) -> String {
    let num = |s: &str| s.parse::<u64>().ok();
    match toks {
        ["blake", "new", slot, bits] => {
            let Some(s) = num(slot) else {
                return "bad-op".into();
            };
            match guard(|| new_hasher(bits)) {
                Some(Some(h)) => {
                    st.hs.insert(s, h);
                    "ok".into()
                }
                Some(None) => "bad-op".into(),
                None => "panic".into(),
            }
        }
        ["blake", "update", slot, data] => {
            let Some(d) = unhex(data) else {
                return "bad-op".into();
            };
            let Some(h) = num(slot).and_then(|s| st.hs.get_mut(&s)) else {
                return "bad-op".into();
            };
            update(h, &d)
        }
        ["blake", "updpat", slot, len, seed] => {
            let (Some(l), Some(sd)) = (num(len), num(seed)) else {
                return "bad-op".into();
            };
            let Some(h) = num(slot).and_then(|s| st.hs.get_mut(&s)) else {
                return "bad-op".into();
            };
            update(h, &pat_bytes(sd, l as usize))
        }
        // C17: feed `nbytes` bytes (byte i = pat_byte(seed, i mod BIG_PERIOD)) through the real `update`
        // in 1 MiB calls
        // one single `update` call with `nbytes` bytes (byte i = pat_byte(seed, i mod BIG_PERIOD)): lengths
        // beyond 2^29 / 2^32 bytes in ONE slice (the `stream` op feeds the same bytes in 1 MiB calls)
        ["blake", "bigupd", slot, nbytes, seed] => {
            let (Some(n), Some(sd)) = (num(nbytes), num(seed)) else {
                return "bad-op".into();
            };
            let Some(h) = num(slot).and_then(|s| st.hs.get_mut(&s)) else {
                return "bad-op".into();
            };
            let chunk = pat_bytes(sd, crate::util::BIG_PERIOD);
            let mut big = Vec::with_capacity(n as usize);
            while big.len() < n as usize {
                let k = (n as usize - big.len()).min(chunk.len());
                big.extend_from_slice(&chunk[..k]);
            }
            update(h, &big)
        }
        ["blake", "stream", slot, nbytes, seed] => {
            let (Some(n), Some(sd)) = (num(nbytes), num(seed)) else {
                return "bad-op".into();
            };
            let Some(h) = num(slot).and_then(|s| st.hs.get_mut(&s)) else {
                return "bad-op".into();
            };
            let chunk = pat_bytes(sd, crate::util::BIG_PERIOD);
            let mut left = n as usize;
            while left > 0 {
                let k = left.min(chunk.len());
                if update(h, &chunk[..k]) != "ok" {
                    return "panic".into();
                }
                left -= k;
            }
            "ok".into()
        }
        ["blake", "clone", a, b] => {
            let (Some(a), Some(b)) = (num(a), num(b)) else {
                return "bad-op".into();
            };
            match guard(|| st.hs.get(&a).cloned()) {
                Some(Some(h)) => {
                    st.hs.insert(b, h);
                    "ok".into()
                }
                Some(None) => "bad-op".into(),
                None => "panic".into(),
            }
        }
        ["blake", "reset", slot] => {
            let Some(h) = num(slot).and_then(|s| st.hs.get_mut(&s)) else {
                return "bad-op".into();
            };
            match guard(|| with!(h, c, Digest::reset(c))) {
                Some(()) => "ok".into(),
                None => "panic".into(),
            }
        }
        ["blake", op @ ("finreset" | "finreset2"), slot] => {
            let Some(h) = num(slot).and_then(|s| st.hs.get_mut(&s)) else {
                return "bad-op".into();
            };
            match guard(|| with!(h, c, if *op == "finreset" {
                // in-place: finalize_into_dirty + Reset::reset
                digest::FixedOutput::finalize_fixed_reset(c).to_vec()
            } else {
                // digest 0.9 `Digest::finalize_reset`: finalizes a clone, then resets
                Digest::finalize_reset(c).to_vec()
            })) {
                Some(v) => hex_nodash(&v),
                None => "panic".into(),
            }
        }
        ["blake", "fin", slot] => {
            let Some(h) = num(slot).and_then(|s| st.hs.get(&s)) else {
                return "bad-op".into();
            };
            match guard(|| with!(h, c, Digest::finalize(c.clone()).to_vec())) {
                Some(v) => hex_nodash(&v),
                None => "panic".into(),
            }
        }
        ["blake", "setctr", slot, t0, t1] => {
            let Some(h) = num(slot).and_then(|s| st.hs.get_mut(&s)) else {
                return "bad-op".into();
            };
            match h {
                Any::B224(_) | Any::B256(_) => {
                    let (Ok(t0), Ok(t1)) = (t0.parse::<u32>(), t1.parse::<u32>()) else {
                        return "bad-op".into();
                    };
                    match h {
                        Any::B224(c) => c.verif_set_counter((t0, t1)),
                        Any::B256(c) => c.verif_set_counter((t0, t1)),
                        _ => unreachable!(),
                    }
                }
                Any::B384(_) | Any::B512(_) => {
                    let (Ok(t0), Ok(t1)) = (t0.parse::<u64>(), t1.parse::<u64>()) else {
                        return "bad-op".into();
                    };
                    match h {
                        Any::B384(c) => c.verif_set_counter((t0, t1)),
                        Any::B512(c) => c.verif_set_counter((t0, t1)),
                        _ => unreachable!(),
                    }
                }
            }
            "ok".into()
        }
        ["blake", "getctr", slot] => {
            let Some(h) = num(slot).and_then(|s| st.hs.get(&s)) else {
                return "bad-op".into();
            };
            match guard(|| {
                with!(h, c, {
                    let (_, t) = c.verif_get_state();
                    format!("{} {}", t.0, t.1)
                })
            }) {
                Some(s) => s,
                None => "panic".into(),
            }
        }
        ["blake", "getstate", slot] => {
            let Some(h) = num(slot).and_then(|s| st.hs.get(&s)) else {
                return "bad-op".into();
            };
            match guard(|| {
                with!(h, c, {
                    let (hw, _) = c.verif_get_state();
                    let mut v = Vec::new();
                    for x in hw.iter() {
                        v.extend_from_slice(&x.to_be_bytes());
                    }
                    hex_nodash(&v)
                })
            }) {
                Some(s) => s,
                None => "panic".into(),
            }
        }
        ["blake", "putblock", ws, h, block, t0, t1] => {
            let (Some(h), Some(b)) = (unhex(h), unhex(block)) else {
                return "bad-op".into();
            };
            putblock(backend, ws, &h, &b, t0, t1)
        }
        _ => "bad-op".into(),
    }
}
