//! `conc <nthreads> <seed> <rounds>` — cold-start concurrency trial (property C18).
//!
//! The parent re-executes this very binary (`std::env::current_exe()`) as a fresh process
//! `cch --conc-child <nthreads> <seed> <rounds>`.  In the child, `nthreads` threads build their
//! scripts (plain protocol lines, no library calls), wait on a `std::sync::Barrier`, and then make
//! their FIRST calls into the library simultaneously — thread 0 starts with Grøstl (racing the six
//! `lazy_static! IMPL` cells), thread 1 with Skein, … (`order`) — each on its own thread-private
//! instances: first one-shot computations (phase A), then `rounds` round-robin passes feeding one
//! piece to every instance in turn (phase B), so that operations on distinct instances interleave.
//! Nothing in the child touches the library before the barrier opens (CPU-feature detection and the
//! `IMPL` cells are initialised by the racing threads themselves).
//!
//! The child prints one line per (thread, result item) in canonical order; the parent returns
//! them joined by `;`.  Child crash, non-zero exit or time-out → `panic`.
//! The script is defined identically in lean/CC/Drv/Conc.lean.
use crate::util::*;
use std::io::Read;
use std::process::{Command, Stdio};
use std::sync::{Arc, Barrier};
use std::time::{Duration, Instant};

const N_ITEMS: usize = 15;
/// (family, variant, nonce length)
const ITEMS: [(&str, &str, usize); N_ITEMS] = [
    ("groestl", "224", 0),
    ("groestl", "256", 0),
    ("groestl", "384", 0),
    ("groestl", "512", 0),
    ("blake", "256", 0),
    ("blake", "512", 0),
    ("jh", "256", 0),
    ("skein", "512-64", 0),
    // two more output sizes of the same state size, one 8x the other, created back to back: a
    // process-wide cache keyed on a type-level parameter (bytes vs bits) shows only then
    ("skein", "512-32", 0),
    ("skein", "512-256", 0),
    ("chacha", "chacha20", 8),
    // other round counts next to the 20-round ciphers: anything resolved once per process by the first
    // caller (a cached kernel pointer, say) must not leak from one cipher type into another
    ("chacha", "chacha8", 8),
    ("chacha", "chacha12", 8),
    ("chacha", "ietf", 12),
    ("chacha", "xchacha20", 24),
];
const CHILD_TIMEOUT: Duration = Duration::from_secs(120);

fn order(tid: u64, focus: u64) -> Vec<usize> {
    // focus < N_ITEMS: EVERY thread starts with that item, so all first calls into one algorithm
    // (one-time initialisation, lazily filled tables) happen at the same moment
    if (focus as usize) < N_ITEMS {
        return (0..N_ITEMS as u64).map(|j| ((focus + j) % N_ITEMS as u64) as usize).collect();
    }
    (0..N_ITEMS as u64).map(|j| ((7 * tid + j) % N_ITEMS as u64) as usize).collect()
}
fn len_a(seed: u64, tid: u64, it: u64) -> u64 {
    (seed * 7 + tid * 13 + it * 29) % 97
}
fn off_a(seed: u64, tid: u64, it: u64) -> u64 {
    (seed * 3 + tid * 17 + it * 5) % 200
}
fn len_b(seed: u64, tid: u64, it: u64, r: u64) -> u64 {
    (seed + tid * 5 + it * 11 + r * 37) % 41
}
fn off_b(seed: u64, tid: u64, it: u64) -> u64 {
    (seed * 11 + tid * 3 + it * 7) % 300
}

fn new_line(it: usize, slot: usize, sd: u64) -> String {
    let (fam, var, nl) = ITEMS[it];
    if fam == "chacha" {
        format!(
            "chacha new {} {} {} {}",
            slot,
            var,
            hex(&pat_bytes(sd + it as u64, 32)),
            hex(&pat_bytes(sd + 100 + it as u64, nl))
        )
    } else {
        format!("{} new {} {}", fam, slot, var)
    }
}

/// the script of thread `tid`: (result item, protocol line)
fn script(tid: u64, seed: u64, rounds: u64, focus: u64) -> Vec<(usize, String)> {
    let sd = seed + tid;
    let ord = order(tid, focus);
    let is_c = |it: usize| ITEMS[it].0 == "chacha";
    let mut s = Vec::new();
    // phase A: one-shot
    for &it in &ord {
        let fam = ITEMS[it].0;
        s.push((it, new_line(it, it, sd)));
        if is_c(it) {
            s.push((it, format!("chacha seek {} u64 {}", it, off_a(seed, tid, it as u64))));
            s.push((it, format!("chacha applypat {} {} {}", it, 320 + len_a(seed, tid, it as u64), sd)));
            // one bulk request (> 64 KiB, digest only) by the first three threads on the ChaCha20 item: anything
            // a large call stages in shared memory shows here (the noise threads of `child_main` keep such
            // calls in flight all the time); kept small because the Lean model computes the same bytes
            if ITEMS[it].1 == "chacha20" && tid < 3 {
                s.push((it, format!("chacha applysum {} {}", it, 66048)));
            }
        } else {
            s.push((it, format!("{} updpat {} {} {}", fam, it, len_a(seed, tid, it as u64), sd)));
            s.push((it, format!("{} fin {}", fam, it)));
        }
    }
    // phase B: round-robin over fresh instances
    for &it in &ord {
        s.push((N_ITEMS + it, new_line(it, 100 + it, sd)));
        if is_c(it) {
            s.push((N_ITEMS + it, format!("chacha seek {} u64 {}", 100 + it, off_b(seed, tid, it as u64))));
        }
    }
    for r in 0..rounds {
        for &it in &ord {
            let fam = ITEMS[it].0;
            let op = if is_c(it) { "applypat" } else { "updpat" };
            s.push((
                N_ITEMS + it,
                format!("{} {} {} {} {}", fam, op, 100 + it, len_b(seed, tid, it as u64, r), sd + 1 + r),
            ));
        }
    }
    for &it in &ord {
        let fam = ITEMS[it].0;
        if is_c(it) {
            s.push((N_ITEMS + it, format!("chacha pos {} u64", 100 + it)));
        } else {
            s.push((N_ITEMS + it, format!("{} fin {}", fam, 100 + it)));
        }
    }
    s
}

fn fresh_ctx() -> crate::Ctx {
    crate::Ctx {
        profile_debug: cfg!(debug_assertions),
        chacha: Default::default(),
        backend: "ref".to_string(),
        blake: Default::default(),
        jh: Default::default(),
        groestl: Default::default(),
        skein: Default::default(),
    }
}

/// body of `cch --conc-child <nthreads> <seed> <rounds>`; returns the process exit code.
pub fn child_main(args: &[String]) -> i32 {
    let p: Vec<u64> = args.iter().filter_map(|a| a.parse().ok()).collect();
    if p.len() != 5 || args.len() != 5 || p[0] == 0 || p[0] > 256 || p[2] > 64 {
        println!("bad-op");
        return 2;
    }
    let (n, seed, rounds, focus, warm) = (p[0], p[1], p[2], p[3], p[4]);
    if warm != 0 {
        // warm std's CPU-feature cache (and nothing else of the focused algorithm) before the race:
        // one digest with a DIFFERENT algorithm on the main thread
        let mut ctx = fresh_ctx();
        let it = if (focus as usize) < N_ITEMS { (focus as usize + 5) % N_ITEMS } else { 4 };
        for line in [new_line(it, 0, 1), format!("{} updpat 0 10 1", ITEMS[it].0), format!("{} fin 0", ITEMS[it].0)] {
            if ITEMS[it].0 == "chacha" && !line.starts_with("chacha new") {
                continue;
            }
            let toks: Vec<&str> = line.split_whitespace().collect();
            let _ = crate::step(&mut ctx, &toks);
        }
    }
    // NOISE threads: they join the cold-start race like every other thread and then keep LARGE calls of every
    // family in flight (1 MiB keystream requests, 1 MiB hash updates) on instances of their own until the
    // measured threads are done; their results are not looked at.  Whatever a large call shares between
    // instances (a static staging buffer, a cached pointer) is then in use while the measured calls run.
    const NOISE: usize = 3;
    let stop = Arc::new(std::sync::atomic::AtomicBool::new(false));
    let barrier = Arc::new(Barrier::new(n as usize + NOISE));
    let mut noise = Vec::new();
    for k in 0..NOISE {
        let b = barrier.clone();
        let st = stop.clone();
        let h = std::thread::Builder::new().name(format!("noise-{}", k)).spawn(move || {
            let mut ctx = fresh_ctx();
            let lines: Vec<String> = vec![
                format!("chacha new 900 chacha20 {} {}", hex(&pat_bytes(k as u64 + 7, 32)), hex(&pat_bytes(k as u64 + 9, 8))),
                "chacha applysum 900 1048576".to_string(),
                "chacha new 901 chacha8 0000000000000000000000000000000000000000000000000000000000000000 0000000000000000".to_string(),
                "chacha applysum 901 1048576".to_string(),
                "blake new 902 512".to_string(), "blake updpat 902 1048576 3".to_string(), "blake fin 902".to_string(),
                "jh new 903 256".to_string(), "jh updpat 903 1048576 3".to_string(), "jh fin 903".to_string(),
                "skein new 904 512-64".to_string(), "skein updpat 904 1048576 3".to_string(), "skein fin 904".to_string(),
                "groestl new 905 256".to_string(), "groestl updpat 905 1048576 3".to_string(), "groestl fin 905".to_string(),
            ];
            b.wait();
            let mut i = k * 2;
            while !st.load(std::sync::atomic::Ordering::Relaxed) {
                let line = &lines[i % lines.len()];
                let toks: Vec<&str> = line.split_whitespace().collect();
                let _ = crate::step(&mut ctx, &toks);
                i += 1;
            }
        });
        match h {
            Ok(h) => noise.push(h),
            Err(_) => {
                println!("panic");
                std::process::exit(3);
            }
        }
    }
    let mut handles = Vec::new();
    let spinners: u64 = n.min(12);
    let spin_barrier = Arc::new(std::sync::atomic::AtomicU64::new(0));
    for tid in 0..n {
        let b = barrier.clone();
        let sb = spin_barrier.clone();
        let h = std::thread::Builder::new()
            .name(format!("conc-{}", tid))
            .spawn(move || {
                // everything before the barrier is harness-only (no library call)
                let sc = script(tid, seed, rounds, focus);
                let mut ctx = fresh_ctx();
                let mut res: Vec<Vec<String>> = vec![Vec::new(); 2 * N_ITEMS];
                b.wait();
                // the std barrier releases its waiters microseconds apart; a first-use race window can be a few
                // nanoseconds.  The first SPINNERS threads therefore meet again at a spin barrier and start within
                // tens of nanoseconds of each other, thread `tid` delayed by `tid * (pid mod 48)` spin iterations
                // (0 = all at once; the stagger varies from process to process and affects timing only)
                if tid < spinners {
                    sb.fetch_add(1, std::sync::atomic::Ordering::AcqRel);
                    while sb.load(std::sync::atomic::Ordering::Acquire) < spinners {
                        std::hint::spin_loop();
                    }
                    for _ in 0..(tid * (std::process::id() as u64 % 48)) {
                        std::hint::spin_loop();
                    }
                }
                for (idx, line) in &sc {
                    let toks: Vec<&str> = line.split_whitespace().collect();
                    let r = crate::step(&mut ctx, &toks);
                    if r != "ok" {
                        res[*idx].push(r);
                    }
                }
                res
            });
        match h {
            Ok(h) => handles.push((tid, h)),
            Err(_) => {
                // cannot create the thread: the others would wait forever on the barrier
                println!("panic");
                std::process::exit(3);
            }
        }
    }
    let mut out = String::new();
    for (tid, h) in handles {
        match h.join() {
            Ok(res) => {
                for (idx, rs) in res.iter().enumerate() {
                    out.push_str(&format!("{}.{}={}\n", tid, idx, rs.join(",")));
                }
            }
            Err(_) => {
                println!("panic");
                std::process::exit(4);
            }
        }
    }
    stop.store(true, std::sync::atomic::Ordering::Relaxed);
    for h in noise {
        if h.join().is_err() {
            println!("panic");
            return 5;
        }
    }
    print!("{}", out);
    0
}

fn run_child(n: u64, seed: u64, rounds: u64, focus: u64, warm: u64) -> Option<String> {
    let exe = std::env::current_exe().ok()?;
    let mut child = Command::new(exe)
        .arg("--conc-child")
        .arg(n.to_string())
        .arg(seed.to_string())
        .arg(rounds.to_string())
        .arg(focus.to_string())
        .arg(warm.to_string())
        .stdin(Stdio::null())
        .stdout(Stdio::piped())
        .stderr(Stdio::null())
        .spawn()
        .ok()?;
    let mut so = child.stdout.take()?;
    let reader = std::thread::spawn(move || {
        let mut s = String::new();
        let _ = so.read_to_string(&mut s);
        s
    });
    let t0 = Instant::now();
    let status = loop {
        match child.try_wait() {
            Ok(Some(st)) => break Some(st),
            Ok(None) => {
                if t0.elapsed() > CHILD_TIMEOUT {
                    let _ = child.kill();
                    let _ = child.wait();
                    break None;
                }
                std::thread::sleep(Duration::from_millis(2));
            }
            Err(_) => break None,
        }
    };
    let text = reader.join().ok()?;
    match status {
        Some(st) if st.success() => {
            let lines: Vec<&str> = text.lines().collect();
            if lines.len() as u64 != n * 2 * N_ITEMS as u64 {
                return None;
            }
            Some(lines.join(";"))
        }
        _ => None,
    }
}

pub fn step(toks: &[&str]) -> String {
    match toks {
        ["conc", n, seed, rounds] => {
            let (Ok(n), Ok(seed), Ok(rounds)) = (n.parse::<u64>(), seed.parse::<u64>(), rounds.parse::<u64>()) else {
                return "bad-op".into();
            };
            if n == 0 || n > 256 || rounds > 64 {
                return "bad-op".into();
            }
            match run_child(n, seed, rounds, 255, 0) {
                Some(s) => s,
                None => "panic".into(),
            }
        }
        // focused trial: every thread's FIRST call goes into item `focus`; `warm` != 0 warms the
        // feature-detection cache with another algorithm first.  Same results as `conc n seed rounds`.
        ["conc", n, seed, rounds, focus, warm] => {
            let (Ok(n), Ok(seed), Ok(rounds), Ok(focus), Ok(warm)) =
                (n.parse::<u64>(), seed.parse::<u64>(), rounds.parse::<u64>(), focus.parse::<u64>(), warm.parse::<u64>())
            else {
                return "bad-op".into();
            };
            if n == 0 || n > 256 || rounds > 64 {
                return "bad-op".into();
            }
            match run_child(n, seed, rounds, focus, warm) {
                Some(s) => s,
                None => "panic".into(),
            }
        }
        _ => "bad-op".into(),
    }
}
