//! `skein …` — Skein256/512/1024<N> through the digest 0.9 traits, plus the verification hooks.
use crate::util::*;
use digest::generic_array::typenum::*;
use digest::generic_array::GenericArray;
use digest::{FixedOutput, FixedOutputDirty, Reset, Update};
use skein_hash::{Skein1024, Skein256, Skein512};
use std::collections::HashMap;

pub trait DynSkein {
    fn upd(&mut self, data: &[u8]);
    fn fin(&self) -> Vec<u8>;
    fn finreset(&mut self) -> Vec<u8>;
    fn finreset2(&mut self) -> Vec<u8>;
    fn rst(&mut self);
    fn dup(&self) -> Box<dyn DynSkein>;
    fn setctr(&mut self, n: u64);
    fn getctr(&self) -> (u64, u64);
    fn getx(&self) -> Vec<u8>;
}

macro_rules! imp {
    ($ty:ident) => {
        impl<N> DynSkein for $ty<N>
        where
            N: Unsigned + digest::generic_array::ArrayLength<u8> + NonZero + Default + 'static,
        {
            fn upd(&mut self, data: &[u8]) {
                Update::update(self, data);
            }
            fn fin(&self) -> Vec<u8> {
                let mut c = self.clone();
                let mut out = GenericArray::<u8, N>::default();
                FixedOutputDirty::finalize_into_dirty(&mut c, &mut out);
                out.to_vec()
            }
            fn finreset(&mut self) -> Vec<u8> {
                let mut out = GenericArray::<u8, N>::default();
                FixedOutput::finalize_into_reset(self, &mut out);
                out.to_vec()
            }
            fn finreset2(&mut self) -> Vec<u8> {
                // digest 0.9 `Digest::finalize_reset`: finalizes a clone, then resets
                digest::Digest::finalize_reset(self).to_vec()
            }
            fn rst(&mut self) {
                Reset::reset(self);
            }
            fn dup(&self) -> Box<dyn DynSkein> {
                Box::new(self.clone())
            }
            fn setctr(&mut self, n: u64) {
                self.verif_set_byte_count(n);
            }
            fn getctr(&self) -> (u64, u64) {
                self.verif_get_state().1
            }
            fn getx(&self) -> Vec<u8> {
                self.verif_get_state().0.to_vec()
            }
        }
    };
}
imp!(Skein256);
imp!(Skein512);
imp!(Skein1024);

#[derive(Default)]
pub struct St {
    pub slots: HashMap<u64, Box<dyn DynSkein>>,
}

fn make(variant: &str) -> Option<Option<Box<dyn DynSkein>>> {
    let mut it = variant.split('-');
    let sz = it.next()?;
    let n: u64 = it.next()?.parse().ok()?;
    if it.next().is_some() {
        return None;
    }
    macro_rules! mk {
        ($ty:ident, $n:ty) => {
            guard(|| Box::new(<$ty<$n>>::default()) as Box<dyn DynSkein>)
        };
    }
    macro_rules! by_n {
        ($ty:ident) => {
            match n {
                1 => mk!($ty, U1),
                2 => mk!($ty, U2),
                7 => mk!($ty, U7),
                8 => mk!($ty, U8),
                20 => mk!($ty, U20),
                31 => mk!($ty, U31),
                32 => mk!($ty, U32),
                33 => mk!($ty, U33),
                48 => mk!($ty, U48),
                63 => mk!($ty, U63),
                64 => mk!($ty, U64),
                65 => mk!($ty, U65),
                96 => mk!($ty, U96),
                127 => mk!($ty, U127),
                128 => mk!($ty, U128),
                129 => mk!($ty, U129),
                200 => mk!($ty, U200),
                256 => mk!($ty, U256),
                257 => mk!($ty, U257),
                1000 => mk!($ty, U1000),
                // more than 256 / 65536 counter-mode output blocks
                8256 => mk!($ty, Sum<U8192, U64>),
                16512 => mk!($ty, Sum<U16384, U128>),
                33024 => mk!($ty, Sum<U32768, U256>),
                // output sizes that ALIAS a standard size when the byte or bit count is narrowed (rule 20 for the
                // type-level parameter): N = 256 + n (N as u8 = n), N = 8192 + n (N*8 as u16 = n*8), N = 65536 + n
                288 => mk!($ty, Sum<U256, U32>),
                320 => mk!($ty, Sum<U256, U64>),
                8208 => mk!($ty, Sum<U8192, U16>),
                8224 => mk!($ty, Sum<U8192, U32>),
                8320 => mk!($ty, Sum<U8192, U128>),
                65568 => mk!($ty, Sum<U65536, U32>),
                65600 => mk!($ty, Sum<U65536, U64>),
                _ => return None,
            }
        };
    }
    Some(match sz {
        "256" => by_n!(Skein256),
        "512" => by_n!(Skein512),
        "1024" => by_n!(Skein1024),
        _ => return None,
    })
}

pub fn step(st: &mut St, toks: &[&str]) -> String {
    macro_rules! slot {
        ($s:expr) => {
            match $s.parse::<u64>() {
                Ok(k) => k,
                Err(_) => return "bad-op".into(),
            }
        };
    }
    match toks {
        ["skein", "new", slot, variant] => {
            let k = slot!(slot);
            match make(variant) {
                None => "bad-op".into(),
                Some(None) => "panic".into(),
                Some(Some(h)) => {
                    st.slots.insert(k, h);
                    "ok".into()
                }
            }
        }
        ["skein", "update", slot, hexs] => {
            let k = slot!(slot);
            let d = match unhex(hexs) {
                Some(d) => d,
                None => return "bad-op".into(),
            };
            update(st, k, &d)
        }
        ["skein", "updpat", slot, len, seed] => {
            let k = slot!(slot);
            match (len.parse::<usize>(), seed.parse::<u64>()) {
                (Ok(l), Ok(sd)) => {
                    let d = pat_bytes(sd, l);
                    update(st, k, &d)
                }
                _ => "bad-op".into(),
            }
        }
        // C17: feed `nbytes` bytes (byte i = pat_byte(seed, i mod BIG_PERIOD)) through the real `update`
        // in 1 MiB calls
        // one single `update` call with `nbytes` bytes (byte i = pat_byte(seed, i mod BIG_PERIOD))
        ["skein", "bigupd", slot, nbytes, seed] => {
            let k = slot!(slot);
            match (nbytes.parse::<u64>(), seed.parse::<u64>()) {
                (Ok(n), Ok(sd)) => {
                    let chunk = pat_bytes(sd, crate::util::BIG_PERIOD);
                    let mut big = Vec::with_capacity(n as usize);
                    while big.len() < n as usize {
                        let c = (n as usize - big.len()).min(chunk.len());
                        big.extend_from_slice(&chunk[..c]);
                    }
                    update(st, k, &big)
                }
                _ => "bad-op".into(),
            }
        }
        ["skein", "stream", slot, nbytes, seed] => {
            let k = slot!(slot);
            match (nbytes.parse::<u64>(), seed.parse::<u64>()) {
                (Ok(n), Ok(sd)) => {
                    let chunk = pat_bytes(sd, crate::util::BIG_PERIOD);
                    let mut left = n as usize;
                    while left > 0 {
                        let c = left.min(chunk.len());
                        let r = update(st, k, &chunk[..c]);
                        if r != "ok" {
                            return r;
                        }
                        left -= c;
                    }
                    "ok".into()
                }
                _ => "bad-op".into(),
            }
        }
        ["skein", "clone", a, b] => {
            let (a, b) = (slot!(a), slot!(b));
            let c = match st.slots.get(&a) {
                Some(h) => guard(|| h.dup()),
                None => return "bad-op".into(),
            };
            match c {
                Some(h) => {
                    st.slots.insert(b, h);
                    "ok".into()
                }
                None => "panic".into(),
            }
        }
        ["skein", "reset", slot] => {
            let k = slot!(slot);
            let r = match st.slots.get_mut(&k) {
                Some(h) => guard(|| h.rst()),
                None => return "bad-op".into(),
            };
            match r {
                Some(()) => "ok".into(),
                None => {
                    st.slots.remove(&k);
                    "panic".into()
                }
            }
        }
        ["skein", "fin", slot] => {
            let k = slot!(slot);
            match st.slots.get(&k) {
                Some(h) => match guard(|| h.fin()) {
                    Some(v) => hex_nodash(&v),
                    None => "panic".into(),
                },
                None => "bad-op".into(),
            }
        }
        ["skein", op @ ("finreset" | "finreset2"), slot] => {
            let k = slot!(slot);
            let r = match st.slots.get_mut(&k) {
                Some(h) => guard(|| if *op == "finreset" { h.finreset() } else { h.finreset2() }),
                None => return "bad-op".into(),
            };
            match r {
                Some(v) => hex_nodash(&v),
                None => {
                    st.slots.remove(&k);
                    "panic".into()
                }
            }
        }
        ["skein", "setctr", slot, val] => {
            let k = slot!(slot);
            match (st.slots.get_mut(&k), val.parse::<u64>()) {
                (Some(h), Ok(v)) => {
                    h.setctr(v);
                    "ok".into()
                }
                _ => "bad-op".into(),
            }
        }
        ["skein", "getctr", slot] => {
            let k = slot!(slot);
            match st.slots.get(&k) {
                Some(h) => {
                    let (a, b) = h.getctr();
                    format!("{} {}", a, b)
                }
                None => "bad-op".into(),
            }
        }
        ["skein", "getx", slot] => {
            let k = slot!(slot);
            match st.slots.get(&k) {
                Some(h) => hex_nodash(&h.getx()),
                None => "bad-op".into(),
            }
        }
        _ => "bad-op".into(),
    }
}

fn update(st: &mut St, k: u64, d: &[u8]) -> String {
    let r = match st.slots.get_mut(&k) {
        Some(h) => guard(|| h.upd(d)),
        None => return "bad-op".into(),
    };
    match r {
        Some(()) => "ok".into(),
        None => {
            st.slots.remove(&k);
            "panic".into()
        }
    }
}
