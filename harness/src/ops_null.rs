//! `null <type> <method> <operands…>` — executes the REAL ppv_null types (property C19).
//! Operand/result format: see lean/CC/Drv/Null.lean.  Fields are private, so results are observed
//! through the public API: `into_inner` (u128x1), `extract` (u128x2, u32x4, u64x4), `into_parts` (u32x4x4).
use crate::util::guard;
use crypto_simd::{RotateWordsRight, SplatRotateRight};
use ppv_null::{u128x1, u128x2, u32x4, u32x4x4, u64x4};

macro_rules! word_io {
    ($parse_word:ident, $parse_words:ident, $show:ident, $t:ty, $hexlen:expr) => {
        fn $parse_word(s: &str) -> Option<$t> {
            if s.len() != $hexlen || !s.bytes().all(|c| c.is_ascii_hexdigit()) {
                return None;
            }
            <$t>::from_str_radix(s, 16).ok()
        }
        fn $parse_words(s: &str) -> Option<Vec<$t>> {
            if s == "-" {
                return Some(vec![]);
            }
            s.split(',').map($parse_word).collect()
        }
        fn $show(xs: &[$t]) -> String {
            if xs.is_empty() {
                return "-".into();
            }
            xs.iter()
                .map(|x| format!("{:0w$x}", x, w = $hexlen))
                .collect::<Vec<_>>()
                .join(" ")
        }
    };
}
word_io!(w32, ws32, sh32, u32, 8);
word_io!(w64, ws64, sh64, u64, 16);
word_io!(w128, ws128, sh128, u128, 32);

fn res(r: Option<String>) -> String {
    r.unwrap_or_else(|| "panic".into())
}

const BAD: &str = "bad-op";

// ---------------------------------------------------------------- u128x1
fn p1(s: &str) -> Option<u128x1> {
    match ws128(s)?.as_slice() {
        [a] => Some(u128x1::new(*a)),
        _ => None,
    }
}
fn o1(v: u128x1) -> String {
    sh128(&[v.into_inner()])
}

fn step_u128x1(t: &[&str]) -> String {
    macro_rules! un {
        ($v:expr, $f:expr) => {{
            let Some(v) = p1($v) else { return BAD.into() };
            res(guard(|| o1($f(v))))
        }};
    }
    macro_rules! bin {
        ($v:expr, $r:expr, $f:expr) => {{
            let (Some(v), Some(r)) = (p1($v), p1($r)) else { return BAD.into() };
            res(guard(|| o1($f(v, r))))
        }};
    }
    match t {
        ["new", a] => {
            let Some(a) = w128(a) else { return BAD.into() };
            res(guard(|| o1(u128x1::new(a))))
        }
        ["clone", v] => un!(v, |v: u128x1| v.clone()),
        ["rotate_right", v, i] => {
            let (Some(mut v), Ok(i)) = (p1(v), i.parse::<u128>()) else { return BAD.into() };
            res(guard(|| {
                v.rotate_right(i);
                o1(v)
            }))
        }
        ["load", xs] => {
            let Some(xs) = ws128(xs) else { return BAD.into() };
            res(guard(|| o1(u128x1::load(&xs))))
        }
        ["xor_store", v, xs] => {
            let (Some(v), Some(mut xs)) = (p1(v), ws128(xs)) else { return BAD.into() };
            res(guard(|| {
                v.xor_store(&mut xs);
                sh128(&xs)
            }))
        }
        ["into_inner", v] => {
            let Some(v) = p1(v) else { return BAD.into() };
            res(guard(|| sh128(&[v.into_inner()])))
        }
        ["swap1", v] => un!(v, |v: u128x1| v.swap1()),
        ["swap2", v] => un!(v, |v: u128x1| v.swap2()),
        ["swap4", v] => un!(v, |v: u128x1| v.swap4()),
        ["swap8", v] => un!(v, |v: u128x1| v.swap8()),
        ["swap16", v] => un!(v, |v: u128x1| v.swap16()),
        ["swap32", v] => un!(v, |v: u128x1| v.swap32()),
        ["swap64", v] => un!(v, |v: u128x1| v.swap64()),
        ["andnot", v, r] => bin!(v, r, |v: u128x1, r: u128x1| v.andnot(r)),
        ["extract", v, i] => {
            let (Some(v), Ok(i)) = (p1(v), i.parse::<u32>()) else { return BAD.into() };
            res(guard(|| sh128(&[v.extract(i)])))
        }
        ["add_assign", v, r] => bin!(v, r, |mut v: u128x1, r: u128x1| {
            v += r;
            v
        }),
        ["bitxor_assign", v, r] => bin!(v, r, |mut v: u128x1, r: u128x1| {
            v ^= r;
            v
        }),
        ["bitxor", v, r] => bin!(v, r, |v: u128x1, r: u128x1| v ^ r),
        ["bitand", v, r] => bin!(v, r, |v: u128x1, r: u128x1| v & r),
        ["not", v] => un!(v, |v: u128x1| !v),
        _ => BAD.into(),
    }
}

// ---------------------------------------------------------------- u128x2
fn p2(s: &str) -> Option<u128x2> {
    match ws128(s)?.as_slice() {
        [a, b] => Some(u128x2::new(*a, *b)),
        _ => None,
    }
}
fn o2(v: u128x2) -> String {
    sh128(&[v.extract(0), v.extract(1)])
}

fn step_u128x2(t: &[&str]) -> String {
    macro_rules! un {
        ($v:expr, $f:expr) => {{
            let Some(v) = p2($v) else { return BAD.into() };
            res(guard(|| o2($f(v))))
        }};
    }
    macro_rules! bin {
        ($v:expr, $r:expr, $f:expr) => {{
            let (Some(v), Some(r)) = (p2($v), p2($r)) else { return BAD.into() };
            res(guard(|| o2($f(v, r))))
        }};
    }
    match t {
        ["new", a, b] => {
            let (Some(a), Some(b)) = (w128(a), w128(b)) else { return BAD.into() };
            res(guard(|| o2(u128x2::new(a, b))))
        }
        ["clone", v] => un!(v, |v: u128x2| v.clone()),
        ["rotate_right", v, i] => {
            let (Some(mut v), Ok(i)) = (p2(v), i.parse::<u128>()) else { return BAD.into() };
            res(guard(|| {
                v.rotate_right(i);
                o2(v)
            }))
        }
        ["load", xs] => {
            let Some(xs) = ws128(xs) else { return BAD.into() };
            res(guard(|| o2(u128x2::load(&xs))))
        }
        ["xor_store", v, xs] => {
            let (Some(v), Some(mut xs)) = (p2(v), ws128(xs)) else { return BAD.into() };
            res(guard(|| {
                v.xor_store(&mut xs);
                sh128(&xs)
            }))
        }
        ["extract", v, i] => {
            let (Some(v), Ok(i)) = (p2(v), i.parse::<u32>()) else { return BAD.into() };
            res(guard(|| sh128(&[v.extract(i)])))
        }
        ["andnot", v, r] => bin!(v, r, |v: u128x2, r: u128x2| v.andnot(r)),
        ["add_assign", v, r] => bin!(v, r, |mut v: u128x2, r: u128x2| {
            v += r;
            v
        }),
        ["bitxor_assign", v, r] => bin!(v, r, |mut v: u128x2, r: u128x2| {
            v ^= r;
            v
        }),
        ["bitand", v, r] => bin!(v, r, |v: u128x2, r: u128x2| v & r),
        ["bitor", v, r] => bin!(v, r, |v: u128x2, r: u128x2| v | r),
        ["not", v] => un!(v, |v: u128x2| !v),
        _ => BAD.into(),
    }
}

// ---------------------------------------------------------------- u32x4 / u64x4
macro_rules! vec4_ops {
    ($step:ident, $V:ident, $W:ty, $pv:ident, $ov:ident, $w:ident, $ws:ident, $sh:ident) => {
        fn $pv(s: &str) -> Option<$V> {
            match $ws(s)?.as_slice() {
                [a, b, c, d] => Some($V::new(*a, *b, *c, *d)),
                _ => None,
            }
        }
        fn $ov(v: $V) -> String {
            $sh(&[v.extract(0), v.extract(1), v.extract(2), v.extract(3)])
        }
        fn $step(t: &[&str]) -> String {
            let bin = |v: &str, r: &str, f: &dyn Fn($V, $V) -> $V| -> String {
                let (Some(v), Some(r)) = ($pv(v), $pv(r)) else { return BAD.into() };
                res(guard(|| $ov(f(v, r))))
            };
            match t {
                ["new", a, b, c, d] => {
                    let (Some(a), Some(b), Some(c), Some(d)) = ($w(a), $w(b), $w(c), $w(d)) else {
                        return BAD.into();
                    };
                    res(guard(|| $ov($V::new(a, b, c, d))))
                }
                ["clone", v] => {
                    let Some(v) = $pv(v) else { return BAD.into() };
                    res(guard(|| $ov(v.clone())))
                }
                ["rotate_right", v, ii] => {
                    let (Some(mut v), Some(ii)) = ($pv(v), $pv(ii)) else { return BAD.into() };
                    res(guard(|| {
                        let r = v.rotate_right(ii);
                        format!("{} {}", $ov(v), $ov(r))
                    }))
                }
                ["from_slice_unaligned", xs] => {
                    let Some(xs) = $ws(xs) else { return BAD.into() };
                    res(guard(|| $ov($V::from_slice_unaligned(&xs))))
                }
                ["splat", x] => {
                    let Some(x) = $w(x) else { return BAD.into() };
                    res(guard(|| $ov($V::splat(x))))
                }
                ["write_to_slice_unaligned", v, xs] => {
                    let (Some(v), Some(mut xs)) = ($pv(v), $ws(xs)) else { return BAD.into() };
                    res(guard(|| {
                        v.write_to_slice_unaligned(&mut xs);
                        $sh(&xs)
                    }))
                }
                ["replace", v, i, x] => {
                    let (Some(v), Ok(i), Some(x)) = ($pv(v), i.parse::<usize>(), $w(x)) else {
                        return BAD.into();
                    };
                    res(guard(|| $ov(v.replace(i, x))))
                }
                ["extract", v, i] => {
                    let (Some(v), Ok(i)) = ($pv(v), i.parse::<usize>()) else { return BAD.into() };
                    res(guard(|| $sh(&[v.extract(i)])))
                }
                ["add_assign", v, r] => bin(v, r, &|mut v: $V, r: $V| {
                    v += r;
                    v
                }),
                ["bitxor_assign", v, r] => bin(v, r, &|mut v: $V, r: $V| {
                    v ^= r;
                    v
                }),
                ["add", v, r] => bin(v, r, &|v: $V, r: $V| v + r),
                ["bitxor", v, r] => bin(v, r, &|v: $V, r: $V| v ^ r),
                ["bitor", v, r] => bin(v, r, &|v: $V, r: $V| v | r),
                ["bitand", v, r] => bin(v, r, &|v: $V, r: $V| v & r),
                ["rotate_words_right", v, i] => {
                    let (Some(v), Ok(i)) = ($pv(v), i.parse::<u32>()) else { return BAD.into() };
                    res(guard(|| $ov(v.rotate_words_right(std::hint::black_box(i)))))
                }
                ["splat_rotate_right", v, i] => {
                    let (Some(v), Ok(i)) = ($pv(v), i.parse::<u32>()) else { return BAD.into() };
                    res(guard(|| $ov(v.splat_rotate_right(std::hint::black_box(i)))))
                }
                _ => BAD.into(),
            }
        }
    };
}
vec4_ops!(step_u32x4, u32x4, u32, p32, o32, w32, ws32, sh32);
vec4_ops!(step_u64x4, u64x4, u64, p64, o64, w64, ws64, sh64);

// ---------------------------------------------------------------- u32x4x4
fn p16(s: &str) -> Option<u32x4x4> {
    let w = ws32(s)?;
    if w.len() != 16 {
        return None;
    }
    let q = |k: usize| u32x4::new(w[4 * k], w[4 * k + 1], w[4 * k + 2], w[4 * k + 3]);
    Some(u32x4x4::from((q(0), q(1), q(2), q(3))))
}
fn o16(v: u32x4x4) -> String {
    let (a, b, c, d) = v.into_parts();
    format!("{} {} {} {}", o32(a), o32(b), o32(c), o32(d))
}

fn step_u32x4x4(t: &[&str]) -> String {
    macro_rules! bin {
        ($v:expr, $r:expr, $f:expr) => {{
            let (Some(v), Some(r)) = (p16($v), p16($r)) else { return BAD.into() };
            res(guard(|| o16($f(v, r))))
        }};
    }
    match t {
        ["from", a, b, c, d] => {
            let (Some(a), Some(b), Some(c), Some(d)) = (p32(a), p32(b), p32(c), p32(d)) else {
                return BAD.into();
            };
            res(guard(|| o16(u32x4x4::from((a, b, c, d)))))
        }
        ["splat", a] => {
            let Some(a) = p32(a) else { return BAD.into() };
            res(guard(|| o16(u32x4x4::splat(a))))
        }
        ["into_parts", v] => {
            let Some(v) = p16(v) else { return BAD.into() };
            res(guard(|| {
                let (a, b, c, d) = v.into_parts();
                format!("{} {} {} {}", o32(a), o32(b), o32(c), o32(d))
            }))
        }
        ["clone", v] => {
            let Some(v) = p16(v) else { return BAD.into() };
            res(guard(|| o16(v.clone())))
        }
        ["bitxor", v, r] => bin!(v, r, |v: u32x4x4, r: u32x4x4| v ^ r),
        ["bitor", v, r] => bin!(v, r, |v: u32x4x4, r: u32x4x4| v | r),
        ["bitand", v, r] => bin!(v, r, |v: u32x4x4, r: u32x4x4| v & r),
        ["add", v, r] => bin!(v, r, |v: u32x4x4, r: u32x4x4| v + r),
        ["bitxor_assign", v, r] => bin!(v, r, |mut v: u32x4x4, r: u32x4x4| {
            v ^= r;
            v
        }),
        ["add_assign", v, r] => bin!(v, r, |mut v: u32x4x4, r: u32x4x4| {
            v += r;
            v
        }),
        ["rotate_words_right", v, i] => {
            let (Some(v), Ok(i)) = (p16(v), i.parse::<u32>()) else { return BAD.into() };
            res(guard(|| o16(v.rotate_words_right(std::hint::black_box(i)))))
        }
        ["splat_rotate_right", v, i] => {
            let (Some(v), Ok(i)) = (p16(v), i.parse::<u32>()) else { return BAD.into() };
            res(guard(|| o16(v.splat_rotate_right(std::hint::black_box(i)))))
        }
        _ => BAD.into(),
    }
}

pub fn step(toks: &[&str]) -> String {
    match toks {
        ["null", "u128x1", rest @ ..] => step_u128x1(rest),
        ["null", "u128x2", rest @ ..] => step_u128x2(rest),
        ["null", "u32x4", rest @ ..] => step_u32x4(rest),
        ["null", "u64x4", rest @ ..] => step_u64x4(rest),
        ["null", "u32x4x4", rest @ ..] => step_u32x4x4(rest),
        _ => BAD.into(),
    }
}
