//! `simd <backend> <type> <op> <operands…>` — every ppv-lite86 vector operation, executed on the
//! real code through the public `Machine` associated types; and `intrin <name> <operands…>` —
//! the x86 intrinsics themselves (`core::arch::x86_64`), against which `CC/X86/Intrin.lean` is tied.
//!
//! Vectors / elements / scalars: hex of the little-endian storage bytes.  Indices and immediates:
//! decimal.  Every call into the library is wrapped in `util::guard` (→ `panic`).
//! A (backend, type, op) the library does not provide prints `unsupported` (the set is mirrored by
//! `CC.Simd.provided`); on a std build the generic backend is not compiled, with `no_simd` the x86
//! ones are not: `unsupported` as well.
//!
//! Immediates of the intrinsics are const generics: `imm8!` expands to a 256-arm match, so EVERY
//! 8-bit immediate is reachable (1-bit / 2-bit immediates: every value).
#![allow(non_camel_case_types, unused_macros, unused_imports, dead_code)]
use crate::util::*;
use ppv_lite86::*;

// ------------------------------------------------------------------ storage <-> bytes

trait Stor: Sized {
    const N: usize;
    fn from_bytes(b: &[u8]) -> Self;
    fn to_bytes(self) -> Vec<u8>;
}
impl Stor for vec128_storage {
    const N: usize = 16;
    fn from_bytes(b: &[u8]) -> Self {
        let mut w = [0u32; 4];
        for i in 0..4 {
            w[i] = u32::from_le_bytes([b[4 * i], b[4 * i + 1], b[4 * i + 2], b[4 * i + 3]]);
        }
        w.into()
    }
    fn to_bytes(self) -> Vec<u8> {
        let w: [u32; 4] = self.into();
        w.iter().flat_map(|x| x.to_le_bytes()).collect()
    }
}
impl Stor for vec256_storage {
    const N: usize = 32;
    fn from_bytes(b: &[u8]) -> Self {
        vec256_storage::new128([
            vec128_storage::from_bytes(&b[..16]),
            vec128_storage::from_bytes(&b[16..]),
        ])
    }
    fn to_bytes(self) -> Vec<u8> {
        let [a, b] = self.split128();
        let mut v = a.to_bytes();
        v.extend(b.to_bytes());
        v
    }
}
impl Stor for vec512_storage {
    const N: usize = 64;
    fn from_bytes(b: &[u8]) -> Self {
        vec512_storage::new128([
            vec128_storage::from_bytes(&b[..16]),
            vec128_storage::from_bytes(&b[16..32]),
            vec128_storage::from_bytes(&b[32..48]),
            vec128_storage::from_bytes(&b[48..]),
        ])
    }
    fn to_bytes(self) -> Vec<u8> {
        let xs = self.split128();
        let mut v = Vec::new();
        for x in xs {
            v.extend(x.to_bytes());
        }
        v
    }
}

fn load<S: Stor, V: Store<S>>(h: &str) -> Option<V> {
    let b = unhex(h)?;
    if b.len() != S::N {
        return None;
    }
    Some(unsafe { V::unpack(S::from_bytes(&b)) })
}
fn save<S: Stor, V: Into<S>>(v: V) -> String {
    hex_nodash(&v.into().to_bytes())
}

/// element codecs: scalars (`Sc`) and 128-bit vectors (`Vc`)
trait Codec<W> {
    fn dec(h: &str) -> Option<W>;
    fn enc(w: W) -> String;
}
struct Sc;
struct Vc;
macro_rules! sc {
    ($t:ty, $n:expr) => {
        impl Codec<$t> for Sc {
            fn dec(h: &str) -> Option<$t> {
                let b = unhex(h)?;
                if b.len() != $n {
                    return None;
                }
                let mut a = [0u8; $n];
                a.copy_from_slice(&b);
                Some(<$t>::from_le_bytes(a))
            }
            fn enc(w: $t) -> String {
                hex_nodash(&w.to_le_bytes())
            }
        }
    };
}
sc!(u32, 4);
sc!(u64, 8);
sc!(u128, 16);
impl<W: Store<vec128_storage> + Into<vec128_storage>> Codec<W> for Vc {
    fn dec(h: &str) -> Option<W> {
        load::<vec128_storage, W>(h)
    }
    fn enc(w: W) -> String {
        save::<vec128_storage, W>(w)
    }
}

const BAD: &str = "bad-op";
fn g(r: Option<String>) -> String {
    r.unwrap_or_else(|| "panic".into())
}

// ------------------------------------------------------------------ operation groups
// each returns None when `op` is not in the group

fn bitops<S: Stor, V: BitOps0 + Store<S> + Into<S>>(op: &str, a: &[&str]) -> Option<String> {
    if !matches!(op, "xor" | "and" | "or" | "andnot" | "not") {
        return None;
    }
    Some(match (op, a) {
        ("not", [x]) => match load::<S, V>(x) {
            Some(x) => g(guard(|| save::<S, V>(!x))),
            None => BAD.into(),
        },
        ("xor" | "and" | "or" | "andnot", [x, y]) => match (load::<S, V>(x), load::<S, V>(y)) {
            (Some(x), Some(y)) => g(guard(|| {
                save::<S, V>(match op {
                    "xor" => x ^ y,
                    "and" => x & y,
                    "or" => x | y,
                    _ => x.andnot(y),
                })
            })),
            _ => BAD.into(),
        },
        _ => BAD.into(),
    })
}

fn add<S: Stor, V: core::ops::Add<Output = V> + Store<S> + Into<S>>(op: &str, a: &[&str]) -> Option<String> {
    if op != "add" {
        return None;
    }
    Some(match a {
        [x, y] => match (load::<S, V>(x), load::<S, V>(y)) {
            (Some(x), Some(y)) => g(guard(|| save::<S, V>(x + y))),
            _ => BAD.into(),
        },
        _ => BAD.into(),
    })
}

fn unary<S: Stor, V: Store<S> + Into<S>>(a: &[&str], f: impl FnOnce(V) -> V) -> String {
    match a {
        [x] => match load::<S, V>(x) {
            Some(x) => g(guard(|| save::<S, V>(f(x)))),
            None => BAD.into(),
        },
        _ => BAD.into(),
    }
}

fn rot32<S: Stor, V: RotateEachWord32 + Store<S> + Into<S>>(op: &str, a: &[&str]) -> Option<String> {
    Some(match op {
        "rotr7" => unary::<S, V>(a, |x| x.rotate_each_word_right7()),
        "rotr8" => unary::<S, V>(a, |x| x.rotate_each_word_right8()),
        "rotr11" => unary::<S, V>(a, |x| x.rotate_each_word_right11()),
        "rotr12" => unary::<S, V>(a, |x| x.rotate_each_word_right12()),
        "rotr16" => unary::<S, V>(a, |x| x.rotate_each_word_right16()),
        "rotr20" => unary::<S, V>(a, |x| x.rotate_each_word_right20()),
        "rotr24" => unary::<S, V>(a, |x| x.rotate_each_word_right24()),
        "rotr25" => unary::<S, V>(a, |x| x.rotate_each_word_right25()),
        _ => return None,
    })
}
fn rot64<S: Stor, V: RotateEachWord64 + Store<S> + Into<S>>(op: &str, a: &[&str]) -> Option<String> {
    Some(match op {
        "rotr32" => unary::<S, V>(a, |x| x.rotate_each_word_right32()),
        _ => return None,
    })
}
fn bswap<S: Stor, V: BSwap + Store<S> + Into<S>>(op: &str, a: &[&str]) -> Option<String> {
    Some(match op {
        "bswap" => unary::<S, V>(a, |x| x.bswap()),
        _ => return None,
    })
}
fn swap64<S: Stor, V: Swap64 + Store<S> + Into<S>>(op: &str, a: &[&str]) -> Option<String> {
    Some(match op {
        "swap1" => unary::<S, V>(a, |x| x.swap1()),
        "swap2" => unary::<S, V>(a, |x| x.swap2()),
        "swap4" => unary::<S, V>(a, |x| x.swap4()),
        "swap8" => unary::<S, V>(a, |x| x.swap8()),
        "swap16" => unary::<S, V>(a, |x| x.swap16()),
        "swap32" => unary::<S, V>(a, |x| x.swap32()),
        "swap64" => unary::<S, V>(a, |x| x.swap64()),
        _ => return None,
    })
}
fn words4<S: Stor, V: Words4 + Store<S> + Into<S>>(op: &str, a: &[&str]) -> Option<String> {
    Some(match op {
        "shuffle1230" => unary::<S, V>(a, |x| x.shuffle1230()),
        "shuffle2301" => unary::<S, V>(a, |x| x.shuffle2301()),
        "shuffle3012" => unary::<S, V>(a, |x| x.shuffle3012()),
        _ => return None,
    })
}
fn lanewords4<S: Stor, V: LaneWords4 + Store<S> + Into<S>>(op: &str, a: &[&str]) -> Option<String> {
    Some(match op {
        "shuffle_lane_words1230" => unary::<S, V>(a, |x| x.shuffle_lane_words1230()),
        "shuffle_lane_words2301" => unary::<S, V>(a, |x| x.shuffle_lane_words2301()),
        "shuffle_lane_words3012" => unary::<S, V>(a, |x| x.shuffle_lane_words3012()),
        _ => return None,
    })
}
fn storebytes<S: Stor, V: StoreBytes + Store<S> + Into<S>>(op: &str, a: &[&str]) -> Option<String> {
    if !matches!(op, "read_le" | "read_be" | "write_le" | "write_be") {
        return None;
    }
    Some(match (op, a) {
        ("read_le" | "read_be", [bs]) => match unhex(bs) {
            Some(bs) => g(guard(|| {
                save::<S, V>(unsafe {
                    if op == "read_le" {
                        V::unsafe_read_le(&bs)
                    } else {
                        V::unsafe_read_be(&bs)
                    }
                })
            })),
            None => BAD.into(),
        },
        ("write_le" | "write_be", [x]) => match load::<S, V>(x) {
            Some(x) => g(guard(|| {
                let mut out = vec![0u8; S::N];
                if op == "write_le" {
                    x.write_le(&mut out)
                } else {
                    x.write_be(&mut out)
                }
                hex_nodash(&out)
            })),
            None => BAD.into(),
        },
        _ => BAD.into(),
    })
}

macro_rules! vecn {
    ($name:ident, $Tr:ident) => {
        fn $name<S: Stor, V: $Tr<W> + Store<S> + Into<S>, W, C: Codec<W>>(op: &str, a: &[&str]) -> Option<String> {
            Some(match (op, a) {
                ("extract", [x, i]) => match (load::<S, V>(x), i.parse::<u32>()) {
                    (Some(x), Ok(i)) => g(guard(|| C::enc(<V as $Tr<W>>::extract(x, i)))),
                    _ => BAD.into(),
                },
                ("insert", [x, w, i]) => match (load::<S, V>(x), C::dec(w), i.parse::<u32>()) {
                    (Some(x), Some(w), Ok(i)) => g(guard(|| save::<S, V>(<V as $Tr<W>>::insert(x, w, i)))),
                    _ => BAD.into(),
                },
                ("extract" | "insert", _) => BAD.into(),
                _ => return None,
            })
        }
    };
}
vecn!(vec2, Vec2);
vecn!(vec4, Vec4);

macro_rules! lanesn {
    ($name:ident, $n:expr) => {
        fn $name<S: Stor, V: MultiLane<[W; $n]> + Store<S> + Into<S>, W, C: Codec<W>>(op: &str, a: &[&str]) -> Option<String> {
            Some(match op {
                "to_lanes" => match a {
                    [x] => match load::<S, V>(x) {
                        Some(x) => g(guard(|| {
                            let l: [W; $n] = x.to_lanes();
                            l.into_iter().map(|w| C::enc(w)).collect::<Vec<_>>().join(",")
                        })),
                        None => BAD.into(),
                    },
                    _ => BAD.into(),
                },
                "from_lanes" => {
                    if a.len() != $n {
                        return Some(BAD.into());
                    }
                    let ws: Option<Vec<W>> = a.iter().map(|h| C::dec(h)).collect();
                    match ws {
                        Some(ws) => {
                            let arr: [W; $n] = match ws.try_into() {
                                Ok(x) => x,
                                Err(_) => return Some(BAD.into()),
                            };
                            g(guard(|| save::<S, V>(V::from_lanes(arr))))
                        }
                        None => BAD.into(),
                    }
                }
                _ => return None,
            })
        }
    };
}
lanesn!(lanes1, 1);
lanesn!(lanes2, 2);
lanesn!(lanes4, 4);

fn transpose4<V: Vec4Ext<W> + Store<vec512_storage> + Into<vec512_storage>, W>(op: &str, a: &[&str]) -> Option<String> {
    if op != "transpose4" {
        return None;
    }
    type S = vec512_storage;
    Some(match a {
        [p, q, r, s] => match (load::<S, V>(p), load::<S, V>(q), load::<S, V>(r), load::<S, V>(s)) {
            (Some(p), Some(q), Some(r), Some(s)) => g(guard(|| {
                let (w, x, y, z) = V::transpose4(p, q, r, s);
                [save::<S, V>(w), save::<S, V>(x), save::<S, V>(y), save::<S, V>(z)].join(",")
            })),
            _ => BAD.into(),
        },
        _ => BAD.into(),
    })
}
fn to_scalars<V: Vector<[u32; 16]> + Store<vec512_storage> + Into<vec512_storage>>(op: &str, a: &[&str]) -> Option<String> {
    if op != "to_scalars" {
        return None;
    }
    Some(match a {
        [x] => match load::<vec512_storage, V>(x) {
            Some(x) => g(guard(|| {
                x.to_scalars().iter().map(|w| hex_nodash(&w.to_le_bytes())).collect::<Vec<_>>().join(",")
            })),
            None => BAD.into(),
        },
        _ => BAD.into(),
    })
}

// ------------------------------------------------------------------ per machine

type S1 = vec128_storage;
type S2 = vec256_storage;
type S4 = vec512_storage;

/// `$x86` / `$gen`: extra groups only one family provides (`StoreBytes` for the u128 types on
/// x86, `Add` for them on the generic backend).
macro_rules! machine {
    ($fname:ident, $M:ty, x86) => {
        machine!(@imp $fname, $M,
            |op, a| storebytes::<S1, <$M as Machine>::u128x1>(op, a),
            |op, a| storebytes::<S2, <$M as Machine>::u128x2>(op, a),
            |op, a| storebytes::<S4, <$M as Machine>::u128x4>(op, a));
    };
    ($fname:ident, $M:ty, generic) => {
        machine!(@imp $fname, $M,
            |op, a| add::<S1, <$M as Machine>::u128x1>(op, a),
            |op, a| add::<S2, <$M as Machine>::u128x2>(op, a),
            |op, a| add::<S4, <$M as Machine>::u128x4>(op, a));
    };
    (@imp $fname:ident, $M:ty, $e1:expr, $e2:expr, $e4:expr) => {
        fn $fname(ty: &str, op: &str, a: &[&str]) -> String {
            type M = $M;
            let _m: M = unsafe { <M as Machine>::instance() };
            type V32 = <M as Machine>::u32x4;
            type V64 = <M as Machine>::u64x2;
            type V128 = <M as Machine>::u128x1;
            let e1: fn(&str, &[&str]) -> Option<String> = $e1;
            let e2: fn(&str, &[&str]) -> Option<String> = $e2;
            let e4: fn(&str, &[&str]) -> Option<String> = $e4;
            let r: Option<String> = match ty {
                "u32x4" => {
                    type V = <M as Machine>::u32x4;
                    bitops::<S1, V>(op, a)
                        .or_else(|| rot32::<S1, V>(op, a))
                        .or_else(|| add::<S1, V>(op, a))
                        .or_else(|| bswap::<S1, V>(op, a))
                        .or_else(|| vec4::<S1, V, u32, Sc>(op, a))
                        .or_else(|| words4::<S1, V>(op, a))
                        .or_else(|| lanewords4::<S1, V>(op, a))
                        .or_else(|| storebytes::<S1, V>(op, a))
                        .or_else(|| lanes4::<S1, V, u32, Sc>(op, a))
                }
                "u64x2" => {
                    type V = <M as Machine>::u64x2;
                    bitops::<S1, V>(op, a)
                        .or_else(|| rot32::<S1, V>(op, a))
                        .or_else(|| rot64::<S1, V>(op, a))
                        .or_else(|| add::<S1, V>(op, a))
                        .or_else(|| bswap::<S1, V>(op, a))
                        .or_else(|| vec2::<S1, V, u64, Sc>(op, a))
                        .or_else(|| storebytes::<S1, V>(op, a))
                        .or_else(|| lanes2::<S1, V, u64, Sc>(op, a))
                }
                "u128x1" => {
                    type V = <M as Machine>::u128x1;
                    bitops::<S1, V>(op, a)
                        .or_else(|| rot32::<S1, V>(op, a))
                        .or_else(|| rot64::<S1, V>(op, a))
                        .or_else(|| swap64::<S1, V>(op, a))
                        .or_else(|| bswap::<S1, V>(op, a))
                        .or_else(|| lanes1::<S1, V, u128, Sc>(op, a))
                        .or_else(|| e1(op, a))
                }
                "u32x4x2" => {
                    type V = <M as Machine>::u32x4x2;
                    bitops::<S2, V>(op, a)
                        .or_else(|| rot32::<S2, V>(op, a))
                        .or_else(|| add::<S2, V>(op, a))
                        .or_else(|| bswap::<S2, V>(op, a))
                        .or_else(|| vec2::<S2, V, V32, Vc>(op, a))
                        .or_else(|| lanewords4::<S2, V>(op, a))
                        .or_else(|| storebytes::<S2, V>(op, a))
                        .or_else(|| lanes2::<S2, V, V32, Vc>(op, a))
                }
                "u64x2x2" => {
                    type V = <M as Machine>::u64x2x2;
                    bitops::<S2, V>(op, a)
                        .or_else(|| rot32::<S2, V>(op, a))
                        .or_else(|| rot64::<S2, V>(op, a))
                        .or_else(|| add::<S2, V>(op, a))
                        .or_else(|| bswap::<S2, V>(op, a))
                        .or_else(|| vec2::<S2, V, V64, Vc>(op, a))
                        .or_else(|| storebytes::<S2, V>(op, a))
                        .or_else(|| lanes2::<S2, V, V64, Vc>(op, a))
                }
                "u64x4" => {
                    type V = <M as Machine>::u64x4;
                    bitops::<S2, V>(op, a)
                        .or_else(|| rot32::<S2, V>(op, a))
                        .or_else(|| rot64::<S2, V>(op, a))
                        .or_else(|| add::<S2, V>(op, a))
                        .or_else(|| bswap::<S2, V>(op, a))
                        .or_else(|| vec4::<S2, V, u64, Sc>(op, a))
                        .or_else(|| words4::<S2, V>(op, a))
                        .or_else(|| storebytes::<S2, V>(op, a))
                        .or_else(|| lanes4::<S2, V, u64, Sc>(op, a))
                }
                "u128x2" => {
                    type V = <M as Machine>::u128x2;
                    bitops::<S2, V>(op, a)
                        .or_else(|| rot32::<S2, V>(op, a))
                        .or_else(|| rot64::<S2, V>(op, a))
                        .or_else(|| swap64::<S2, V>(op, a))
                        .or_else(|| bswap::<S2, V>(op, a))
                        .or_else(|| vec2::<S2, V, V128, Vc>(op, a))
                        .or_else(|| lanes2::<S2, V, V128, Vc>(op, a))
                        .or_else(|| e2(op, a))
                }
                "u32x4x4" => {
                    type V = <M as Machine>::u32x4x4;
                    bitops::<S4, V>(op, a)
                        .or_else(|| rot32::<S4, V>(op, a))
                        .or_else(|| add::<S4, V>(op, a))
                        .or_else(|| bswap::<S4, V>(op, a))
                        .or_else(|| vec4::<S4, V, V32, Vc>(op, a))
                        .or_else(|| transpose4::<V, V32>(op, a))
                        .or_else(|| to_scalars::<V>(op, a))
                        .or_else(|| lanewords4::<S4, V>(op, a))
                        .or_else(|| storebytes::<S4, V>(op, a))
                        .or_else(|| lanes4::<S4, V, V32, Vc>(op, a))
                }
                "u64x2x4" => {
                    type V = <M as Machine>::u64x2x4;
                    bitops::<S4, V>(op, a)
                        .or_else(|| rot32::<S4, V>(op, a))
                        .or_else(|| rot64::<S4, V>(op, a))
                        .or_else(|| add::<S4, V>(op, a))
                        .or_else(|| bswap::<S4, V>(op, a))
                        .or_else(|| vec4::<S4, V, V64, Vc>(op, a))
                        .or_else(|| storebytes::<S4, V>(op, a))
                        .or_else(|| lanes4::<S4, V, V64, Vc>(op, a))
                }
                "u128x4" => {
                    type V = <M as Machine>::u128x4;
                    bitops::<S4, V>(op, a)
                        .or_else(|| rot32::<S4, V>(op, a))
                        .or_else(|| rot64::<S4, V>(op, a))
                        .or_else(|| swap64::<S4, V>(op, a))
                        .or_else(|| bswap::<S4, V>(op, a))
                        .or_else(|| vec4::<S4, V, V128, Vc>(op, a))
                        .or_else(|| lanes4::<S4, V, V128, Vc>(op, a))
                        .or_else(|| e4(op, a))
                }
                _ => return BAD.into(),
            };
            r.unwrap_or_else(|| "unsupported".into())
        }
    };
}

#[cfg(not(feature = "no_simd"))]
mod mach {
    use super::*;
    use ppv_lite86::x86_64::{AVX, AVX2, SSE2, SSE41, SSSE3};
    machine!(run_sse2, SSE2, x86);
    machine!(run_ssse3, SSSE3, x86);
    machine!(run_sse41, SSE41, x86);
    machine!(run_avx, AVX, x86);
    machine!(run_avx2, AVX2, x86);
    pub fn run(backend: &str, ty: &str, op: &str, a: &[&str]) -> String {
        match backend {
            "sse2" => run_sse2(ty, op, a),
            "ssse3" => run_ssse3(ty, op, a),
            "sse41" => run_sse41(ty, op, a),
            "avx" => run_avx(ty, op, a),
            "avx2" => run_avx2(ty, op, a),
            "generic" => "unsupported".into(),
            _ => BAD.into(),
        }
    }
}
#[cfg(feature = "no_simd")]
mod mach {
    use super::*;
    use ppv_lite86::generic::GenericMachine;
    machine!(run_generic, GenericMachine, generic);
    pub fn run(backend: &str, ty: &str, op: &str, a: &[&str]) -> String {
        match backend {
            "generic" => run_generic(ty, op, a),
            "sse2" | "ssse3" | "sse41" | "avx" | "avx2" => "unsupported".into(),
            _ => BAD.into(),
        }
    }
}

/// ops the protocol knows (anything else is malformed)
fn known_op(op: &str) -> bool {
    matches!(
        op,
        "add" | "xor" | "and" | "or" | "andnot" | "not" | "rotr7" | "rotr8" | "rotr11" | "rotr12" | "rotr16"
            | "rotr20" | "rotr24" | "rotr25" | "rotr32" | "shuffle1230" | "shuffle2301" | "shuffle3012"
            | "shuffle_lane_words1230" | "shuffle_lane_words2301" | "shuffle_lane_words3012" | "swap1"
            | "swap2" | "swap4" | "swap8" | "swap16" | "swap32" | "swap64" | "bswap" | "extract" | "insert"
            | "to_lanes" | "from_lanes" | "read_le" | "read_be" | "write_le" | "write_be" | "transpose4"
            | "to_scalars"
    )
}

// ------------------------------------------------------------------ intrinsics

mod intr {
    use super::*;
    use core::arch::x86_64::*;

    fn v(h: &str) -> Option<__m128i> {
        let b = unhex(h)?;
        if b.len() != 16 {
            return None;
        }
        Some(unsafe { _mm_loadu_si128(b.as_ptr() as *const _) })
    }
    fn w(h: &str) -> Option<__m256i> {
        let b = unhex(h)?;
        if b.len() != 32 {
            return None;
        }
        Some(unsafe { _mm256_loadu_si256(b.as_ptr() as *const _) })
    }
    fn q(h: &str) -> Option<i64> {
        <Sc as Codec<u64>>::dec(h).map(|x| x as i64)
    }
    fn d(h: &str) -> Option<i32> {
        <Sc as Codec<u32>>::dec(h).map(|x| x as i32)
    }
    fn b(h: &str) -> Option<i8> {
        let x = unhex(h)?;
        if x.len() != 1 {
            return None;
        }
        Some(x[0] as i8)
    }
    fn hv(x: __m128i) -> String {
        let mut o = [0u8; 16];
        unsafe { _mm_storeu_si128(o.as_mut_ptr() as *mut _, x) };
        hex_nodash(&o)
    }
    fn hw(x: __m256i) -> String {
        let mut o = [0u8; 32];
        unsafe { _mm256_storeu_si256(o.as_mut_ptr() as *mut _, x) };
        hex_nodash(&o)
    }
    fn imm(s: &str) -> Option<i32> {
        s.parse::<i32>().ok()
    }

    // ---- generated: 256-way immediate dispatch (every 8-bit immediate is reachable) ----
    macro_rules! imm8 {
        ($imm:expr, $f:ident, $($a:expr),*) => {
            match $imm {
                0 => $f::<0>($($a),*),
                1 => $f::<1>($($a),*),
                2 => $f::<2>($($a),*),
                3 => $f::<3>($($a),*),
                4 => $f::<4>($($a),*),
                5 => $f::<5>($($a),*),
                6 => $f::<6>($($a),*),
                7 => $f::<7>($($a),*),
                8 => $f::<8>($($a),*),
                9 => $f::<9>($($a),*),
                10 => $f::<10>($($a),*),
                11 => $f::<11>($($a),*),
                12 => $f::<12>($($a),*),
                13 => $f::<13>($($a),*),
                14 => $f::<14>($($a),*),
                15 => $f::<15>($($a),*),
                16 => $f::<16>($($a),*),
                17 => $f::<17>($($a),*),
                18 => $f::<18>($($a),*),
                19 => $f::<19>($($a),*),
                20 => $f::<20>($($a),*),
                21 => $f::<21>($($a),*),
                22 => $f::<22>($($a),*),
                23 => $f::<23>($($a),*),
                24 => $f::<24>($($a),*),
                25 => $f::<25>($($a),*),
                26 => $f::<26>($($a),*),
                27 => $f::<27>($($a),*),
                28 => $f::<28>($($a),*),
                29 => $f::<29>($($a),*),
                30 => $f::<30>($($a),*),
                31 => $f::<31>($($a),*),
                32 => $f::<32>($($a),*),
                33 => $f::<33>($($a),*),
                34 => $f::<34>($($a),*),
                35 => $f::<35>($($a),*),
                36 => $f::<36>($($a),*),
                37 => $f::<37>($($a),*),
                38 => $f::<38>($($a),*),
                39 => $f::<39>($($a),*),
                40 => $f::<40>($($a),*),
                41 => $f::<41>($($a),*),
                42 => $f::<42>($($a),*),
                43 => $f::<43>($($a),*),
                44 => $f::<44>($($a),*),
                45 => $f::<45>($($a),*),
                46 => $f::<46>($($a),*),
                47 => $f::<47>($($a),*),
                48 => $f::<48>($($a),*),
                49 => $f::<49>($($a),*),
                50 => $f::<50>($($a),*),
                51 => $f::<51>($($a),*),
                52 => $f::<52>($($a),*),
                53 => $f::<53>($($a),*),
                54 => $f::<54>($($a),*),
                55 => $f::<55>($($a),*),
                56 => $f::<56>($($a),*),
                57 => $f::<57>($($a),*),
                58 => $f::<58>($($a),*),
                59 => $f::<59>($($a),*),
                60 => $f::<60>($($a),*),
                61 => $f::<61>($($a),*),
                62 => $f::<62>($($a),*),
                63 => $f::<63>($($a),*),
                64 => $f::<64>($($a),*),
                65 => $f::<65>($($a),*),
                66 => $f::<66>($($a),*),
                67 => $f::<67>($($a),*),
                68 => $f::<68>($($a),*),
                69 => $f::<69>($($a),*),
                70 => $f::<70>($($a),*),
                71 => $f::<71>($($a),*),
                72 => $f::<72>($($a),*),
                73 => $f::<73>($($a),*),
                74 => $f::<74>($($a),*),
                75 => $f::<75>($($a),*),
                76 => $f::<76>($($a),*),
                77 => $f::<77>($($a),*),
                78 => $f::<78>($($a),*),
                79 => $f::<79>($($a),*),
                80 => $f::<80>($($a),*),
                81 => $f::<81>($($a),*),
                82 => $f::<82>($($a),*),
                83 => $f::<83>($($a),*),
                84 => $f::<84>($($a),*),
                85 => $f::<85>($($a),*),
                86 => $f::<86>($($a),*),
                87 => $f::<87>($($a),*),
                88 => $f::<88>($($a),*),
                89 => $f::<89>($($a),*),
                90 => $f::<90>($($a),*),
                91 => $f::<91>($($a),*),
                92 => $f::<92>($($a),*),
                93 => $f::<93>($($a),*),
                94 => $f::<94>($($a),*),
                95 => $f::<95>($($a),*),
                96 => $f::<96>($($a),*),
                97 => $f::<97>($($a),*),
                98 => $f::<98>($($a),*),
                99 => $f::<99>($($a),*),
                100 => $f::<100>($($a),*),
                101 => $f::<101>($($a),*),
                102 => $f::<102>($($a),*),
                103 => $f::<103>($($a),*),
                104 => $f::<104>($($a),*),
                105 => $f::<105>($($a),*),
                106 => $f::<106>($($a),*),
                107 => $f::<107>($($a),*),
                108 => $f::<108>($($a),*),
                109 => $f::<109>($($a),*),
                110 => $f::<110>($($a),*),
                111 => $f::<111>($($a),*),
                112 => $f::<112>($($a),*),
                113 => $f::<113>($($a),*),
                114 => $f::<114>($($a),*),
                115 => $f::<115>($($a),*),
                116 => $f::<116>($($a),*),
                117 => $f::<117>($($a),*),
                118 => $f::<118>($($a),*),
                119 => $f::<119>($($a),*),
                120 => $f::<120>($($a),*),
                121 => $f::<121>($($a),*),
                122 => $f::<122>($($a),*),
                123 => $f::<123>($($a),*),
                124 => $f::<124>($($a),*),
                125 => $f::<125>($($a),*),
                126 => $f::<126>($($a),*),
                127 => $f::<127>($($a),*),
                128 => $f::<128>($($a),*),
                129 => $f::<129>($($a),*),
                130 => $f::<130>($($a),*),
                131 => $f::<131>($($a),*),
                132 => $f::<132>($($a),*),
                133 => $f::<133>($($a),*),
                134 => $f::<134>($($a),*),
                135 => $f::<135>($($a),*),
                136 => $f::<136>($($a),*),
                137 => $f::<137>($($a),*),
                138 => $f::<138>($($a),*),
                139 => $f::<139>($($a),*),
                140 => $f::<140>($($a),*),
                141 => $f::<141>($($a),*),
                142 => $f::<142>($($a),*),
                143 => $f::<143>($($a),*),
                144 => $f::<144>($($a),*),
                145 => $f::<145>($($a),*),
                146 => $f::<146>($($a),*),
                147 => $f::<147>($($a),*),
                148 => $f::<148>($($a),*),
                149 => $f::<149>($($a),*),
                150 => $f::<150>($($a),*),
                151 => $f::<151>($($a),*),
                152 => $f::<152>($($a),*),
                153 => $f::<153>($($a),*),
                154 => $f::<154>($($a),*),
                155 => $f::<155>($($a),*),
                156 => $f::<156>($($a),*),
                157 => $f::<157>($($a),*),
                158 => $f::<158>($($a),*),
                159 => $f::<159>($($a),*),
                160 => $f::<160>($($a),*),
                161 => $f::<161>($($a),*),
                162 => $f::<162>($($a),*),
                163 => $f::<163>($($a),*),
                164 => $f::<164>($($a),*),
                165 => $f::<165>($($a),*),
                166 => $f::<166>($($a),*),
                167 => $f::<167>($($a),*),
                168 => $f::<168>($($a),*),
                169 => $f::<169>($($a),*),
                170 => $f::<170>($($a),*),
                171 => $f::<171>($($a),*),
                172 => $f::<172>($($a),*),
                173 => $f::<173>($($a),*),
                174 => $f::<174>($($a),*),
                175 => $f::<175>($($a),*),
                176 => $f::<176>($($a),*),
                177 => $f::<177>($($a),*),
                178 => $f::<178>($($a),*),
                179 => $f::<179>($($a),*),
                180 => $f::<180>($($a),*),
                181 => $f::<181>($($a),*),
                182 => $f::<182>($($a),*),
                183 => $f::<183>($($a),*),
                184 => $f::<184>($($a),*),
                185 => $f::<185>($($a),*),
                186 => $f::<186>($($a),*),
                187 => $f::<187>($($a),*),
                188 => $f::<188>($($a),*),
                189 => $f::<189>($($a),*),
                190 => $f::<190>($($a),*),
                191 => $f::<191>($($a),*),
                192 => $f::<192>($($a),*),
                193 => $f::<193>($($a),*),
                194 => $f::<194>($($a),*),
                195 => $f::<195>($($a),*),
                196 => $f::<196>($($a),*),
                197 => $f::<197>($($a),*),
                198 => $f::<198>($($a),*),
                199 => $f::<199>($($a),*),
                200 => $f::<200>($($a),*),
                201 => $f::<201>($($a),*),
                202 => $f::<202>($($a),*),
                203 => $f::<203>($($a),*),
                204 => $f::<204>($($a),*),
                205 => $f::<205>($($a),*),
                206 => $f::<206>($($a),*),
                207 => $f::<207>($($a),*),
                208 => $f::<208>($($a),*),
                209 => $f::<209>($($a),*),
                210 => $f::<210>($($a),*),
                211 => $f::<211>($($a),*),
                212 => $f::<212>($($a),*),
                213 => $f::<213>($($a),*),
                214 => $f::<214>($($a),*),
                215 => $f::<215>($($a),*),
                216 => $f::<216>($($a),*),
                217 => $f::<217>($($a),*),
                218 => $f::<218>($($a),*),
                219 => $f::<219>($($a),*),
                220 => $f::<220>($($a),*),
                221 => $f::<221>($($a),*),
                222 => $f::<222>($($a),*),
                223 => $f::<223>($($a),*),
                224 => $f::<224>($($a),*),
                225 => $f::<225>($($a),*),
                226 => $f::<226>($($a),*),
                227 => $f::<227>($($a),*),
                228 => $f::<228>($($a),*),
                229 => $f::<229>($($a),*),
                230 => $f::<230>($($a),*),
                231 => $f::<231>($($a),*),
                232 => $f::<232>($($a),*),
                233 => $f::<233>($($a),*),
                234 => $f::<234>($($a),*),
                235 => $f::<235>($($a),*),
                236 => $f::<236>($($a),*),
                237 => $f::<237>($($a),*),
                238 => $f::<238>($($a),*),
                239 => $f::<239>($($a),*),
                240 => $f::<240>($($a),*),
                241 => $f::<241>($($a),*),
                242 => $f::<242>($($a),*),
                243 => $f::<243>($($a),*),
                244 => $f::<244>($($a),*),
                245 => $f::<245>($($a),*),
                246 => $f::<246>($($a),*),
                247 => $f::<247>($($a),*),
                248 => $f::<248>($($a),*),
                249 => $f::<249>($($a),*),
                250 => $f::<250>($($a),*),
                251 => $f::<251>($($a),*),
                252 => $f::<252>($($a),*),
                253 => $f::<253>($($a),*),
                254 => $f::<254>($($a),*),
                255 => $f::<255>($($a),*),
                _ => return "bad-op".into(),
            }
        };
    }


    macro_rules! imm1 {
        ($imm:expr, $f:ident, $($a:expr),*) => {
            match $imm { 0 => $f::<0>($($a),*), 1 => $f::<1>($($a),*), _ => return "bad-op".into() }
        };
    }
    macro_rules! imm2 {
        ($imm:expr, $f:ident, $($a:expr),*) => {
            match $imm { 0 => $f::<0>($($a),*), 1 => $f::<1>($($a),*), 2 => $f::<2>($($a),*), 3 => $f::<3>($($a),*), _ => return "bad-op".into() }
        };
    }
    macro_rules! vv {
        ($a:expr, $f:ident) => {
            match $a {
                [x, y] => match (v(x), v(y)) {
                    (Some(x), Some(y)) => hv(unsafe { $f(x, y) }),
                    _ => BAD.into(),
                },
                _ => BAD.into(),
            }
        };
    }
    macro_rules! ww {
        ($a:expr, $f:ident) => {
            match $a {
                [x, y] => match (w(x), w(y)) {
                    (Some(x), Some(y)) => hw(unsafe { $f(x, y) }),
                    _ => BAD.into(),
                },
                _ => BAD.into(),
            }
        };
    }
    macro_rules! vi {
        ($a:expr, $f:ident) => {
            match $a {
                [x, i] => match (v(x), imm(i)) {
                    (Some(x), Some(i)) => hv(unsafe { imm8!(i, $f, x) }),
                    _ => BAD.into(),
                },
                _ => BAD.into(),
            }
        };
    }
    macro_rules! wi {
        ($a:expr, $f:ident) => {
            match $a {
                [x, i] => match (w(x), imm(i)) {
                    (Some(x), Some(i)) => hw(unsafe { imm8!(i, $f, x) }),
                    _ => BAD.into(),
                },
                _ => BAD.into(),
            }
        };
    }

    pub fn run(name: &str, a: &[&str]) -> String {
        match name {
            "_mm_add_epi32" => vv!(a, _mm_add_epi32),
            "_mm_add_epi64" => vv!(a, _mm_add_epi64),
            "_mm_and_si128" => vv!(a, _mm_and_si128),
            "_mm_or_si128" => vv!(a, _mm_or_si128),
            "_mm_xor_si128" => vv!(a, _mm_xor_si128),
            "_mm_andnot_si128" => vv!(a, _mm_andnot_si128),
            "_mm_shuffle_epi8" => vv!(a, _mm_shuffle_epi8),
            "_mm_cmpeq_epi8" => vv!(a, _mm_cmpeq_epi8),
            "_mm_cmpeq_epi16" => vv!(a, _mm_cmpeq_epi16),
            "_mm_cmpeq_epi32" => vv!(a, _mm_cmpeq_epi32),
            "_mm_cmpeq_epi64" => vv!(a, _mm_cmpeq_epi64),
            "_mm_movemask_epi8" => match a {
                [x] => match v(x) {
                    Some(x) => hex_nodash(&unsafe { _mm_movemask_epi8(x) }.to_le_bytes()),
                    None => BAD.into(),
                },
                _ => BAD.into(),
            },
            "_mm_unpacklo_epi8" => vv!(a, _mm_unpacklo_epi8),
            "_mm_unpackhi_epi8" => vv!(a, _mm_unpackhi_epi8),
            "_mm_packus_epi16" => vv!(a, _mm_packus_epi16),
            "_mm_srli_epi16" => vi!(a, _mm_srli_epi16),
            "_mm_slli_epi16" => vi!(a, _mm_slli_epi16),
            "_mm_srli_epi32" => vi!(a, _mm_srli_epi32),
            "_mm_slli_epi32" => vi!(a, _mm_slli_epi32),
            "_mm_srli_epi64" => vi!(a, _mm_srli_epi64),
            "_mm_slli_epi64" => vi!(a, _mm_slli_epi64),
            "_mm_srli_si128" => vi!(a, _mm_srli_si128),
            "_mm_slli_si128" => vi!(a, _mm_slli_si128),
            "_mm_shuffle_epi32" => vi!(a, _mm_shuffle_epi32),
            "_mm_shufflelo_epi16" => vi!(a, _mm_shufflelo_epi16),
            "_mm_shufflehi_epi16" => vi!(a, _mm_shufflehi_epi16),
            "_mm_alignr_epi8" => match a {
                [x, y, i] => match (v(x), v(y), imm(i)) {
                    (Some(x), Some(y), Some(i)) => hv(unsafe { imm8!(i, _mm_alignr_epi8, x, y) }),
                    _ => BAD.into(),
                },
                _ => BAD.into(),
            },
            "_mm_set_epi64x" => match a {
                [x, y] => match (q(x), q(y)) {
                    (Some(x), Some(y)) => hv(unsafe { _mm_set_epi64x(x, y) }),
                    _ => BAD.into(),
                },
                _ => BAD.into(),
            },
            "_mm_set_epi32" => match a {
                [e3, e2, e1, e0] => match (d(e3), d(e2), d(e1), d(e0)) {
                    (Some(e3), Some(e2), Some(e1), Some(e0)) => hv(unsafe { _mm_set_epi32(e3, e2, e1, e0) }),
                    _ => BAD.into(),
                },
                _ => BAD.into(),
            },
            "_mm_set1_epi8" => match a {
                [x] => match b(x) {
                    Some(x) => hv(unsafe { _mm_set1_epi8(x) }),
                    None => BAD.into(),
                },
                _ => BAD.into(),
            },
            "_mm_set1_epi64x" => match a {
                [x] => match q(x) {
                    Some(x) => hv(unsafe { _mm_set1_epi64x(x) }),
                    None => BAD.into(),
                },
                _ => BAD.into(),
            },
            "_mm_setzero_si128" => hv(unsafe { _mm_setzero_si128() }),
            "_mm_cvtsi64_si128" => match a {
                [x] => match q(x) {
                    Some(x) => hv(unsafe { _mm_cvtsi64_si128(x) }),
                    None => BAD.into(),
                },
                _ => BAD.into(),
            },
            "_mm_cvtsi128_si64" => match a {
                [x] => match v(x) {
                    Some(x) => hex_nodash(&unsafe { _mm_cvtsi128_si64(x) }.to_le_bytes()),
                    None => BAD.into(),
                },
                _ => BAD.into(),
            },
            "_mm_cvtsi32_si128" => match a {
                [x] => match d(x) {
                    Some(x) => hv(unsafe { _mm_cvtsi32_si128(x) }),
                    None => BAD.into(),
                },
                _ => BAD.into(),
            },
            "_mm_extract_epi64" => match a {
                [x, i] => match (v(x), imm(i)) {
                    (Some(x), Some(i)) => hex_nodash(&unsafe { imm1!(i, _mm_extract_epi64, x) }.to_le_bytes()),
                    _ => BAD.into(),
                },
                _ => BAD.into(),
            },
            "_mm_insert_epi64" => match a {
                [x, y, i] => match (v(x), q(y), imm(i)) {
                    (Some(x), Some(y), Some(i)) => hv(unsafe { imm1!(i, _mm_insert_epi64, x, y) }),
                    _ => BAD.into(),
                },
                _ => BAD.into(),
            },
            "_mm_insert_epi32" => match a {
                [x, y, i] => match (v(x), d(y), imm(i)) {
                    (Some(x), Some(y), Some(i)) => hv(unsafe { imm2!(i, _mm_insert_epi32, x, y) }),
                    _ => BAD.into(),
                },
                _ => BAD.into(),
            },
            "_mm_move_epi64" => match a {
                [x] => match v(x) {
                    Some(x) => hv(unsafe { _mm_move_epi64(x) }),
                    None => BAD.into(),
                },
                _ => BAD.into(),
            },
            "_mm_loadu_si128" => match a {
                [x] => match v(x) {
                    Some(x) => hv(x),
                    None => BAD.into(),
                },
                _ => BAD.into(),
            },
            "_mm_storeu_si128" => match a {
                [x] => match v(x) {
                    Some(x) => hv(x),
                    None => BAD.into(),
                },
                _ => BAD.into(),
            },
            "_mm256_add_epi32" => ww!(a, _mm256_add_epi32),
            "_mm256_and_si256" => ww!(a, _mm256_and_si256),
            "_mm256_or_si256" => ww!(a, _mm256_or_si256),
            "_mm256_xor_si256" => ww!(a, _mm256_xor_si256),
            "_mm256_andnot_si256" => ww!(a, _mm256_andnot_si256),
            "_mm256_shuffle_epi8" => ww!(a, _mm256_shuffle_epi8),
            "_mm256_srli_epi32" => wi!(a, _mm256_srli_epi32),
            "_mm256_slli_epi32" => wi!(a, _mm256_slli_epi32),
            "_mm256_shuffle_epi32" => wi!(a, _mm256_shuffle_epi32),
            "_mm256_permute2x128_si256" => match a {
                [x, y, i] => match (w(x), w(y), imm(i)) {
                    (Some(x), Some(y), Some(i)) => hw(unsafe { imm8!(i, _mm256_permute2x128_si256, x, y) }),
                    _ => BAD.into(),
                },
                _ => BAD.into(),
            },
            "_mm256_extracti128_si256" => match a {
                [x, i] => match (w(x), imm(i)) {
                    (Some(x), Some(i)) => hv(unsafe { imm1!(i, _mm256_extracti128_si256, x) }),
                    _ => BAD.into(),
                },
                _ => BAD.into(),
            },
            "_mm256_inserti128_si256" => match a {
                [x, y, i] => match (w(x), v(y), imm(i)) {
                    (Some(x), Some(y), Some(i)) => hw(unsafe { imm1!(i, _mm256_inserti128_si256, x, y) }),
                    _ => BAD.into(),
                },
                _ => BAD.into(),
            },
            "_mm256_setr_m128i" => match a {
                [x, y] => match (v(x), v(y)) {
                    (Some(x), Some(y)) => hw(unsafe { _mm256_setr_m128i(x, y) }),
                    _ => BAD.into(),
                },
                _ => BAD.into(),
            },
            "_mm256_set1_epi8" => match a {
                [x] => match b(x) {
                    Some(x) => hw(unsafe { _mm256_set1_epi8(x) }),
                    None => BAD.into(),
                },
                _ => BAD.into(),
            },
            "_mm256_set_epi64x" => match a {
                [e3, e2, e1, e0] => match (q(e3), q(e2), q(e1), q(e0)) {
                    (Some(e3), Some(e2), Some(e1), Some(e0)) => hw(unsafe { _mm256_set_epi64x(e3, e2, e1, e0) }),
                    _ => BAD.into(),
                },
                _ => BAD.into(),
            },
            "_mm256_loadu_si256" => match a {
                [x] => match w(x) {
                    Some(x) => hw(x),
                    None => BAD.into(),
                },
                _ => BAD.into(),
            },
            "_mm256_storeu_si256" => match a {
                [x] => match w(x) {
                    Some(x) => hw(x),
                    None => BAD.into(),
                },
                _ => BAD.into(),
            },
            _ => BAD.into(),
        }
    }
}

// ------------------------------------------------------------------ `==` (PartialEq) of the vector / storage types

/// `simd <backend> <type> eq <a> <b>`: `a == b` on the Rust type the machine uses for `<type>` (or on
/// `vec128_storage` / `vec256_storage` / `vec512_storage`); `unsupported` where that type has no `PartialEq`
/// (mirrors `CC.Simd.veq`; a type that gains or loses a `PartialEq` changes `CC.Gen.SimdEqSrc`).
mod veq {
    use super::*;

    fn cmp<S: Stor, V: PartialEq + Store<S>>(a: &[&str]) -> String {
        match a {
            [x, y] => match (load::<S, V>(x), load::<S, V>(y)) {
                (Some(x), Some(y)) => match guard(|| x == y) {
                    Some(r) => format!("{}", r),
                    None => "panic".into(),
                },
                _ => BAD.into(),
            },
            _ => BAD.into(),
        }
    }
    fn st<S: Stor + PartialEq>(a: &[&str]) -> String {
        match a {
            [x, y] => match (unhex(x), unhex(y)) {
                (Some(x), Some(y)) if x.len() == S::N && y.len() == S::N => {
                    let (x, y) = (S::from_bytes(&x), S::from_bytes(&y));
                    match guard(|| x == y) {
                        Some(r) => format!("{}", r),
                        None => "panic".into(),
                    }
                }
                _ => BAD.into(),
            },
            _ => BAD.into(),
        }
    }
    fn storage(ty: &str, a: &[&str]) -> String {
        match ty {
            "vec128_storage" => st::<S1>(a),
            "vec256_storage" => st::<S2>(a),
            "vec512_storage" => st::<S4>(a),
            _ => BAD.into(),
        }
    }

    #[cfg(not(feature = "no_simd"))]
    pub fn run(backend: &str, ty: &str, a: &[&str]) -> String {
        use ppv_lite86::x86_64::{AVX, AVX2, SSE2, SSE41, SSSE3};
        macro_rules! m {
            ($M:ty, $x2:expr) => {
                match ty {
                    "u32x4" => cmp::<S1, <$M as Machine>::u32x4>(a),
                    "u64x2" => cmp::<S1, <$M as Machine>::u64x2>(a),
                    "u64x2x2" => cmp::<S2, <$M as Machine>::u64x2x2>(a),
                    "u64x4" => cmp::<S2, <$M as Machine>::u64x4>(a),
                    "u32x4x2" => $x2,
                    "u128x1" | "u128x2" | "u32x4x4" | "u64x2x4" | "u128x4" => "unsupported".into(),
                    _ => storage(ty, a),
                }
            };
        }
        match backend {
            "sse2" => m!(SSE2, cmp::<S2, <SSE2 as Machine>::u32x4x2>(a)),
            "ssse3" => m!(SSSE3, cmp::<S2, <SSSE3 as Machine>::u32x4x2>(a)),
            "sse41" => m!(SSE41, cmp::<S2, <SSE41 as Machine>::u32x4x2>(a)),
            "avx" => m!(AVX, cmp::<S2, <AVX as Machine>::u32x4x2>(a)),
            "avx2" => m!(AVX2, "unsupported".into()),
            "generic" => "unsupported".into(),
            _ => BAD.into(),
        }
    }
    #[cfg(feature = "no_simd")]
    pub fn run(backend: &str, ty: &str, a: &[&str]) -> String {
        use ppv_lite86::generic::GenericMachine as G;
        match backend {
            "generic" => match ty {
                "u32x4" => cmp::<S1, <G as Machine>::u32x4>(a),
                "u64x2" => cmp::<S1, <G as Machine>::u64x2>(a),
                "u128x1" => cmp::<S1, <G as Machine>::u128x1>(a),
                "u32x4x2" | "u64x2x2" | "u64x4" | "u128x2" | "u32x4x4" | "u64x2x4" | "u128x4" => "unsupported".into(),
                _ => storage(ty, a),
            },
            "sse2" | "ssse3" | "sse41" | "avx" | "avx2" => "unsupported".into(),
            _ => BAD.into(),
        }
    }
}

pub fn step(toks: &[&str]) -> String {
    match toks {
        ["simd", backend, ty, "eq", args @ ..] => veq::run(backend, ty, args),
        ["simd", backend, ty, op, args @ ..] => {
            if !known_op(op) {
                return BAD.into();
            }
            mach::run(backend, ty, op, args)
        }
        ["intrin", name, args @ ..] => match guard(|| intr::run(name, args)) {
            Some(s) => s,
            None => "panic".into(),
        },
        _ => BAD.into(),
    }
}
