use std::panic::{catch_unwind, AssertUnwindSafe};

pub fn unhex(s: &str) -> Option<Vec<u8>> {
    if s == "-" {
        return Some(vec![]);
    }
    if s.len() % 2 != 0 {
        return None;
    }
    let b = s.as_bytes();
    let mut v = Vec::with_capacity(b.len() / 2);
    for i in (0..b.len()).step_by(2) {
        let h = (b[i] as char).to_digit(16)?;
        let l = (b[i + 1] as char).to_digit(16)?;
        v.push((h * 16 + l) as u8);
    }
    Some(v)
}

pub fn hex(b: &[u8]) -> String {
    if b.is_empty() {
        return "-".into();
    }
    let mut s = String::with_capacity(b.len() * 2);
    for x in b {
        s.push_str(&format!("{:02x}", x));
    }
    s
}

pub fn hex_nodash(b: &[u8]) -> String {
    let mut s = String::with_capacity(b.len() * 2);
    for x in b {
        s.push_str(&format!("{:02x}", x));
    }
    s
}

/// Deterministic test pattern shared with the Lean driver (`CC.patByte`).
pub fn pat_byte(seed: u64, i: u64) -> u8 {
    let x = (seed
        .wrapping_mul(2654435761)
        .wrapping_add(i.wrapping_mul(2246822519))
        .wrapping_add(374761393))
        & 0xffff_ffff;
    let y = (x ^ (x >> 15)) & 0xffff_ffff;
    let z = y.wrapping_mul(2246822519) & 0xffff_ffff;
    ((z ^ (z >> 13)) & 0xff) as u8
}

/// Period of the byte stream of the huge-message ops (`bigupd`, `stream`): a PRIME just below 2^20, so that the data
/// does not repeat with a period dividing 2^32 (or any power of two) — code whose offsets wrap modulo 2^32 would read
/// identical bytes from a 1 MiB-periodic message and stay invisible (seeded change R6-C06).
pub const BIG_PERIOD: usize = (1 << 20) - 3;

pub fn pat_bytes(seed: u64, n: usize) -> Vec<u8> {
    (0..n as u64).map(|i| pat_byte(seed, i)).collect()
}

/// Run `f`, mapping a panic to `None`.
pub fn guard<T>(f: impl FnOnce() -> T) -> Option<T> {
    catch_unwind(AssertUnwindSafe(f)).ok()
}
