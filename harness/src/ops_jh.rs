//! `jh …` operations on the real `jh-x86_64` crate: the four hashers through the digest 0.9
//! traits, the verification hooks, and the compression function `f8_impl::<M>` per backend.
use crate::util::*;
use digest::generic_array::GenericArray;
use digest::{Digest, FixedOutputDirty, Reset, Update};
use jh_x86_64::compressor::Compressor;
use jh_x86_64::simd::vec128_storage;
use jh_x86_64::{Jh224, Jh256, Jh384, Jh512};
use std::collections::HashMap;

#[derive(Clone)]
pub enum Any {
    J224(Jh224),
    J256(Jh256),
    J384(Jh384),
    J512(Jh512),
}

macro_rules! with {
    ($any:expr, $h:ident, $e:expr) => {
        match $any {
            Any::J224($h) => $e,
            Any::J256($h) => $e,
            Any::J384($h) => $e,
            Any::J512($h) => $e,
        }
    };
}

#[derive(Default)]
pub struct St {
    pub hashers: HashMap<u64, Any>,
}

fn new_hasher(n: u64) -> Option<Any> {
    Some(match n {
        224 => Any::J224(Jh224::default()),
        256 => Any::J256(Jh256::default()),
        384 => Any::J384(Jh384::default()),
        512 => Any::J512(Jh512::default()),
        _ => return None,
    })
}

fn update(any: &mut Any, data: &[u8]) -> String {
    match guard(|| with!(any, h, Update::update(h, data))) {
        Some(()) => "ok".into(),
        None => "panic".into(),
    }
}

fn to_storage(bytes: &[u8]) -> [vec128_storage; 8] {
    let mut out = [vec128_storage::default(); 8];
    for i in 0..8 {
        let mut w = [0u32; 4];
        for j in 0..4 {
            let o = 16 * i + 4 * j;
            w[j] = u32::from_le_bytes([bytes[o], bytes[o + 1], bytes[o + 2], bytes[o + 3]]);
        }
        out[i] = vec128_storage::from(w);
    }
    out
}

fn from_storage(st: &[vec128_storage; 8]) -> Vec<u8> {
    let mut out = Vec::with_capacity(128);
    for v in st.iter() {
        let w: [u32; 4] = (*v).into();
        for x in w.iter() {
            out.extend_from_slice(&x.to_le_bytes());
        }
    }
    out
}

/// `Compressor::new(state).input(block).finalize()` — the dispatching path (`dispatch!`).
fn f8_dispatch(state: &[u8], block: &[u8]) -> Vec<u8> {
    let mut s = [0u8; 128];
    s.copy_from_slice(state);
    let mut c = Compressor::new(s);
    c.input(GenericArray::from_slice(block));
    c.finalize().to_vec()
}

#[cfg(all(not(feature = "no_simd"), not(feature = "api_only")))]
mod direct {
    use super::*;
    use jh_x86_64::compressor::f8_impl;
    use jh_x86_64::simd::x86_64::{AVX, AVX2, SSE2, SSE41, SSSE3};
    use jh_x86_64::simd::Machine;

    #[target_feature(enable = "sse2")]
    unsafe fn go_sse2(st: &mut [vec128_storage; 8], p: *const u8) {
        f8_impl(SSE2::instance(), st, p)
    }
    #[target_feature(enable = "ssse3")]
    unsafe fn go_ssse3(st: &mut [vec128_storage; 8], p: *const u8) {
        f8_impl(SSSE3::instance(), st, p)
    }
    #[target_feature(enable = "sse4.1")]
    #[target_feature(enable = "ssse3")]
    unsafe fn go_sse41(st: &mut [vec128_storage; 8], p: *const u8) {
        f8_impl(SSE41::instance(), st, p)
    }
    #[target_feature(enable = "avx")]
    #[target_feature(enable = "sse4.1")]
    #[target_feature(enable = "ssse3")]
    unsafe fn go_avx(st: &mut [vec128_storage; 8], p: *const u8) {
        f8_impl(AVX::instance(), st, p)
    }
    #[target_feature(enable = "avx2")]
    unsafe fn go_avx2(st: &mut [vec128_storage; 8], p: *const u8) {
        f8_impl(AVX2::instance(), st, p)
    }

    /// `f8_impl::<M>` with `M` named by the current backend; `None` = use the dispatching path.
    pub fn f8_backend(backend: &str, state: &[u8], block: &[u8]) -> Option<Vec<u8>> {
        let mut st = to_storage(state);
        let p = block.as_ptr();
        unsafe {
            match backend {
                "sse2" if is_x86_feature_detected!("sse2") => go_sse2(&mut st, p),
                "ssse3" if is_x86_feature_detected!("ssse3") => go_ssse3(&mut st, p),
                "sse41" if is_x86_feature_detected!("sse4.1") => go_sse41(&mut st, p),
                "avx" if is_x86_feature_detected!("avx") => go_avx(&mut st, p),
                "avx2" if is_x86_feature_detected!("avx2") => go_avx2(&mut st, p),
                _ => return None,
            }
        }
        Some(from_storage(&st))
    }
}

#[cfg(feature = "api_only")]
mod direct {
    /// api_only: always the dispatching `Compressor` path (the forced backend still applies through hook H1)
    pub fn f8_backend(_backend: &str, _state: &[u8], _block: &[u8]) -> Option<Vec<u8>> {
        None
    }
}

#[cfg(all(feature = "no_simd", not(feature = "api_only")))]
mod direct {
    use super::*;
    use jh_x86_64::compressor::f8_impl;
    use jh_x86_64::simd::generic::GenericMachine;
    use jh_x86_64::simd::Machine;

    pub fn f8_backend(_backend: &str, state: &[u8], block: &[u8]) -> Option<Vec<u8>> {
        let mut st = to_storage(state);
        f8_impl(unsafe { GenericMachine::instance() }, &mut st, block.as_ptr());
        Some(from_storage(&st))
    }
}

pub fn step(st: &mut St, backend: &str, toks: &[&str]) -> String {
    let num = |s: &str| s.parse::<u64>().ok();
    match toks {
        ["jh", "new", slot, n] => {
            let (Some(s), Some(n)) = (num(slot), num(n)) else {
                return "bad-op".into();
            };
            match guard(|| new_hasher(n)) {
                Some(Some(h)) => {
                    st.hashers.insert(s, h);
                    "ok".into()
                }
                Some(None) => "bad-op".into(),
                None => "panic".into(),
            }
        }
        ["jh", "update", slot, data] => {
            let Some(d) = unhex(data) else {
                return "bad-op".into();
            };
            let Some(h) = num(slot).and_then(|s| st.hashers.get_mut(&s)) else {
                return "bad-op".into();
            };
            update(h, &d)
        }
        ["jh", "updpat", slot, len, seed] => {
            let (Some(l), Some(sd)) = (num(len), num(seed)) else {
                return "bad-op".into();
            };
            let Some(h) = num(slot).and_then(|s| st.hashers.get_mut(&s)) else {
                return "bad-op".into();
            };
            update(h, &pat_bytes(sd, l as usize))
        }
        // C17: feed `nbytes` bytes (byte i = pat_byte(seed, i mod BIG_PERIOD)) through the real `update`
        // in 1 MiB calls
        // one single `update` call with `nbytes` bytes (byte i = pat_byte(seed, i mod BIG_PERIOD)): lengths
        // beyond 2^29 / 2^32 bytes in ONE slice (the `stream` op feeds the same bytes in 1 MiB calls)
        ["jh", "bigupd", slot, nbytes, seed] => {
            let (Some(n), Some(sd)) = (num(nbytes), num(seed)) else {
                return "bad-op".into();
            };
            let Some(h) = num(slot).and_then(|s| st.hashers.get_mut(&s)) else {
                return "bad-op".into();
            };
            let chunk = pat_bytes(sd, crate::util::BIG_PERIOD);
            let mut big = Vec::with_capacity(n as usize);
            while big.len() < n as usize {
                let k = (n as usize - big.len()).min(chunk.len());
                big.extend_from_slice(&chunk[..k]);
            }
            update(h, &big)
        }
        ["jh", "stream", slot, nbytes, seed] => {
            let (Some(n), Some(sd)) = (num(nbytes), num(seed)) else {
                return "bad-op".into();
            };
            let Some(h) = num(slot).and_then(|s| st.hashers.get_mut(&s)) else {
                return "bad-op".into();
            };
            let chunk = pat_bytes(sd, crate::util::BIG_PERIOD);
            let mut left = n as usize;
            while left > 0 {
                let k = left.min(chunk.len());
                if update(h, &chunk[..k]) != "ok" {
                    return "panic".into();
                }
                left -= k;
            }
            "ok".into()
        }
        ["jh", "clone", a, b] => {
            let (Some(a), Some(b)) = (num(a), num(b)) else {
                return "bad-op".into();
            };
            match st.hashers.get(&a).cloned() {
                Some(h) => {
                    st.hashers.insert(b, h);
                    "ok".into()
                }
                None => "bad-op".into(),
            }
        }
        ["jh", "reset", slot] => {
            let Some(h) = num(slot).and_then(|s| st.hashers.get_mut(&s)) else {
                return "bad-op".into();
            };
            match guard(|| with!(h, x, Reset::reset(x))) {
                Some(()) => "ok".into(),
                None => "panic".into(),
            }
        }
        ["jh", op @ ("finreset" | "finreset2"), slot] => {
            let Some(h) = num(slot).and_then(|s| st.hashers.get_mut(&s)) else {
                return "bad-op".into();
            };
            match guard(|| with!(h, x, if *op == "finreset" {
                // in-place: finalize_into_dirty + Reset::reset
                digest::FixedOutput::finalize_fixed_reset(x).to_vec()
            } else {
                // digest 0.9 `Digest::finalize_reset`: finalizes a clone, then resets
                Digest::finalize_reset(x).to_vec()
            })) {
                Some(d) => hex_nodash(&d),
                None => "panic".into(),
            }
        }
        ["jh", "fin", slot] => {
            let Some(h) = num(slot).and_then(|s| st.hashers.get(&s)) else {
                return "bad-op".into();
            };
            let c = h.clone();
            match guard(move || with!(c, x, Digest::finalize(x).to_vec())) {
                Some(d) => hex_nodash(&d),
                None => "panic".into(),
            }
        }
        ["jh", "findirty", slot] => {
            let Some(h) = num(slot).and_then(|s| st.hashers.get_mut(&s)) else {
                return "bad-op".into();
            };
            match guard(|| {
                with!(h, x, {
                    let mut out = GenericArray::default();
                    FixedOutputDirty::finalize_into_dirty(x, &mut out);
                    out.to_vec()
                })
            }) {
                Some(d) => hex_nodash(&d),
                None => "panic".into(),
            }
        }
        ["jh", "setctr", slot, v] => {
            let Some(v) = num(v) else {
                return "bad-op".into();
            };
            let Some(h) = num(slot).and_then(|s| st.hashers.get_mut(&s)) else {
                return "bad-op".into();
            };
            with!(h, x, x.verif_set_datalen(v as usize));
            "ok".into()
        }
        ["jh", "getctr", slot] => {
            let Some(h) = num(slot).and_then(|s| st.hashers.get(&s)) else {
                return "bad-op".into();
            };
            format!("{}", with!(h, x, x.verif_get_state().1))
        }
        ["jh", "getstate", slot] => {
            let Some(h) = num(slot).and_then(|s| st.hashers.get(&s)) else {
                return "bad-op".into();
            };
            hex_nodash(&with!(h, x, x.verif_get_state().0))
        }
        ["jh", op @ ("f8" | "specf8"), state, block] => {
            let (Some(s), Some(b)) = (unhex(state), unhex(block)) else {
                return "bad-op".into();
            };
            if s.len() != 128 || b.len() != 64 {
                return "bad-op".into();
            }
            let be = if *op == "specf8" { "ref" } else { backend };
            match guard(|| match direct::f8_backend(be, &s, &b) {
                Some(r) if be != "ref" => r,
                _ => f8_dispatch(&s, &b),
            }) {
                Some(r) => hex_nodash(&r),
                None => "panic".into(),
            }
        }
        ["jh", "spechash", n, data] => {
            let (Some(n), Some(d)) = (num(n), unhex(data)) else {
                return "bad-op".into();
            };
            match guard(|| {
                new_hasher(n).map(|mut h| {
                    with!(&mut h, x, Update::update(x, &d));
                    with!(h, x, Digest::finalize(x).to_vec())
                })
            }) {
                Some(Some(d)) => hex_nodash(&d),
                Some(None) => "bad-op".into(),
                None => "panic".into(),
            }
        }
        _ => "bad-op".into(),
    }
}
