//! cch — correspondence harness: executes the real cryptocorrosion code on a stream of
//! operations (one per line on stdin) and prints one canonical result line per operation.
use std::io::{BufRead, Write};

mod ops_blake;
mod ops_chacha;
mod ops_conc;
mod ops_which;
#[cfg(not(feature = "nostd_build"))]
mod ops_groestl;
/// groestl-aesni does not compile without `std` and is not part of the no-std manifest variant
#[cfg(feature = "nostd_build")]
mod ops_groestl {
    #[derive(Default)]
    pub struct St;
    pub fn step(_: &mut St, _: &[&str]) -> String {
        "unsupported".into()
    }
}
mod ops_jh;
mod ops_mem;
mod ops_simd;
mod ops_null;
mod ops_skein;
mod ops_threefish;
mod util;

pub struct Ctx {
    pub profile_debug: bool,
    pub chacha: ops_chacha::St,
    pub backend: String,
    pub blake: ops_blake::St,
    pub jh: ops_jh::St,
    pub groestl: ops_groestl::St,
    pub skein: ops_skein::St,
}

/// the `Machine` the no-std (compile-time) arms of the dispatch macros are built for
#[cfg(feature = "nostd_build")]
fn compile_time_backend() -> &'static str {
    match (
        cfg!(target_feature = "avx2"),
        cfg!(target_feature = "avx"),
        cfg!(target_feature = "sse4.1"),
        cfg!(target_feature = "ssse3"),
    ) {
        (true, true, true, true) => "avx2",
        (false, true, true, true) => "avx",
        (false, false, true, true) => "sse41",
        (false, false, false, true) => "ssse3",
        (false, false, false, false) => "sse2",
        _ => "inconsistent-target-features",
    }
}

fn set_backend(name: &str) -> bool {
    // no-std build: the backend is fixed at compile time (the H1 hook exists only in the std arms)
    #[cfg(feature = "nostd_build")]
    {
        name == compile_time_backend()
    }
    #[cfg(all(not(feature = "no_simd"), not(feature = "nostd_build")))]
    {
        use std::sync::atomic::Ordering;
        let v = match name {
            "ref" | "native" => 0,
            "sse2" => 1,
            "ssse3" => 2,
            "sse41" => 3,
            "avx" => 4,
            "avx2" => 5,
            _ => return false,
        };
        ppv_lite86::x86_64::VERIF_FORCE_BACKEND.store(v, Ordering::SeqCst);
        true
    }
    #[cfg(all(feature = "no_simd", not(feature = "nostd_build")))]
    {
        name == "generic" || name == "ref"
    }
}

fn step(ctx: &mut Ctx, toks: &[&str]) -> String {
    match toks {
        [] => String::new(),
        ["cfg", "profile", p] => {
            let want_debug = *p == "debug";
            if cfg!(debug_assertions) == want_debug {
                "ok".into()
            } else {
                "profile-mismatch".into()
            }
        }
        ["cfg", "backend", name] => {
            if set_backend(name) {
                ctx.backend = name.to_string();
                "ok".into()
            } else {
                "bad-op".into()
            }
        }
        ["chacha", ..] | ["guts", ..] => ops_chacha::step(&mut ctx.chacha, toks),
        ["blake", ..] => ops_blake::step(&mut ctx.blake, &ctx.backend, toks),
        ["jh", ..] => {
            // no-std build: `jh f8` always takes the dispatching `Compressor` path
            let be = if cfg!(feature = "nostd_build") { "ref".to_string() } else { ctx.backend.clone() };
            ops_jh::step(&mut ctx.jh, &be, toks)
        }
        ["groestl", ..] => ops_groestl::step(&mut ctx.groestl, toks),
        ["simd", ..] | ["intrin", ..] => ops_simd::step(toks),
        ["mem", ..] => ops_mem::step(toks),
        ["null", ..] => ops_null::step(toks),
        ["tf", ..] | ["tfl", ..] => ops_threefish::step(toks),
        ["skein", ..] => ops_skein::step(&mut ctx.skein, toks),
        ["conc", ..] => ops_conc::step(toks),
        ["which", ..] => ops_which::step(toks),
        _ => "bad-op".into(),
    }
}

fn main() {
    std::panic::set_hook(Box::new(|_| {}));
    let args: Vec<String> = std::env::args().collect();
    if args.len() >= 2 && args[1] == "--conc-child" {
        std::process::exit(ops_conc::child_main(&args[2..]));
    }
    let stdin = std::io::stdin();
    let stdout = std::io::stdout();
    let mut out = std::io::BufWriter::new(stdout.lock());
    let mut ctx = Ctx {
        profile_debug: cfg!(debug_assertions),
        chacha: Default::default(),
        backend: "ref".to_string(),
        blake: Default::default(),
        jh: Default::default(),
        groestl: Default::default(),
        skein: Default::default(),
    };
    for line in stdin.lock().lines() {
        let line = line.unwrap();
        if line.starts_with('#') {
            writeln!(out, "{}", line.trim()).unwrap();
            continue;
        }
        let toks: Vec<&str> = line.split_whitespace().collect();
        if toks.first() == Some(&"mem") {
            // a guard-page op may kill the process: everything answered so far must be visible
            out.flush().unwrap();
        }
        let r = step(&mut ctx, &toks);
        writeln!(out, "{}", r).unwrap();
    }
    out.flush().unwrap();
}
