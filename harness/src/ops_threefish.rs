//! `tf` / `tfl` — Threefish-256/512/1024 encrypt / decrypt on the real code, through every public API
//! path (single block, block slice, par-blocks, `&Alg` forwarding, `new` / `with_tweak`).
//! `tf` is answered by a default build, `tfl` by a build with the feature `no_unroll`
//! (both names run whatever `unroll8!` shape was compiled; the runner picks the configuration).
use crate::util::*;
use cipher::generic_array::GenericArray;
use cipher::{BlockDecrypt, BlockEncrypt};
use threefish_cipher::{Threefish1024, Threefish256, Threefish512};

fn run(size: &str, dir: &str, key: &[u8], t0: u64, t1: u64, blk: &[u8]) -> String {
    macro_rules! go {
        ($ty:ty, $n:expr) => {{
            if key.len() != $n || blk.len() != $n {
                return "bad-op".into();
            }
            // sequence of operations applied to the block: (encrypt?, API path).  Paths: 'b' = the
            // single-block `encrypt_block`/`decrypt_block`; 's' = the slice API `encrypt_blocks`/
            // `decrypt_blocks` (a 3-block slice whose middle block is ours, so neighbours are
            // processed too); 'p' = `encrypt_par_blocks`/`decrypt_par_blocks`; 'r' = through the
            // `&Alg` forwarding impl of the cipher crate (slice API on a reference).
            let seq: &[(bool, char)] = match dir {
                "enc" => &[(true, 'b')],
                "dec" => &[(false, 'b')],
                "encdec" => &[(true, 'b'), (false, 'b')],
                "decenc" => &[(false, 'b'), (true, 'b')],
                "encs" => &[(true, 's')],
                "decs" => &[(false, 's')],
                "encp" => &[(true, 'p')],
                "decp" => &[(false, 'p')],
                "encr" => &[(true, 'r')],
                "decr" => &[(false, 'r')],
                "encsdecs" => &[(true, 's'), (false, 's')],
                "decsencs" => &[(false, 's'), (true, 's')],
                "encdecs" => &[(true, 'b'), (false, 's')],
                "decsenc" => &[(false, 's'), (true, 'b')],
                "encpdecp" => &[(true, 'p'), (false, 'p')],
                "encrdecr" => &[(true, 'r'), (false, 'r')],
                _ => return "bad-op".into(),
            };
            let r = guard(|| {
                // `new()` is the untweaked constructor; use it when the tweak is zero and the op asks
                // for an alternative path, so that constructor is driven as well
                // key and block live at byte addresses ≡ off (mod 8) chosen from the input, so that word
                // loads from unaligned `GenericArray<u8, _>`s (alignment 1 is legal) are exercised
                let off = blk.iter().fold(key.len(), |a, &x| a.wrapping_mul(31).wrapping_add(x as usize)) % 8;
                let mut kbuf = vec![0u8; $n + 16];
                let kstart = (8 - kbuf.as_ptr() as usize % 8) % 8 + off;
                kbuf[kstart..kstart + $n].copy_from_slice(key);
                let keyref = GenericArray::from_slice(&kbuf[kstart..kstart + $n]);
                let fish = if t0 == 0 && t1 == 0 && dir.len() > 3 && !dir.starts_with("encdec") && !dir.starts_with("decenc") {
                    <$ty as cipher::NewBlockCipher>::new(keyref)
                } else {
                    <$ty>::with_tweak(keyref, t0, t1)
                };
                let mut bbuf = vec![0u8; $n + 16];
                let bstart = (8 - bbuf.as_ptr() as usize % 8) % 8 + (off * 3 + 1) % 8;
                bbuf[bstart..bstart + $n].copy_from_slice(blk);
                let b: &mut GenericArray<u8, _> = GenericArray::from_mut_slice(&mut bbuf[bstart..bstart + $n]);
                for &(enc, path) in seq {
                    match path {
                        'b' => {
                            if enc {
                                fish.encrypt_block(b);
                            } else {
                                fish.decrypt_block(b);
                            }
                        }
                        's' | 'r' => {
                            let mut other = b.clone();
                            other[0] ^= 0x5a;
                            let mut three = [other.clone(), b.clone(), other];
                            if path == 's' {
                                if enc {
                                    fish.encrypt_blocks(&mut three);
                                } else {
                                    fish.decrypt_blocks(&mut three);
                                }
                            } else {
                                let r = &fish;
                                if enc {
                                    BlockEncrypt::encrypt_blocks(&r, &mut three);
                                } else {
                                    BlockDecrypt::decrypt_blocks(&r, &mut three);
                                }
                            }
                            // the two neighbours were equal before, so they must be equal after
                            assert!(three[0] == three[2], "slice API treated equal blocks differently");
                            *b = three[1].clone();
                        }
                        _ => {
                            let mut par = GenericArray::<_, <$ty as cipher::BlockCipher>::ParBlocks>::default();
                            par[0] = b.clone();
                            if enc {
                                fish.encrypt_par_blocks(&mut par);
                            } else {
                                fish.decrypt_par_blocks(&mut par);
                            }
                            *b = par[0].clone();
                        }
                    }
                }
                b.to_vec()
            });
            match r {
                Some(v) => hex_nodash(&v),
                None => "panic".into(),
            }
        }};
    }
    match size {
        "256" => go!(Threefish256, 32),
        "512" => go!(Threefish512, 64),
        "1024" => go!(Threefish1024, 128),
        _ => "bad-op".into(),
    }
}

pub fn step(toks: &[&str]) -> String {
    match toks {
        ["tf", size, dir, key, t0, t1, blk] | ["tfl", size, dir, key, t0, t1, blk] => {
            match (unhex(key), t0.parse::<u64>(), t1.parse::<u64>(), unhex(blk)) {
                (Some(k), Ok(a), Ok(b), Some(x)) => run(size, dir, &k, a, b, &x),
                _ => "bad-op".into(),
            }
        }
        _ => "bad-op".into(),
    }
}
