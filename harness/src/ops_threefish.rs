//! `tf` / `tfl` — Threefish-256/512/1024 single-block encrypt / decrypt on the real code.
//! `tf` is answered by a default build, `tfl` by a build with the feature `no_unroll`
//! (both names run whatever `unroll8!` shape was compiled; the runner picks the configuration).
use crate::util::*;
use cipher::generic_array::GenericArray;
use cipher::{BlockDecrypt, BlockEncrypt};
use threefish_cipher::{Threefish1024, Threefish256, Threefish512};

fn run(size: &str, dir: &str, key: &[u8], t0: u64, t1: u64, blk: &[u8]) -> String {
    macro_rules! go {
        ($ty:ty, $n:expr) => {{
            if key.len() != $n || blk.len() != $n {
                return "bad-op".into();
            }
            // sequence of operations applied to the block: true = encrypt_block, false = decrypt_block
            let seq: &[bool] = match dir {
                "enc" => &[true],
                "dec" => &[false],
                "encdec" => &[true, false],
                "decenc" => &[false, true],
                _ => return "bad-op".into(),
            };
            let r = guard(|| {
                let fish = <$ty>::with_tweak(GenericArray::from_slice(key), t0, t1);
                let mut b = GenericArray::clone_from_slice(blk);
                for &enc in seq {
                    if enc {
                        fish.encrypt_block(&mut b);
                    } else {
                        fish.decrypt_block(&mut b);
                    }
                }
                b.to_vec()
            });
            match r {
                Some(v) => hex_nodash(&v),
                None => "panic".into(),
            }
        }};
    }
    match size {
        "256" => go!(Threefish256, 32),
        "512" => go!(Threefish512, 64),
        "1024" => go!(Threefish1024, 128),
        _ => "bad-op".into(),
    }
}

pub fn step(toks: &[&str]) -> String {
    match toks {
        ["tf", size, dir, key, t0, t1, blk] | ["tfl", size, dir, key, t0, t1, blk] => {
            match (unhex(key), t0.parse::<u64>(), t1.parse::<u64>(), unhex(blk)) {
                (Some(k), Ok(a), Ok(b), Some(x)) => run(size, dir, &k, a, b, &x),
                _ => "bad-op".into(),
            }
        }
        _ => "bad-op".into(),
    }
}
