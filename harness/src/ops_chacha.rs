use crate::util::*;
use c2_chacha::guts::ChaCha as Guts;
use c2_chacha::{ChaCha12, ChaCha20, ChaCha8, Ietf, XChaCha12, XChaCha20, XChaCha8};
use cipher::generic_array::GenericArray;
use cipher::{NewCipher, StreamCipher, StreamCipherSeek};
use std::collections::HashMap;

pub enum Any {
    C8(ChaCha8),
    C12(ChaCha12),
    C20(ChaCha20),
    Ietf(Ietf),
    X8(XChaCha8),
    X12(XChaCha12),
    X20(XChaCha20),
}

macro_rules! with {
    ($any:expr, $c:ident, $e:expr) => {
        match $any {
            Any::C8($c) => $e,
            Any::C12($c) => $e,
            Any::C20($c) => $e,
            Any::Ietf($c) => $e,
            Any::X8($c) => $e,
            Any::X12($c) => $e,
            Any::X20($c) => $e,
        }
    };
}

impl Any {
    /// `XChaCha*` does not derive `Clone` (its marker type lacks it); copy the public state.
    fn dup(&self) -> Any {
        let k = [0u8; 32];
        macro_rules! mk {
            ($variant:ident, $ty:ty, $n:expr, $c:expr) => {{
                let mut n = <$ty>::new(
                    GenericArray::from_slice(&k),
                    GenericArray::from_slice(&[0u8; $n]),
                );
                n.state = $c.state.clone();
                Any::$variant(n)
            }};
        }
        match self {
            Any::C8(c) => mk!(C8, ChaCha8, 8, c),
            Any::C12(c) => mk!(C12, ChaCha12, 8, c),
            Any::C20(c) => mk!(C20, ChaCha20, 8, c),
            Any::Ietf(c) => mk!(Ietf, Ietf, 12, c),
            Any::X8(c) => mk!(X8, XChaCha8, 24, c),
            Any::X12(c) => mk!(X12, XChaCha12, 24, c),
            Any::X20(c) => mk!(X20, XChaCha20, 24, c),
        }
    }
}

#[derive(Default)]
pub struct St {
    pub ciphers: HashMap<u64, Any>,
    pub guts: HashMap<u64, Guts>,
}

fn new_cipher(v: &str, key: &[u8], nonce: &[u8]) -> Option<Any> {
    let k = GenericArray::from_slice(key);
    Some(match (v, nonce.len()) {
        ("chacha8", 8) => Any::C8(ChaCha8::new(k, GenericArray::from_slice(nonce))),
        ("chacha12", 8) => Any::C12(ChaCha12::new(k, GenericArray::from_slice(nonce))),
        ("chacha20", 8) => Any::C20(ChaCha20::new(k, GenericArray::from_slice(nonce))),
        ("ietf", 12) => Any::Ietf(Ietf::new(k, GenericArray::from_slice(nonce))),
        ("xchacha8", 24) => Any::X8(XChaCha8::new(k, GenericArray::from_slice(nonce))),
        ("xchacha12", 24) => Any::X12(XChaCha12::new(k, GenericArray::from_slice(nonce))),
        ("xchacha20", 24) => Any::X20(XChaCha20::new(k, GenericArray::from_slice(nonce))),
        _ => return None,
    })
}

fn seek(any: &mut Any, ty: &str, val: &str) -> String {
    macro_rules! go {
        ($t:ty) => {{
            let v: $t = match val.parse() {
                Ok(v) => v,
                Err(_) => return "bad-op".into(),
            };
            match guard(|| with!(any, c, c.try_seek(v))) {
                None => "panic".into(),
                Some(Ok(())) => "ok".into(),
                Some(Err(_)) => "err".into(),
            }
        }};
    }
    match ty {
        "u8" => go!(u8),
        "u16" => go!(u16),
        "u32" => go!(u32),
        "u64" => go!(u64),
        "u128" => go!(u128),
        "usize" => go!(usize),
        "i32" => go!(i32),
        _ => "bad-op".into(),
    }
}

fn pos(any: &Any, ty: &str) -> String {
    macro_rules! go {
        ($t:ty) => {{
            match guard(|| with!(any, c, c.try_current_pos::<$t>())) {
                None => "panic".into(),
                Some(Ok(p)) => format!("{}", p),
                Some(Err(_)) => "overflow".into(),
            }
        }};
    }
    match ty {
        "u8" => go!(u8),
        "u16" => go!(u16),
        "u32" => go!(u32),
        "u64" => go!(u64),
        "u128" => go!(u128),
        "usize" => go!(usize),
        "i32" => go!(i32),
        _ => "bad-op".into(),
    }
}

fn apply(any: &mut Any, mut data: Vec<u8>) -> String {
    let before = data.clone();
    match guard(|| with!(any, c, c.try_apply_keystream(&mut data))) {
        None => "panic".into(),
        Some(Ok(())) => hex(&data),
        Some(Err(_)) => {
            if data == before {
                "err".into()
            } else {
                "err-data-modified".into()
            }
        }
    }
}

pub fn step(st: &mut St, toks: &[&str]) -> String {
    let num = |s: &str| s.parse::<u64>().ok();
    match toks {
        ["chacha", "new", slot, v, key, nonce] => {
            let (Some(s), Some(k), Some(n)) = (num(slot), unhex(key), unhex(nonce)) else {
                return "bad-op".into();
            };
            if k.len() != 32 {
                return "bad-op".into();
            }
            match guard(|| new_cipher(v, &k, &n)) {
                Some(Some(c)) => {
                    st.ciphers.insert(s, c);
                    "ok".into()
                }
                Some(None) => "bad-op".into(),
                None => "panic".into(),
            }
        }
        ["chacha", "clone", a, b] => {
            let (Some(a), Some(b)) = (num(a), num(b)) else {
                return "bad-op".into();
            };
            match st.ciphers.get(&a).map(|c| c.dup()) {
                Some(c) => {
                    st.ciphers.insert(b, c);
                    "ok".into()
                }
                None => "bad-op".into(),
            }
        }
        ["chacha", "seek", slot, ty, val] => {
            let Some(c) = num(slot).and_then(|s| st.ciphers.get_mut(&s)) else {
                return "bad-op".into();
            };
            seek(c, ty, val)
        }
        ["chacha", "apply", slot, data] => {
            let Some(d) = unhex(data) else {
                return "bad-op".into();
            };
            let Some(c) = num(slot).and_then(|s| st.ciphers.get_mut(&s)) else {
                return "bad-op".into();
            };
            apply(c, d)
        }
        ["chacha", "applypat", slot, len, seed] => {
            let (Some(l), Some(sd)) = (num(len), num(seed)) else {
                return "bad-op".into();
            };
            let Some(c) = num(slot).and_then(|s| st.ciphers.get_mut(&s)) else {
                return "bad-op".into();
            };
            apply(c, pat_bytes(sd, l as usize))
        }
        // ONE request of `n` zero bytes; answer = 64-byte digest of the whole output (byte i is xored into
        // cell (i + i/64) mod 64), for requests too long to print
        ["chacha", "applysum", slot, len] => {
            let Some(n) = num(len) else {
                return "bad-op".into();
            };
            let Some(c) = num(slot).and_then(|s| st.ciphers.get_mut(&s)) else {
                return "bad-op".into();
            };
            let mut data = vec![0u8; n as usize];
            match guard(|| with!(c, x, x.try_apply_keystream(&mut data))) {
                None => "panic".into(),
                Some(Ok(())) => {
                    let mut acc = [0u8; 64];
                    for (i, b) in data.iter().enumerate() {
                        acc[(i + i / 64) % 64] ^= *b;
                    }
                    hex_nodash(&acc)
                }
                Some(Err(_)) => "err".into(),
            }
        }
        // ONE request of `n` zero bytes (n >= 128); answer = first 64 and last 64 output bytes
        ["chacha", "bigapply", slot, len] => {
            let Some(n) = num(len) else {
                return "bad-op".into();
            };
            let Some(c) = num(slot).and_then(|s| st.ciphers.get_mut(&s)) else {
                return "bad-op".into();
            };
            if n < 128 {
                return "bad-op".into();
            }
            let mut data = vec![0u8; n as usize];
            match guard(|| with!(c, x, x.try_apply_keystream(&mut data))) {
                None => "panic".into(),
                Some(Ok(())) => format!("{}:{}", hex_nodash(&data[..64]), hex_nodash(&data[data.len() - 64..])),
                Some(Err(_)) => "err".into(),
            }
        }
        ["chacha", "pos", slot, ty] => {
            let Some(c) = num(slot).and_then(|s| st.ciphers.get(&s)) else {
                return "bad-op".into();
            };
            pos(c, ty)
        }
        ["guts", "new", slot, key, nonce] => {
            let (Some(s), Some(k), Some(n)) = (num(slot), unhex(key), unhex(nonce)) else {
                return "bad-op".into();
            };
            if k.len() != 32 || !(n.len() == 8 || n.len() == 12) {
                return "bad-op".into();
            }
            let mut key = [0u8; 32];
            key.copy_from_slice(&k);
            match guard(|| Guts::new(&key, &n)) {
                Some(g) => {
                    st.guts.insert(s, g);
                    "ok".into()
                }
                None => "panic".into(),
            }
        }
        ["guts", "clone", a, b] => {
            let (Some(a), Some(b)) = (num(a), num(b)) else {
                return "bad-op".into();
            };
            match st.guts.get(&a).cloned() {
                Some(c) => {
                    st.guts.insert(b, c);
                    "ok".into()
                }
                None => "bad-op".into(),
            }
        }
        ["guts", "refill", slot, dr] => {
            let Some(dr) = num(dr) else {
                return "bad-op".into();
            };
            let Some(g) = num(slot).and_then(|s| st.guts.get_mut(&s)) else {
                return "bad-op".into();
            };
            let mut out = [0u8; 64];
            match guard(|| g.refill(dr as u32, &mut out)) {
                Some(()) => hex_nodash(&out),
                None => "panic".into(),
            }
        }
        ["guts", "refill4", slot, dr] => {
            let Some(dr) = num(dr) else {
                return "bad-op".into();
            };
            let Some(g) = num(slot).and_then(|s| st.guts.get_mut(&s)) else {
                return "bad-op".into();
            };
            let mut out = [0u8; 256];
            match guard(|| g.refill4(dr as u32, &mut out)) {
                Some(()) => hex_nodash(&out),
                None => "panic".into(),
            }
        }
        // impl-only self-consistency (used where the model cannot execute: huge round counts): refill4 against four
        // refills from a clone of the same state; `eq` iff the 256 bytes and the two final states agree (theorem
        // CC.Thm.C14.refill4_eq says they do for every state and every round count)
        ["guts", "r4eq", slot, dr] => {
            let Some(dr) = num(dr) else {
                return "bad-op".into();
            };
            let Some(g) = num(slot).and_then(|s| st.guts.get(&s)) else {
                return "bad-op".into();
            };
            let (mut a, mut b) = (g.clone(), g.clone());
            match guard(move || {
                let mut wide = [0u8; 256];
                a.refill4(dr as u32, &mut wide);
                let mut narrow = [0u8; 256];
                for k in 0..4 {
                    let mut blk = [0u8; 64];
                    b.refill(dr as u32, &mut blk);
                    narrow[64 * k..64 * k + 64].copy_from_slice(&blk);
                }
                wide[..] == narrow[..]
                    && a.get_stream_param(0) == b.get_stream_param(0)
                    && a.get_stream_param(1) == b.get_stream_param(1)
                    && a == b
            }) {
                Some(true) => "eq".into(),
                Some(false) => "ne".into(),
                None => "panic".into(),
            }
        }
        ["guts", "set", slot, param, val] => {
            let (Some(p), Some(v)) = (num(param), num(val)) else {
                return "bad-op".into();
            };
            let Some(g) = num(slot).and_then(|s| st.guts.get_mut(&s)) else {
                return "bad-op".into();
            };
            match guard(|| g.set_stream_param(p as u32, v)) {
                Some(()) => "ok".into(),
                None => "panic".into(),
            }
        }
        ["guts", "get", slot, param] => {
            let Some(p) = num(param) else {
                return "bad-op".into();
            };
            let Some(g) = num(slot).and_then(|s| st.guts.get(&s)) else {
                return "bad-op".into();
            };
            match guard(|| g.get_stream_param(p as u32)) {
                Some(v) => format!("{}", v),
                None => "panic".into(),
            }
        }
        ["guts", "eqd", a, b] => {
            // the derived `PartialEq` of `guts::ChaCha` (field-wise `vec128_storage` comparisons)
            let (Some(a), Some(b)) = (num(a), num(b)) else {
                return "bad-op".into();
            };
            let (Some(x), Some(y)) = (st.guts.get(&a), st.guts.get(&b)) else {
                return "bad-op".into();
            };
            match guard(|| x == y) {
                Some(r) => format!("{}", r),
                None => "panic".into(),
            }
        }
        ["guts", op @ ("eq32" | "eq64"), a, b] => {
            let (Some(a), Some(b)) = (num(a), num(b)) else {
                return "bad-op".into();
            };
            let (Some(x), Some(y)) = (st.guts.get(&a), st.guts.get(&b)) else {
                return "bad-op".into();
            };
            let r = if *op == "eq32" {
                x.stream32_eq(y)
            } else {
                x.stream64_eq(y)
            };
            format!("{}", r)
        }
        _ => "bad-op".into(),
    }
}
