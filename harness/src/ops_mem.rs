//! `mem …` — C16: the byte-slice APIs on slices that abut an unmapped page.
//!
//!   mem chacha <variant> <keyhex> <noncehex> <pos> <len> <seed> <front|back> <align>
//!   mem hash <blake|groestl|jh|skein> <variant> <len> <seed> <front|back> <align>
//!   mem tf <256|512|1024> <enc|dec> <keyhex> <t0> <t1> <seed> <front|back> <align>
//!   mem simd <backend> <type> <read_le|read_be|write_le|write_be> <seed> <front|back> <align>
//!   mem simdlen <backend> <type> <op> <len> <seed> <front|back> <align>
//!   mem probe <len> <front|back> <align> <offset>        (self-test of the guard pages, harness only)
//!
//! A buffer is `[PROT_NONE page][data pages][PROT_NONE page]`, obtained with raw `mmap` / `mprotect`
//! / `munmap` system calls (`core::arch::asm!`; the workspace lock file has no `libc`).
//!   * `front`: the slice starts `align` bytes after the first data byte (`align = 0`: exactly after
//!     the guard page; the data area itself is page-, hence 64-byte aligned).
//!   * `back`: the slice ENDS exactly at the trailing guard page; its start alignment is then
//!     `(-len) mod 64` (`align` is accepted and ignored: both cannot be chosen).
//! The data area is filled with a canary, the slice with `pat(seed)`; after the call every byte of
//! the data area outside the slice must still be the canary (`!canary` is appended otherwise) and a
//! read-only slice must be unchanged (`!input-modified`).
//! A SIGSEGV / SIGBUS kills the process: `main` flushes stdout before every `mem` op, so the output
//! then stops exactly at the faulting operation and the runner reports it.
#![allow(non_camel_case_types, unused_macros, unused_imports, dead_code)]
use crate::util::*;
use core::arch::asm;

// ------------------------------------------------------------------ raw system calls

const SYS_MMAP: usize = 9;
const SYS_MPROTECT: usize = 10;
const SYS_MUNMAP: usize = 11;
const PROT_NONE: usize = 0;
const PROT_READ: usize = 1;
const PROT_WRITE: usize = 2;
const MAP_PRIVATE: usize = 2;
const MAP_ANONYMOUS: usize = 0x20;
const PAGE: usize = 4096;
const CANARY: u8 = 0xA5;

#[cfg(all(target_arch = "x86_64", target_os = "linux"))]
unsafe fn syscall6(n: usize, a1: usize, a2: usize, a3: usize, a4: usize, a5: usize, a6: usize) -> isize {
    let ret: isize;
    asm!(
        "syscall",
        inlateout("rax") n as isize => ret,
        in("rdi") a1,
        in("rsi") a2,
        in("rdx") a3,
        in("r10") a4,
        in("r8") a5,
        in("r9") a6,
        lateout("rcx") _,
        lateout("r11") _,
        options(nostack)
    );
    ret
}

#[derive(Clone, Copy, PartialEq)]
pub enum Place {
    Front,
    Back,
}

pub struct Guarded {
    base: *mut u8,
    total: usize,
    data: *mut u8,
    data_len: usize,
    start: usize, // offset of the slice inside the data area
    len: usize,
}

impl Guarded {
    pub fn new(len: usize, place: Place, align: usize) -> Option<Guarded> {
        let npages = (len + 64 + PAGE - 1) / PAGE + 1;
        let total = (npages + 2) * PAGE;
        unsafe {
            let r = syscall6(SYS_MMAP, 0, total, PROT_READ | PROT_WRITE, MAP_PRIVATE | MAP_ANONYMOUS, usize::MAX, 0);
            if r < 0 && r > -4096 {
                return None;
            }
            let base = r as usize as *mut u8;
            let data = base.add(PAGE);
            let data_len = npages * PAGE;
            core::ptr::write_bytes(data, CANARY, data_len);
            if syscall6(SYS_MPROTECT, base as usize, PAGE, PROT_NONE, 0, 0, 0) != 0
                || syscall6(SYS_MPROTECT, base as usize + PAGE + data_len, PAGE, PROT_NONE, 0, 0, 0) != 0
            {
                syscall6(SYS_MUNMAP, base as usize, total, 0, 0, 0, 0);
                return None;
            }
            let start = match place {
                Place::Front => align,
                Place::Back => data_len - len,
            };
            Some(Guarded { base, total, data, data_len, start, len })
        }
    }
    pub fn slice(&self) -> &[u8] {
        unsafe { core::slice::from_raw_parts(self.data.add(self.start), self.len) }
    }
    pub fn slice_mut(&mut self) -> &mut [u8] {
        unsafe { core::slice::from_raw_parts_mut(self.data.add(self.start), self.len) }
    }
    pub fn fill(&mut self, bytes: &[u8]) {
        self.slice_mut().copy_from_slice(bytes);
    }
    /// every data byte outside the slice still holds the canary
    pub fn canary_ok(&self) -> bool {
        let all = unsafe { core::slice::from_raw_parts(self.data, self.data_len) };
        all[..self.start].iter().all(|&b| b == CANARY) && all[self.start + self.len..].iter().all(|&b| b == CANARY)
    }
    /// raw access relative to the slice start (guard-page self-test)
    pub unsafe fn peek(&self, off: isize) -> u8 {
        core::ptr::read_volatile(self.data.add(self.start).offset(off))
    }
}

impl Drop for Guarded {
    fn drop(&mut self) {
        unsafe {
            syscall6(SYS_MUNMAP, self.base as usize, self.total, 0, 0, 0, 0);
        }
    }
}

fn parse_place(place: &str, align: &str) -> Option<(Place, usize)> {
    let p = match place {
        "front" => Place::Front,
        "back" => Place::Back,
        _ => return None,
    };
    let a: usize = align.parse().ok()?;
    if a >= 64 {
        return None;
    }
    Some((p, a))
}

fn suffix(g: &Guarded, unchanged: Option<&[u8]>) -> &'static str {
    if !g.canary_ok() {
        return "!canary";
    }
    if let Some(orig) = unchanged {
        if g.slice() != orig {
            return "!input-modified";
        }
    }
    ""
}

const BAD: &str = "bad-op";
const NOMAP: &str = "mmap-failed";

// ------------------------------------------------------------------ chacha

fn chacha(variant: &str, key: &[u8], nonce: &[u8], pos: u64, len: usize, seed: u64, place: Place, align: usize) -> String {
    use c2_chacha::{ChaCha12, ChaCha20, ChaCha8, Ietf, XChaCha12, XChaCha20, XChaCha8};
    use cipher::generic_array::GenericArray;
    use cipher::{NewCipher, StreamCipher, StreamCipherSeek};
    if key.len() != 32 {
        return BAD.into();
    }
    macro_rules! go {
        ($ty:ty, $n:expr) => {{
            if nonce.len() != $n {
                return BAD.into();
            }
            let Some(mut c) = guard(|| <$ty>::new(GenericArray::from_slice(key), GenericArray::from_slice(nonce))) else {
                return "panic".into();
            };
            match guard(|| c.try_seek(pos)) {
                None => return "panic".into(),
                Some(Err(_)) => return "err".into(),
                Some(Ok(())) => {}
            }
            let Some(mut g) = Guarded::new(len, place, align) else {
                return NOMAP.into();
            };
            let input = pat_bytes(seed, len);
            g.fill(&input);
            let r = guard(|| c.try_apply_keystream(g.slice_mut()));
            let s = match r {
                None => "panic".to_string(),
                Some(Ok(())) => {
                    // a second request on the same object (ordinary heap buffer): the first slice,
                    // whatever its length and placement, must leave the object where the next call expects it
                    let mut t = pat_bytes(seed + 1, 77);
                    let second = match guard(|| c.try_apply_keystream(&mut t)) {
                        None => "panic".to_string(),
                        Some(Ok(())) => hex(&t),
                        Some(Err(_)) => "err".to_string(),
                    };
                    hex(g.slice()) + "|" + &second
                }
                Some(Err(_)) => {
                    if g.slice() == &input[..] {
                        "err".to_string()
                    } else {
                        "err-data-modified".to_string()
                    }
                }
            };
            s + suffix(&g, None)
        }};
    }
    match variant {
        "chacha8" => go!(ChaCha8, 8),
        "chacha12" => go!(ChaCha12, 8),
        "chacha20" => go!(ChaCha20, 8),
        "ietf" => go!(Ietf, 12),
        "xchacha8" => go!(XChaCha8, 24),
        "xchacha12" => go!(XChaCha12, 24),
        "xchacha20" => go!(XChaCha20, 24),
        _ => BAD.into(),
    }
}

// ------------------------------------------------------------------ hashes

fn digest_on<D: digest::Digest>(len: usize, seed: u64, place: Place, align: usize) -> String {
    let Some(mut g) = Guarded::new(len, place, align) else {
        return NOMAP.into();
    };
    let input = pat_bytes(seed, len);
    g.fill(&input);
    let Some(mut h) = guard(|| D::new()) else {
        return "panic".into();
    };
    if guard(|| h.update(g.slice())).is_none() {
        return "panic".into();
    }
    let s = match guard(|| h.finalize()) {
        Some(d) => hex_nodash(&d),
        None => "panic".to_string(),
    };
    s + suffix(&g, Some(&input))
}

fn hash(family: &str, variant: &str, len: usize, seed: u64, place: Place, align: usize) -> String {
    use digest::generic_array::typenum::{U128, U32, U64};
    macro_rules! d {
        ($ty:ty) => {
            digest_on::<$ty>(len, seed, place, align)
        };
    }
    match (family, variant) {
        ("blake", "224") => d!(blake_hash::Blake224),
        ("blake", "256") => d!(blake_hash::Blake256),
        ("blake", "384") => d!(blake_hash::Blake384),
        ("blake", "512") => d!(blake_hash::Blake512),
        #[cfg(not(feature = "nostd_build"))]
        ("groestl", "224") => d!(groestl_aesni::Groestl224),
        #[cfg(not(feature = "nostd_build"))]
        ("groestl", "256") => d!(groestl_aesni::Groestl256),
        #[cfg(not(feature = "nostd_build"))]
        ("groestl", "384") => d!(groestl_aesni::Groestl384),
        #[cfg(not(feature = "nostd_build"))]
        ("groestl", "512") => d!(groestl_aesni::Groestl512),
        ("jh", "224") => d!(jh_x86_64::Jh224),
        ("jh", "256") => d!(jh_x86_64::Jh256),
        ("jh", "384") => d!(jh_x86_64::Jh384),
        ("jh", "512") => d!(jh_x86_64::Jh512),
        ("skein", "256-32") => d!(skein_hash::Skein256<U32>),
        ("skein", "256-64") => d!(skein_hash::Skein256<U64>),
        ("skein", "512-32") => d!(skein_hash::Skein512<U32>),
        ("skein", "512-64") => d!(skein_hash::Skein512<U64>),
        ("skein", "512-128") => d!(skein_hash::Skein512<U128>),
        ("skein", "1024-32") => d!(skein_hash::Skein1024<U32>),
        ("skein", "1024-64") => d!(skein_hash::Skein1024<U64>),
        ("skein", "1024-128") => d!(skein_hash::Skein1024<U128>),
        _ => BAD.into(),
    }
}

// ------------------------------------------------------------------ threefish

fn tf(size: &str, dir: &str, key: &[u8], t0: u64, t1: u64, seed: u64, place: Place, align: usize) -> String {
    use cipher::generic_array::GenericArray;
    use cipher::{BlockDecrypt, BlockEncrypt};
    use threefish_cipher::{Threefish1024, Threefish256, Threefish512};
    macro_rules! go {
        ($ty:ty, $n:expr) => {{
            if key.len() != $n || !(dir == "enc" || dir == "dec") {
                return BAD.into();
            }
            let Some(mut g) = Guarded::new($n, place, align) else {
                return NOMAP.into();
            };
            g.fill(&pat_bytes(seed, $n));
            let r = guard(|| {
                let fish = <$ty>::with_tweak(GenericArray::from_slice(key), t0, t1);
                let b = GenericArray::from_mut_slice(g.slice_mut());
                if dir == "enc" {
                    fish.encrypt_block(b);
                } else {
                    fish.decrypt_block(b);
                }
            });
            let s = match r {
                Some(()) => hex_nodash(g.slice()),
                None => "panic".to_string(),
            };
            s + suffix(&g, None)
        }};
    }
    match size {
        "256" => go!(Threefish256, 32),
        "512" => go!(Threefish512, 64),
        "1024" => go!(Threefish1024, 128),
        _ => BAD.into(),
    }
}

// ------------------------------------------------------------------ ppv-lite86 StoreBytes

use ppv_lite86::*;

trait Stor: Sized {
    const N: usize;
    fn from_bytes(b: &[u8]) -> Self;
    fn to_bytes(self) -> Vec<u8>;
}
impl Stor for vec128_storage {
    const N: usize = 16;
    fn from_bytes(b: &[u8]) -> Self {
        let mut w = [0u32; 4];
        for i in 0..4 {
            w[i] = u32::from_le_bytes([b[4 * i], b[4 * i + 1], b[4 * i + 2], b[4 * i + 3]]);
        }
        w.into()
    }
    fn to_bytes(self) -> Vec<u8> {
        let w: [u32; 4] = self.into();
        w.iter().flat_map(|x| x.to_le_bytes()).collect()
    }
}
impl Stor for vec256_storage {
    const N: usize = 32;
    fn from_bytes(b: &[u8]) -> Self {
        vec256_storage::new128([vec128_storage::from_bytes(&b[..16]), vec128_storage::from_bytes(&b[16..])])
    }
    fn to_bytes(self) -> Vec<u8> {
        self.split128().iter().flat_map(|x| x.to_bytes()).collect()
    }
}
impl Stor for vec512_storage {
    const N: usize = 64;
    fn from_bytes(b: &[u8]) -> Self {
        vec512_storage::new128([
            vec128_storage::from_bytes(&b[..16]),
            vec128_storage::from_bytes(&b[16..32]),
            vec128_storage::from_bytes(&b[32..48]),
            vec128_storage::from_bytes(&b[48..]),
        ])
    }
    fn to_bytes(self) -> Vec<u8> {
        self.split128().iter().flat_map(|x| x.to_bytes()).collect()
    }
}

/// `len = None`: the slice has the vector's size.
fn sb<S: Stor, V: StoreBytes + Store<S> + Into<S>>(op: &str, len: Option<usize>, seed: u64, place: Place, align: usize) -> String {
    let l = len.unwrap_or(S::N);
    let Some(mut g) = Guarded::new(l, place, align) else {
        return NOMAP.into();
    };
    match op {
        "read_le" | "read_be" => {
            let input = pat_bytes(seed, l);
            g.fill(&input);
            let r = guard(|| {
                let v: V = unsafe {
                    if op == "read_le" {
                        V::unsafe_read_le(g.slice())
                    } else {
                        V::unsafe_read_be(g.slice())
                    }
                };
                let s: S = v.into();
                hex_nodash(&s.to_bytes())
            });
            r.unwrap_or_else(|| "panic".into()) + suffix(&g, Some(&input))
        }
        "write_le" | "write_be" => {
            let v: V = unsafe { V::unpack(S::from_bytes(&pat_bytes(seed, S::N))) };
            let r = guard(|| {
                if op == "write_le" {
                    v.write_le(g.slice_mut())
                } else {
                    v.write_be(g.slice_mut())
                }
            });
            let s = match r {
                Some(()) => hex_nodash(g.slice()),
                None => "panic".to_string(),
            };
            s + suffix(&g, None)
        }
        _ => BAD.into(),
    }
}

type S1 = vec128_storage;
type S2 = vec256_storage;
type S4 = vec512_storage;

macro_rules! machine_sb {
    ($fname:ident, $M:ty, $with128:tt) => {
        fn $fname(ty: &str, op: &str, len: Option<usize>, seed: u64, place: Place, align: usize) -> String {
            type M = $M;
            macro_rules! go {
                ($S:ty, $V:ident) => {
                    sb::<$S, <M as Machine>::$V>(op, len, seed, place, align)
                };
            }
            macro_rules! go128 {
                (true, $S:ty, $V:ident) => {
                    go!($S, $V)
                };
                (false, $S:ty, $V:ident) => {
                    "unsupported".to_string()
                };
            }
            match ty {
                "u32x4" => go!(S1, u32x4),
                "u64x2" => go!(S1, u64x2),
                "u128x1" => go128!($with128, S1, u128x1),
                "u32x4x2" => go!(S2, u32x4x2),
                "u64x2x2" => go!(S2, u64x2x2),
                "u64x4" => go!(S2, u64x4),
                "u128x2" => go128!($with128, S2, u128x2),
                "u32x4x4" => go!(S4, u32x4x4),
                "u64x2x4" => go!(S4, u64x2x4),
                "u128x4" => go128!($with128, S4, u128x4),
                _ => BAD.into(),
            }
        }
    };
}

#[cfg(not(feature = "no_simd"))]
mod mach {
    use super::*;
    use ppv_lite86::x86_64::{AVX, AVX2, SSE2, SSE41, SSSE3};
    machine_sb!(run_sse2, SSE2, true);
    machine_sb!(run_ssse3, SSSE3, true);
    machine_sb!(run_sse41, SSE41, true);
    machine_sb!(run_avx, AVX, true);
    machine_sb!(run_avx2, AVX2, true);
    pub fn run(backend: &str, ty: &str, op: &str, len: Option<usize>, seed: u64, place: Place, align: usize) -> String {
        match backend {
            "sse2" => run_sse2(ty, op, len, seed, place, align),
            "ssse3" => run_ssse3(ty, op, len, seed, place, align),
            "sse41" => run_sse41(ty, op, len, seed, place, align),
            "avx" => run_avx(ty, op, len, seed, place, align),
            "avx2" => run_avx2(ty, op, len, seed, place, align),
            "generic" => "unsupported".into(),
            _ => BAD.into(),
        }
    }
}
#[cfg(feature = "no_simd")]
mod mach {
    use super::*;
    use ppv_lite86::generic::GenericMachine;
    machine_sb!(run_generic, GenericMachine, false);
    pub fn run(backend: &str, ty: &str, op: &str, len: Option<usize>, seed: u64, place: Place, align: usize) -> String {
        match backend {
            "generic" => run_generic(ty, op, len, seed, place, align),
            "sse2" | "ssse3" | "sse41" | "avx" | "avx2" => "unsupported".into(),
            _ => BAD.into(),
        }
    }
}

fn known_type(ty: &str) -> bool {
    matches!(
        ty,
        "u32x4" | "u64x2" | "u128x1" | "u32x4x2" | "u64x2x2" | "u64x4" | "u128x2" | "u32x4x4" | "u64x2x4" | "u128x4"
    )
}

// ------------------------------------------------------------------ dispatch

pub fn step(toks: &[&str]) -> String {
    let num = |s: &str| s.parse::<u64>().ok();
    match toks {
        ["mem", "chacha", variant, key, nonce, pos, len, seed, place, align] => {
            let (Some(k), Some(n), Some(p), Some(l), Some(sd), Some((pl, al))) =
                (unhex(key), unhex(nonce), num(pos), num(len), num(seed), parse_place(place, align))
            else {
                return BAD.into();
            };
            chacha(variant, &k, &n, p, l as usize, sd, pl, al)
        }
        ["mem", "hash", family, variant, len, seed, place, align] => {
            let (Some(l), Some(sd), Some((pl, al))) = (num(len), num(seed), parse_place(place, align)) else {
                return BAD.into();
            };
            hash(family, variant, l as usize, sd, pl, al)
        }
        ["mem", "tf", size, dir, key, t0, t1, seed, place, align] => {
            let (Some(k), Some(a), Some(b), Some(sd), Some((pl, al))) =
                (unhex(key), num(t0), num(t1), num(seed), parse_place(place, align))
            else {
                return BAD.into();
            };
            tf(size, dir, &k, a, b, sd, pl, al)
        }
        ["mem", "simd", backend, ty, op, seed, place, align] => {
            let (Some(sd), Some((pl, al))) = (num(seed), parse_place(place, align)) else {
                return BAD.into();
            };
            if !known_type(ty) || !matches!(*op, "read_le" | "read_be" | "write_le" | "write_be") {
                return BAD.into();
            }
            mach::run(backend, ty, op, None, sd, pl, al)
        }
        ["mem", "simdlen", backend, ty, op, len, seed, place, align] => {
            let (Some(l), Some(sd), Some((pl, al))) = (num(len), num(seed), parse_place(place, align)) else {
                return BAD.into();
            };
            if !known_type(ty) || !matches!(*op, "read_le" | "read_be" | "write_le" | "write_be") {
                return BAD.into();
            }
            mach::run(backend, ty, op, Some(l as usize), sd, pl, al)
        }
        // guard-page self-test: read one byte at `offset` (relative to the slice start; may be
        // negative or ≥ len).  Inside the mapping: prints the byte; outside: the process dies.
        ["mem", "probe", len, place, align, offset] => {
            let (Some(l), Some((pl, al)), Ok(off)) = (num(len), parse_place(place, align), offset.parse::<isize>()) else {
                return BAD.into();
            };
            let Some(mut g) = Guarded::new(l as usize, pl, al) else {
                return NOMAP.into();
            };
            g.fill(&pat_bytes(1, l as usize));
            format!("{}", unsafe { g.peek(off) })
        }
        _ => BAD.into(),
    }
}
