//! `groestl …` operations on the real `groestl_aesni` types (digest 0.9 traits + verification hooks).
use crate::util::*;
use digest::{FixedOutput, Reset, Update};
use groestl_aesni::{Groestl224, Groestl256, Groestl384, Groestl512};
use std::collections::HashMap;

#[derive(Clone)]
pub enum Any {
    G224(Groestl224),
    G256(Groestl256),
    G384(Groestl384),
    G512(Groestl512),
}

macro_rules! with {
    ($any:expr, $h:ident, $e:expr) => {
        match $any {
            Any::G224($h) => $e,
            Any::G256($h) => $e,
            Any::G384($h) => $e,
            Any::G512($h) => $e,
        }
    };
}

#[derive(Default)]
pub struct St {
    pub hs: HashMap<u64, Any>,
}

fn new_any(bits: &str) -> Option<Any> {
    Some(match bits {
        "224" => Any::G224(Groestl224::default()),
        "256" => Any::G256(Groestl256::default()),
        "384" => Any::G384(Groestl384::default()),
        "512" => Any::G512(Groestl512::default()),
        _ => return None,
    })
}

fn update(any: &mut Any, data: &[u8]) -> String {
    match guard(|| with!(any, h, Update::update(h, data))) {
        Some(()) => "ok".into(),
        None => "panic".into(),
    }
}

pub fn step(st: &mut St, toks: &[&str]) -> String {
    let num = |s: &str| s.parse::<u64>().ok();
    match toks {
        ["groestl", "new", slot, bits] => {
            let Some(s) = num(slot) else {
                return "bad-op".into();
            };
            match guard(|| new_any(bits)) {
                Some(Some(h)) => {
                    st.hs.insert(s, h);
                    "ok".into()
                }
                Some(None) => "bad-op".into(),
                None => "panic".into(),
            }
        }
        ["groestl", "update", slot, data] => {
            let Some(d) = unhex(data) else {
                return "bad-op".into();
            };
            let Some(h) = num(slot).and_then(|s| st.hs.get_mut(&s)) else {
                return "bad-op".into();
            };
            update(h, &d)
        }
        // C17: the same bytes (byte i = pat_byte(seed, i mod BIG_PERIOD)) in ONE `update` call (`bigupd`) or
        // in 1 MiB calls (`stream`)
        ["groestl", op @ ("bigupd" | "stream"), slot, nbytes, seed] => {
            let (Some(n), Some(sd)) = (num(nbytes), num(seed)) else {
                return "bad-op".into();
            };
            let Some(h) = num(slot).and_then(|s| st.hs.get_mut(&s)) else {
                return "bad-op".into();
            };
            let chunk = pat_bytes(sd, crate::util::BIG_PERIOD);
            if *op == "bigupd" {
                let mut big = Vec::with_capacity(n as usize);
                while big.len() < n as usize {
                    let k = (n as usize - big.len()).min(chunk.len());
                    big.extend_from_slice(&chunk[..k]);
                }
                update(h, &big)
            } else {
                let mut left = n as usize;
                while left > 0 {
                    let k = left.min(chunk.len());
                    if update(h, &chunk[..k]) != "ok" {
                        return "panic".into();
                    }
                    left -= k;
                }
                "ok".into()
            }
        }
        ["groestl", "updpat", slot, len, seed] => {
            let (Some(l), Some(sd)) = (num(len), num(seed)) else {
                return "bad-op".into();
            };
            let Some(h) = num(slot).and_then(|s| st.hs.get_mut(&s)) else {
                return "bad-op".into();
            };
            update(h, &pat_bytes(sd, l as usize))
        }
        ["groestl", "clone", a, b] => {
            let (Some(a), Some(b)) = (num(a), num(b)) else {
                return "bad-op".into();
            };
            match st.hs.get(&a).cloned() {
                Some(h) => {
                    st.hs.insert(b, h);
                    "ok".into()
                }
                None => "bad-op".into(),
            }
        }
        ["groestl", "reset", slot] => {
            let Some(h) = num(slot).and_then(|s| st.hs.get_mut(&s)) else {
                return "bad-op".into();
            };
            match guard(|| with!(h, x, Reset::reset(x))) {
                Some(()) => "ok".into(),
                None => "panic".into(),
            }
        }
        ["groestl", op @ ("finreset" | "finreset2"), slot] => {
            let Some(h) = num(slot).and_then(|s| st.hs.get_mut(&s)) else {
                return "bad-op".into();
            };
            match guard(|| with!(h, x, if *op == "finreset" {
                x.finalize_fixed_reset().to_vec()
            } else {
                digest::Digest::finalize_reset(x).to_vec()
            })) {
                Some(v) => hex_nodash(&v),
                None => "panic".into(),
            }
        }
        ["groestl", "fin", slot] => {
            let Some(h) = num(slot).and_then(|s| st.hs.get(&s)) else {
                return "bad-op".into();
            };
            let c = h.clone();
            match guard(move || with!(c, x, x.finalize_fixed().to_vec())) {
                Some(v) => hex_nodash(&v),
                None => "panic".into(),
            }
        }
        ["groestl", "setctr", slot, v] => {
            let Some(v) = num(v) else {
                return "bad-op".into();
            };
            let Some(h) = num(slot).and_then(|s| st.hs.get_mut(&s)) else {
                return "bad-op".into();
            };
            with!(h, x, x.verif_set_counter(v));
            "ok".into()
        }
        ["groestl", "getctr", slot] => {
            let Some(h) = num(slot).and_then(|s| st.hs.get(&s)) else {
                return "bad-op".into();
            };
            format!("{}", with!(h, x, x.verif_get_counter()))
        }
        ["groestl", "spec", bits, data] => {
            // the real one-shot digest, to be compared with the specification's value
            let Some(d) = unhex(data) else {
                return "bad-op".into();
            };
            match guard(|| {
                new_any(bits).map(|mut h| {
                    with!(&mut h, x, Update::update(x, &d[..]));
                    with!(h, x, x.finalize_fixed().to_vec())
                })
            }) {
                Some(Some(v)) => hex_nodash(&v),
                Some(None) => "bad-op".into(),
                None => "panic".into(),
            }
        }
        _ => "bad-op".into(),
    }
}
