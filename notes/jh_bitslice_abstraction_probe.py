import re, random, sys
sys.path.insert(0, __import__('os').path.dirname(__file__))
import jh_spec_probe as J
src=open('/repo/hashes/jh/src/compressor.rs').read()
RC=[bytes.fromhex(h) for h in re.findall(r'hex!\("([0-9a-f]{64})"\)', src)]
assert len(RC)==42
M=(1<<128)-1
def swapn(x,n):
    masks={1:0x55555555555555555555555555555555,2:0x33333333333333333333333333333333,4:0x0f0f0f0f0f0f0f0f0f0f0f0f0f0f0f0f,
           8:0x00ff00ff00ff00ff00ff00ff00ff00ff,16:0x0000ffff0000ffff0000ffff0000ffff,32:0x00000000ffffffff00000000ffffffff,64:(1<<64)-1}
    m=masks[n]; return ((x&m)<<n | (x>>n)&m)&M
def ss(y,k0,k1):
    # y: 8 words; lanes: even words use k0, odd words use k1
    out=list(y)
    for lane,k in ((0,k0),(1,k1)):
        m0,m1,m2,m3=y[0+lane],y[2+lane],y[4+lane],y[6+lane]
        m3^=M
        m0^=(~m2&M)&k
        k^=m0&m1
        m0^=m3&m2
        m3^=(~m1&M)&m2
        m1^=m0&m2
        m2^=(~m3&M)&m0
        m0^=m1|m3
        m3^=m1&m2
        m2^=k
        m1^=k&m0
        out[0+lane],out[2+lane],out[4+lane],out[6+lane]=m0,m1,m2,m3
    return out
def l(y):
    y=list(y)
    y[1]^=y[2]; y[3]^=y[4]; y[5]^=y[6]^y[0]; y[7]^=y[0]
    y[0]^=y[3]; y[2]^=y[5]; y[4]^=y[7]^y[1]; y[6]^=y[1]
    return y
def le(b): return int.from_bytes(b,'little')
def impl_rounds(state_bytes, trace=None):
    y=[le(state_bytes[16*i:16*i+16]) for i in range(8)]
    for r in range(42):
        if trace is not None: trace.append(list(y))
        y=ss(y,le(RC[r][:16]),le(RC[r][16:]))
        y=l(y)
        n=1<<(r%7)
        y=[y[0],swapn(y[1],n),y[2],swapn(y[3],n),y[4],swapn(y[5],n),y[6],swapn(y[7],n)]
    if trace is not None: trace.append(list(y))
    return b''.join(x.to_bytes(16,'little') for x in y)
def rotl7(i,r): r%=7; return ((i<<r)|(i>>(7-r)))&127
def abs_r(y,r):
    # spec nibble (2i+p): bits from words p, 2+p, 4+p, 6+p (MSB first) at slot rotl7^r(i); bit position = slot^7
    q=[0]*256
    for i in range(128):
        pos=rotl7(i,r)^7
        for p in (0,1):
            q[2*i+p]=(((y[0+p]>>pos)&1)<<3)|(((y[2+p]>>pos)&1)<<2)|(((y[4+p]>>pos)&1)<<1)|((y[6+p]>>pos)&1)
    return q
random.seed(1)
ok=True
for trial in range(3):
    st=bytes(random.randrange(256) for _ in range(128))
    tr=[]; out=impl_rounds(st,tr)
    A=J.bytes2bits(st)
    q=[0]*256
    for i in range(128):
        q[2*i]=(A[i]<<3)|(A[i+256]<<2)|(A[i+512]<<1)|A[i+768]
        q[2*i+1]=(A[i+128]<<3)|(A[i+384]<<2)|(A[i+640]<<1)|A[i+896]
    for r in range(43):
        if abs_r(tr[r],r)!=q: ok=False; print('abs mismatch at round',r); break
        if r<42: q=J.R(q,J.cbits(J.CS[r]))
    # final
    assert J.bits2bytes(J.E8(A))==out or print('E8 mismatch')
print('round-refinement abstraction holds:',ok)
# constants: bitslice constant = spec C_r placed through the same abstraction
okc=True
for r in range(42):
    cb=J.cbits(J.CS[r])   # 256 bits, bit j selects sbox for nibble j
    k0,k1=le(RC[r][:16]),le(RC[r][16:])
    for i in range(128):
        pos=rotl7(i,r)^7
        if ((k0>>pos)&1)!=cb[2*i] or ((k1>>pos)&1)!=cb[2*i+1]: okc=False
print('bitslice constants = permuted spec constants:',okc)
