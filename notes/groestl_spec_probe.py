def xt(b): return ((b<<1)^(0x1b if b&0x80 else 0))&0xff
def gmul(a,b):
    r=0
    while b:
        if b&1: r^=a
        a=xt(a); b>>=1
    return r
def inv(a):
    if a==0: return 0
    for b in range(1,256):
        if gmul(a,b)==1: return b
def rotl8(x,n): return ((x<<n)|(x>>(8-n)))&0xff
SB=[]
for a in range(256):
    b=inv(a); SB.append(b^rotl8(b,1)^rotl8(b,2)^rotl8(b,3)^rotl8(b,4)^0x63)
def perm(x, cols, q, rounds):
    # x: matrix [row][col]
    shiftP=[0,1,2,3,4,5,6,7] if cols==8 else [0,1,2,3,4,5,6,11]
    shiftQ=[1,3,5,7,0,2,4,6] if cols==8 else [1,3,5,11,0,2,4,6]
    for r in range(rounds):
        if not q:
            for j in range(cols): x[0][j]^=(j<<4)^r
        else:
            for i in range(8):
                for j in range(cols): x[i][j]^=0xff
            for j in range(cols): x[7][j]^=(j<<4)^r
        x=[[SB[b] for b in row] for row in x]
        sh=shiftQ if q else shiftP
        x=[[x[i][(j+sh[i])%cols] for j in range(cols)] for i in range(8)]
        B=[2,2,3,4,5,3,5,7]
        y=[[0]*cols for _ in range(8)]
        for j in range(cols):
            for i in range(8):
                v=0
                for k in range(8): v^=gmul(B[(k-i)%8], x[k][j])
                y[i][j]=v
        x=y
    return x
def tomat(bs, cols): return [[bs[j*8+i] for j in range(cols)] for i in range(8)]
def frommat(x, cols): return bytes(x[i][j] for j in range(cols) for i in range(8))
def xor(a,b): return bytes(p^q for p,q in zip(a,b))
def groestl(msg, n):
    l=64 if n<=256 else 128; cols=l//8; rounds=10 if l==64 else 14
    blocks=(len(msg)+9+l-1)//l
    m=msg+b'\x80'+bytes(blocks*l-len(msg)-9)+blocks.to_bytes(8,'big')
    h=bytes(l-2)+n.to_bytes(2,'big')
    for i in range(0,len(m),l):
        b=m[i:i+l]
        p=frommat(perm(tomat(xor(h,b),cols),cols,False,rounds),cols)
        q=frommat(perm(tomat(b,cols),cols,True,rounds),cols)
        h=xor(xor(p,q),h)
    o=xor(frommat(perm(tomat(h,cols),cols,False,rounds),cols),h)
    return o[l-n//8:].hex()
print(groestl(b'',256)); print('1a52d11d550039be16107f9c58db9ebcc417f16f736adb2502567119f0083467')
print(groestl(b'',512)[:32]); print('6d3ad29d279110eef3adbd66de2a0345')
