import sys, struct
sys.path.insert(0, __import__('os').path.dirname(__file__))
# ---------- BLAKE ----------
SIGMA=[[0,1,2,3,4,5,6,7,8,9,10,11,12,13,14,15],[14,10,4,8,9,15,13,6,1,12,0,2,11,7,5,3],[11,8,12,0,5,2,15,13,10,14,3,6,7,1,9,4],[7,9,3,1,13,12,11,14,2,6,5,10,4,0,15,8],[9,0,5,7,2,4,10,15,14,1,11,12,6,8,3,13],[2,12,6,10,0,11,8,3,4,13,7,5,15,14,1,9],[12,5,1,15,14,13,4,10,0,7,6,3,9,2,8,11],[13,11,7,14,12,1,3,9,5,0,15,4,8,6,2,10],[6,15,14,9,11,3,0,8,12,2,13,7,1,4,10,5],[10,2,8,4,7,6,1,5,15,11,9,14,3,12,13,0]]
C32=[0x243F6A88,0x85A308D3,0x13198A2E,0x03707344,0xA4093822,0x299F31D0,0x082EFA98,0xEC4E6C89,0x452821E6,0x38D01377,0xBE5466CF,0x34E90C6C,0xC0AC29B7,0xC97C50DD,0x3F84D5B5,0xB5470917]
C64=[0x243F6A8885A308D3,0x13198A2E03707344,0xA4093822299F31D0,0x082EFA98EC4E6C89,0x452821E638D01377,0xBE5466CF34E90C6C,0xC0AC29B7C97C50DD,0x3F84D5B5B5470917,0x9216D5D98979FB1B,0xD1310BA698DFB5AC,0x2FFD72DBD01ADFB7,0xB8E1AFED6A267E96,0xBA7C9045F12C7F99,0x24A19947B3916CF7,0x0801F2E2858EFC16,0x636920D871574E69]
IV={224:[0xC1059ED8,0x367CD507,0x3070DD17,0xF70E5939,0xFFC00B31,0x68581511,0x64F98FA7,0xBEFA4FA4],
256:[0x6A09E667,0xBB67AE85,0x3C6EF372,0xA54FF53A,0x510E527F,0x9B05688C,0x1F83D9AB,0x5BE0CD19],
384:[0xCBBB9D5DC1059ED8,0x629A292A367CD507,0x9159015A3070DD17,0x152FECD8F70E5939,0x67332667FFC00B31,0x8EB44A8768581511,0xDB0C2E0D64F98FA7,0x47B5481DBEFA4FA4],
512:[0x6A09E667F3BCC908,0xBB67AE8584CAA73B,0x3C6EF372FE94F82B,0xA54FF53A5F1D36F1,0x510E527FADE682D1,0x9B05688C2B3E6C1F,0x1F83D9ABFB41BD6B,0x5BE0CD19137E2179]}
def blake(msg,n):
    big=n>256; W=64 if big else 32; M=(1<<W)-1; C=C64 if big else C32; R=16 if big else 14
    rot=(32,25,16,11) if big else (16,12,8,7); bs=128 if big else 64; lb=16 if big else 8
    def rr(x,k): return ((x>>k)|(x<<(W-k)))&M
    h=list(IV[n]); l=len(msg)*8
    # padding
    m=msg+b'\x80'
    while (len(m)%bs)!=(bs-lb): m+=b'\0'
    if n in(256,512): m=m[:-1]+bytes([m[-1]|1])
    m+=l.to_bytes(lb,'big')
    nb=len(m)//bs
    for i in range(nb):
        blk=m[i*bs:(i+1)*bs]
        t=min(l,(i+1)*bs*8)
        if i*bs*8>=l and not (l==0 and False): 
            # block with no message bits
            if i*bs*8>=l: t=0
        w=[int.from_bytes(blk[j*(W//8):(j+1)*(W//8)],'big') for j in range(16)]
        v=h+[C[j] for j in range(8)]
        t0=t&M; t1=(t>>W)&M
        v[12]^=t0; v[13]^=t0; v[14]^=t1; v[15]^=t1
        def G(a,b,c,d,r,i2):
            s=SIGMA[r%10]
            v[a]=(v[a]+v[b]+(w[s[2*i2]]^C[s[2*i2+1]]))&M; v[d]=rr(v[d]^v[a],rot[0])
            v[c]=(v[c]+v[d])&M; v[b]=rr(v[b]^v[c],rot[1])
            v[a]=(v[a]+v[b]+(w[s[2*i2+1]]^C[s[2*i2]]))&M; v[d]=rr(v[d]^v[a],rot[2])
            v[c]=(v[c]+v[d])&M; v[b]=rr(v[b]^v[c],rot[3])
        for r in range(R):
            G(0,4,8,12,r,0);G(1,5,9,13,r,1);G(2,6,10,14,r,2);G(3,7,11,15,r,3)
            G(0,5,10,15,r,4);G(1,6,11,12,r,5);G(2,7,8,13,r,6);G(3,4,9,14,r,7)
        h=[h[j]^v[j]^v[j+8] for j in range(8)]
    out=b''.join(x.to_bytes(W//8,'big') for x in h)
    return out[:n//8].hex()
# ---------- Threefish / Skein ----------
M64=(1<<64)-1
ROT={4:[[14,16],[52,57],[23,40],[5,37],[25,33],[46,12],[58,22],[32,32]],
8:[[46,36,19,37],[33,27,14,42],[17,49,36,39],[44,9,54,56],[39,30,34,24],[13,50,10,17],[25,29,39,43],[8,35,56,22]],
16:[[24,13,8,47,8,17,22,37],[38,19,10,55,49,18,23,52],[33,4,51,13,34,41,59,17],[5,20,48,41,47,28,16,25],[41,9,37,31,12,47,44,30],[16,34,56,51,4,53,42,41],[31,44,47,46,19,42,44,25],[9,48,35,52,23,31,37,20]]}
PI={4:[0,3,2,1],8:[2,1,4,7,6,5,0,3],16:[0,9,2,13,6,11,4,15,10,7,12,3,14,5,8,1]}
def rl(x,k): return ((x<<k)|(x>>(64-k)))&M64
def threefish(key,tw,blk):
    nw=len(key); nr=80 if nw==16 else 72
    k=list(key)+[0x1BD11BDAA9FC1A22]
    for x in key: k[nw]^=x
    t=[tw[0],tw[1],tw[0]^tw[1]]
    def sk(s):
        r=[k[(s+i)%(nw+1)] for i in range(nw)]
        r[nw-3]=(r[nw-3]+t[s%3])&M64; r[nw-2]=(r[nw-2]+t[(s+1)%3])&M64; r[nw-1]=(r[nw-1]+s)&M64
        return r
    v=list(blk)
    for d in range(nr):
        if d%4==0:
            s=sk(d//4); v=[(v[i]+s[i])&M64 for i in range(nw)]
        f=[0]*nw
        for j in range(nw//2):
            y0=(v[2*j]+v[2*j+1])&M64; y1=rl(v[2*j+1],ROT[nw][d%8][j])^y0
            f[2*j]=y0; f[2*j+1]=y1
        v=[f[PI[nw][i]] for i in range(nw)]
    s=sk(nr//4)
    return [(v[i]+s[i])&M64 for i in range(nw)]
def ubi(g,msg,ttype,nb):
    # g: list of words; msg bytes; returns words
    nw=nb//8
    blocks=[msg[i:i+nb] for i in range(0,len(msg),nb)] or [b'']
    pos=0
    for i,b in enumerate(blocks):
        pos+=len(b)
        t1=(ttype<<56)
        if i==0: t1|=1<<62
        if i==len(blocks)-1: t1|=1<<63
        bb=b+bytes(nb-len(b))
        w=list(struct.unpack('<%dQ'%nw,bb))
        e=threefish(g,[pos&M64,t1|(pos>>64)],w)
        g=[e[j]^w[j] for j in range(nw)]
    return g
def skein(msg,nb,nout):
    nw=nb//8
    cfg=b'SHA3'+struct.pack('<HH',1,0)+struct.pack('<Q',nout*8)+bytes(16)
    g=ubi([0]*nw,cfg,4,nb)
    g=ubi(g,msg,48,nb)
    out=b''; i=0
    while len(out)<nout:
        o=ubi(g,struct.pack('<Q',i),63,nb); out+=struct.pack('<%dQ'%nw,*o); i+=1
    return out[:nout].hex()
import jh_spec_probe as J
import groestl_spec_probe as Gr
def msg(n): return bytes(((i*7+3)%256) for i in range(n))
bad=0; cnt=0
import collections
per=collections.Counter()
for line in open('/tmp/scratch/digests.txt'):
    name,n,d=line.split(); n=int(n); m=msg(n)
    if name.startswith('blake'): ref=blake(m,int(name[5:]))
    elif name.startswith('skein'):
        a,b=name[5:].split('-'); ref=skein(m,int(a)//8,int(b))
    elif name.startswith('jh'): ref=J.jh(m,int(name[2:]))[0]
    elif name.startswith('groestl'):
        if n>400 and False: continue
        ref=Gr.groestl(m,int(name[7:]))
    cnt+=1; per[name]+=1
    if ref!=d:
        bad+=1
        if bad<10: print('MISMATCH',name,n,d[:16],ref[:16])
print('checked',cnt,'bad',bad, dict(per))
