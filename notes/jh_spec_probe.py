S=[[9,0,4,11,13,12,3,15,1,10,2,6,7,5,8,14],[3,12,6,13,5,7,1,9,15,2,0,4,11,10,14,8]]
def mul2(a): # a0 MSB
    a0,a1,a2,a3=(a>>3)&1,(a>>2)&1,(a>>1)&1,a&1
    return (a1<<3)|(a2<<2)|((a0^a3)<<1)|a0
def L(a,b):
    d=b^mul2(a); c=a^mul2(d); return c,d
def pi(a):
    b=list(a)
    for i in range(len(a)//4):
        b[4*i+2]=a[4*i+3]; b[4*i+3]=a[4*i+2]
    return b
def Pp(a):
    n=len(a); b=[0]*n
    for i in range(n//2):
        b[i]=a[2*i]; b[i+n//2]=a[2*i+1]
    return b
def phi(a):
    n=len(a); b=list(a)
    for i in range(n//4, n//2):
        b[2*i]=a[2*i+1]; b[2*i+1]=a[2*i]
    return b
def P(a): return phi(Pp(pi(a)))
def bits_of(n, nb): return [(n>>(nb-1-i))&1 for i in range(nb)]
def R(a, cbits):
    n=len(a)
    v=[S[cbits[i]][a[i]] for i in range(n)]
    w=[0]*n
    for i in range(n//2):
        w[2*i],w[2*i+1]=L(v[2*i],v[2*i+1])
    return P(w)
C0=0x6a09e667f3bcc908b2fb1366ea957d3e3adec17512775099da2f590b0667322a
def consts():
    cs=[]; c=[(C0>>(4*(63-i)))&15 for i in range(64)]
    for r in range(42):
        cs.append(c)
        c=R(c,[0]*64)
    return cs
CS=consts()
def cbits(c): 
    out=[]
    for nib in c: out+=bits_of(nib,4)
    return out
def E8(A): # A list of 1024 bits
    q=[0]*256
    for i in range(128):
        q[2*i]=(A[i]<<3)|(A[i+256]<<2)|(A[i+512]<<1)|A[i+768]
        q[2*i+1]=(A[i+128]<<3)|(A[i+384]<<2)|(A[i+640]<<1)|A[i+896]
    for r in range(42):
        q=R(q,cbits(CS[r]))
    B=[0]*1024
    for i in range(128):
        B[i],B[i+256],B[i+512],B[i+768]=bits_of(q[2*i],4)
        B[i+128],B[i+384],B[i+640],B[i+896]=bits_of(q[2*i+1],4)
    return B
def bytes2bits(bs):
    out=[]
    for b in bs: out+=bits_of(b,8)
    return out
def bits2bytes(bits):
    return bytes(int(''.join(map(str,bits[i:i+8])),2) for i in range(0,len(bits),8))
def F8(H,M):
    A=[H[i]^M[i] if i<512 else H[i] for i in range(1024)]
    B=E8(A)
    return [B[i]^M[i-512] if i>=512 else B[i] for i in range(1024)]
def jh(msg, n):
    H=bytes2bits(n.to_bytes(2,'big')+bytes(126))
    H=F8(H,[0]*512)
    l=len(msg)*8
    if len(msg)%64==0: pad=b'\x80'+bytes(47)+l.to_bytes(16,'big')
    else: pad=b'\x80'+bytes(64-len(msg)%64-1)+bytes(48)+l.to_bytes(16,'big')
    m=msg+pad
    for i in range(0,len(m),64):
        H=F8(H,bytes2bits(m[i:i+64]))
    return bits2bytes(H)[128-n//8:].hex(), None
import sys
print(jh(b'',256)[0])
print('expect 46e64619c18bb0a92a5e87185a47eef83ca747b8fcc8e1412921357e326df434')
# H0 for 256 compare with repo const
H=bytes2bits((256).to_bytes(2,'big')+bytes(126)); H=F8(H,[0]*512); print(bits2bytes(H).hex()[:64])
print('repo JH256_H0 eb98a3412c20d3eb92cdbe7b9cb245c11c93519160d4c7fa260082d67e508a03')
