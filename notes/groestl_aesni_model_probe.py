# Python model of /repo/hashes/groestl/src/compressor.rs (512-bit variant) through x86 intrinsic semantics.
import random, sys
sys.path.insert(0, __import__('os').path.dirname(__file__))
import groestl_spec_probe as G
SB=G.SB
def B(x): return list(x.to_bytes(16,'little'))
def I(b): return int.from_bytes(bytes(b),'little')
def set_epi64x(hi,lo): return ((hi&(2**64-1))<<64)|(lo&(2**64-1))
def pshufb(a,m):
    a=B(a); m=B(m); return I([0 if m[i]&0x80 else a[m[i]&15] for i in range(16)])
def pshufd(a,imm):
    d=[(a>>(32*i))&0xffffffff for i in range(4)]
    return sum(d[(imm>>(2*i))&3]<<(32*i) for i in range(4))
def unpack(a,b,w,hi):
    n=128//w; A=[(a>>(w*i))&((1<<w)-1) for i in range(n)]; Bb=[(b>>(w*i))&((1<<w)-1) for i in range(n)]
    off=n//2 if hi else 0; out=[]
    for i in range(n//2): out+= [A[off+i],Bb[off+i]]
    return sum(v<<(w*i) for i,v in enumerate(out))
def aesenclast(a,k):
    s=B(a)
    # ShiftRows: state column-major: byte index = 4*col+row ; row r rotated left by r
    t=[0]*16
    for c in range(4):
        for r in range(4):
            t[4*c+r]=s[4*((c+r)%4)+r]
    t=[SB[x] for x in t]
    return I(t)^k
def mul2(x):
    b=B(x); return I([((v<<1)&0xff)^(0x1b if v&0x80 else 0) for v in b])
def xor8(a,b): return [x^y for x,y in zip(a,b)]
def rot(a,k): return a[k:]+a[:k]
def submix(a):
    a=[aesenclast(x,0) for x in a]
    t=xor8(a,rot(a,1))
    b=xor8(xor8(rot(a,2),rot(t,4)),rot(t,6))
    a=xor8(t,rot(t,3))
    a=xor8([mul2(x) for x in a],b)
    return xor8(b,[mul2(x) for x in rot(a,3)])
MASK_A=set_epi64x(0x0f070b030e060a02,0x0d0509010c040800)
def transpose_a(i):
    i=[pshufb(x,MASK_A) for x in i]
    z=[unpack(i[0],i[1],16,0),unpack(i[0],i[1],16,1),unpack(i[2],i[3],16,0),unpack(i[2],i[3],16,1)]
    z=[pshufd(x,0b11011000) for x in z]
    return [unpack(z[0],z[2],32,0),unpack(z[1],z[3],32,0),unpack(z[0],z[2],32,1),unpack(z[1],z[3],32,1)]
def transpose_b(i):
    return [unpack(i[0],i[4],64,0),unpack(i[0],i[4],64,1),unpack(i[1],i[5],64,0),unpack(i[1],i[5],64,1),
            unpack(i[2],i[6],64,0),unpack(i[2],i[6],64,1),unpack(i[3],i[7],64,0),unpack(i[3],i[7],64,1)]
def transpose_b_inv(i):
    return [unpack(i[0],i[1],64,0),unpack(i[2],i[3],64,0),unpack(i[4],i[5],64,0),unpack(i[6],i[7],64,0),
            unpack(i[0],i[1],64,1),unpack(i[2],i[3],64,1),unpack(i[4],i[5],64,1),unpack(i[6],i[7],64,1)]
def transpose_o_b(i):
    return [unpack(i[0],0,64,0),unpack(i[0],0,64,1),unpack(i[1],0,64,0),unpack(i[1],0,64,1),unpack(i[2],0,64,0),unpack(i[2],0,64,1),unpack(i[3],0,64,0),unpack(i[3],0,64,1)]
def transpose_o_b_inv(i):
    return [unpack(i[0],i[1],64,0),unpack(i[2],i[3],64,0),unpack(i[4],i[5],64,0),unpack(i[6],i[7],64,0)]
M64=2**64-1
RMASK=[set_epi64x(0x03060a0d08020509,0x0c0f0104070b0e00),set_epi64x(0x04070c0f0a03060b,0x0e090205000d0801),
 set_epi64x(0x05000e090c04070d,0x080b0306010f0a02),set_epi64x(0x0601080b0e05000f,0x0a0d040702090c03),
 set_epi64x(0x0702090c0f060108,0x0b0e0500030a0d04),set_epi64x(0x00030b0e0907020a,0x0d080601040c0f05),
 set_epi64x(0x01040d080b00030c,0x0f0a0702050e0906),set_epi64x(0x02050f0a0d01040e,0x090c000306080b07)]
def rnd(i,a):
    ff=M64
    l0=set_epi64x(ff,((i*0x0101010101010101)&M64)^0x7060504030201000)
    lx=set_epi64x(ff,0)
    l7=set_epi64x(((i*0x0101010101010101)&M64)^0x8f9fafbfcfdfefff,0)
    a=xor8(a,[l0,lx,lx,lx,lx,lx,lx,l7])
    a=[pshufb(x,m) for x,m in zip(a,RMASK)]
    return submix(a)
def rounds_p_q(p):
    for i in range(10): p=rnd(i,p)
    return p
def load(b): return [int.from_bytes(b[16*i:16*i+16],'little') for i in range(len(b)//16)]
def store(v): return b''.join(x.to_bytes(16,'little') for x in v)
def init512(cv): return transpose_a(cv)
def tf512(cv,data):
    y=transpose_a(load(data))
    x=xor8(cv,y)
    p=transpose_b(x+y)
    p=rounds_p_q(p)
    p=transpose_b_inv(p)
    x=[p[0]^p[4],p[1]^p[5],p[2]^p[6],p[3]^p[7]]
    return xor8(cv,x)
def of512(cv):
    p=transpose_o_b(cv); p=rounds_p_q(p)
    p=xor8(cv,transpose_o_b_inv(p))
    t=transpose_a(p)
    return [cv[0],cv[1],t[2],t[3]]
def groestl256_impl(msg):
    l=64; blocks=(len(msg)+9+l-1)//l
    m=msg+b'\x80'+bytes(blocks*l-len(msg)-9)+blocks.to_bytes(8,'big')
    cv=init512(load(bytes(62)+(256).to_bytes(2,'big')))
    for i in range(0,len(m),l): cv=tf512(cv,m[i:i+l])
    return store(of512(cv))[32:].hex()
random.seed(2)
ok=True
for n in [0,1,55,56,64,100,200]:
    msg=bytes(random.randrange(256) for _ in range(n))
    if groestl256_impl(msg)!=G.groestl(msg,256): ok=False; print('mismatch',n)
print('python model of AES-NI groestl-256 == byte-matrix spec:',ok)
# representation: cv register k = rows 2k (low 64 bits) and 2k+1 (high 64 bits)?  byte j of a row = column j
h=bytes(range(64)); cv=init512(load(h)); mat=G.tomat(h,8)
rep_ok=all(list(cv[k].to_bytes(16,'little'))==mat[2*k]+mat[2*k+1] for k in range(4))
print('rep after transpose_a: register k = row 2k || row 2k+1 :',rep_ok)
if not rep_ok:
    for k in range(4): print(k, list(cv[k].to_bytes(16,'little')))
