"""tools/gens_simdeq.py — generators for the EQUALITY implementations of the vector library
(`simd <backend> <type> eq <a> <b>`, the compare intrinsics, `guts eqd`), installed into gens.GENS by the last line of
tools/gens.py:  C12 gets the compare intrinsics with CORRELATED operands, C13 every (backend, type) `eq`, C15 the
storage comparison `#[derive(PartialEq)]` of the ChaCha state rests on plus `guts eqd`.

Random operand pairs are (almost) never equal in any lane, so a comparison that folds the lanes wrongly — an `|` for the
`&` of the two halves, a byte shift of 4 instead of 8, `!= 0` for `== -1`, a wrong shuffle immediate, a sum or xor of lanes
compared instead of the lanes, only lane 0 compared — answers `false` on all of them, as the correct one does.  The pairs
below are the ones on which such slips show: equal; one bit in each lane in turn; lanes / halves / parts exchanged; the
same difference in two lanes; differences that cancel in a sum or in an xor of lanes; all-ones / zero lanes."""

EQ_INTRIN_SIGS = {"_mm_cmpeq_epi8": "vv", "_mm_cmpeq_epi16": "vv", "_mm_cmpeq_epi32": "vv", "_mm_cmpeq_epi64": "vv",
                  "_mm_movemask_epi8": "v"}
STORAGE = {"vec128_storage": 16, "vec256_storage": 32, "vec512_storage": 64}
# CC.Simd.veq: the (backend, type) pairs that have `==`
X86_EQ = ["u32x4", "u64x2", "u32x4x2", "u64x2x2", "u64x4"]
GENERIC_EQ = ["u32x4", "u64x2", "u128x1"]


def has_eq(b, t):
    if t in STORAGE:
        return True
    if b == "generic":
        return t in GENERIC_EQ
    return t in X86_EQ and not (b == "avx2" and t == "u32x4x2")


def _xor(a, b):
    return bytes(x ^ y for x, y in zip(a, b))


def _words(b, w):
    return [int.from_bytes(b[i:i + w], "little") for i in range(0, len(b), w)]


def _unwords(ws, w):
    return b"".join((x % (1 << (8 * w))).to_bytes(w, "little") for x in ws)


def eq_pairs(G, rng, nb, tier):
    """[(x, y, kind)] for operands of nb bytes (16, 32, 64)"""
    out = []
    parts = nb // 16
    bases = [rng.bytes(nb), bytes(nb), b"\xff" * nb, bytes(range(nb)), bytes([1, 0, 0, 0] * (nb // 4))]
    for x in bases:
        out.append((x, x, "equal"))
    # one bit of each 32-bit lane in turn (low, high, random bit), on random / all-ones / zero bases
    for x in bases[:3]:
        for lane in range(nb // 4):
            for bit in (0, 31, rng.below(32)):
                d = bytearray(nb)
                d[4 * lane + bit // 8] = 1 << (bit % 8)
                out.append((x, _xor(x, d), "one-bit-lane"))
    x = rng.bytes(nb)
    for w in (4, 8, 16, 32):
        if w >= nb:
            continue
        ws = _words(x, w)
        # lanes swapped / rotated; the value multiset (hence any sum / xor / product of lanes) is unchanged
        for i in range(len(ws)):
            for j in range(i + 1, len(ws)):
                if tier == "quick" and len(ws) > 4 and (i + j) % 3:
                    continue
                v = list(ws)
                v[i], v[j] = v[j], v[i]
                out.append((x, _unwords(v, w), "lanes-swapped-%d" % (8 * w)))
        out.append((x, _unwords(ws[1:] + ws[:1], w), "lanes-rotated-%d" % (8 * w)))
        # the same difference in two lanes (cancels in an xor of lanes); +m / -m (cancels in a sum of lanes)
        for m in (1, 1 << (8 * w - 1), (1 << (8 * w)) - 1, rng.below(1 << (8 * w)) | 1):
            for i in range(len(ws)):
                for j in range(i + 1, len(ws)):
                    if tier == "quick" and len(ws) > 4 and (i * 5 + j) % 4:
                        continue
                    v = list(ws)
                    v[i] ^= m
                    v[j] ^= m
                    out.append((x, _unwords(v, w), "same-diff-two-lanes-%d" % (8 * w)))
                    v = list(ws)
                    v[i] += m
                    v[j] -= m
                    out.append((x, _unwords(v, w), "sum-cancels-%d" % (8 * w)))
    # halves exchanged: inside every 128-bit part, and the parts themselves
    out.append((x, b"".join(x[16 * p + 8:16 * p + 16] + x[16 * p:16 * p + 8] for p in range(parts)), "halves-exchanged"))
    if parts > 1:
        out.append((x, x[nb // 2:] + x[:nb // 2], "halves-exchanged-wide"))
    # correlated differences of one 128-bit row (gens.correlated_row_diffs) in each part in turn and in all parts at once
    diffs = G["correlated_row_diffs"](rng)
    for k, d in enumerate(diffs):
        ps = range(parts) if (tier != "quick" or parts == 1) else [k % parts]
        for p in ps:
            dd = bytes(16 * p) + d + bytes(nb - 16 * p - 16)
            out.append((x, _xor(x, dd), "row-diff"))
        if parts > 1:
            out.append((x, _xor(x, d * parts), "row-diff-all-parts"))
    # all-ones against all-ones with one zero / one cleared lane (`== -1` against `!= 0`), zero against one set lane
    ones, zero = b"\xff" * nb, bytes(nb)
    for lane in range(nb // 4):
        d = bytearray(nb)
        d[4 * lane:4 * lane + 4] = b"\xff\xff\xff\xff"
        out.append((ones, _xor(ones, d), "ones-one-lane-cleared"))
        out.append((zero, bytes(d), "zero-one-lane-set"))
        out.append((bytes(d), bytes(d), "equal"))
    return out


def eq_lines(G, rng, tier, backends, types):
    ops, stats = [], {}
    for b in backends:
        for t in types:
            nb = STORAGE[t] if t in STORAGE else G["SIMD_TYPES"][t][0] // 8
            if not has_eq(b, t):
                x = rng.bytes(nb)
                ops.append("simd %s %s eq %s %s" % (b, t, x.hex(), x.hex()))       # both sides: unsupported
                continue
            for x, y, kind in eq_pairs(G, rng, nb, tier):
                ops.append("simd %s %s eq %s %s" % (b, t, x.hex(), y.hex()))
                if x != y:
                    ops.append("simd %s %s eq %s %s" % (b, t, y.hex(), x.hex()))
                stats[kind] = stats.get(kind, 0) + 1
    return ops, stats


def eq_intrin_lines(G, rng, tier):
    """the compare intrinsics on correlated pairs (the generic `intrin` sampler uses unrelated operands)"""
    out = []
    for x, y, kind in eq_pairs(G, rng, 16, tier):
        for name in ("_mm_cmpeq_epi8", "_mm_cmpeq_epi16", "_mm_cmpeq_epi32", "_mm_cmpeq_epi64"):
            out.append("intrin %s %s %s" % (name, x.hex(), y.hex()))
    for j in range(40 if tier == "quick" else 400):
        x = bytearray(rng.bytes(16))
        if j < 16:
            x = bytearray(16)
            x[j] = 0x80
        elif j < 32:
            x = bytearray(b"\x7f" * 16)
            x[j - 16] = 0xff
        out.append("intrin _mm_movemask_epi8 %s" % bytes(x).hex())
    return out


def install(G):
    G["INTRIN_SIGS"].update(EQ_INTRIN_SIGS)
    GENS = G["GENS"]
    old12, old13, old15 = GENS["C12"], GENS["C13"], GENS["C15"]

    def gen_C12(rng, tier, cfg):
        ops, stats = old12(rng, tier, cfg)
        if not cfg.startswith("nosimd"):
            ls = eq_intrin_lines(G, rng, tier)
            stats["intrin_eq_ops"] = len(ls)
            ops += ls
        return ops, stats

    def gen_C13(rng, tier, cfg):
        ops, stats = old13(rng, tier, cfg)
        ls, st = eq_lines(G, rng, tier, G["simd_backends"](cfg), list(G["SIMD_TYPES"]) + list(STORAGE))
        stats["eq_ops"] = len(ls)
        stats["eq_pair_kinds"] = st
        return ops + ls, stats

    def gen_C15(rng, tier, cfg):
        ops, stats = old15(rng, tier, cfg)
        out = []
        for o in ops:
            out.append(o)
            if o.startswith("guts eq64 "):
                out.append("guts eqd " + o[len("guts eq64 "):])       # the derived `PartialEq` of the state
                stats["derived_eq"] = stats.get("derived_eq", 0) + 1
        # the comparison `#[derive(PartialEq)]` on `ChaCha` / `State<V>` rests on: `vec128_storage == vec128_storage`
        # (and the `u32x4` of the machine, the `V` of the working state) on correlated pairs
        bs = G["simd_backends"](cfg)
        ls, st = eq_lines(G, rng, tier, bs if tier != "quick" else bs[:1] + bs[-1:] if len(bs) > 1 else bs,
                          ["vec128_storage", "u32x4"])
        stats["storage_eq_ops"] = len(ls)
        return out + ls, stats

    GENS.update({"C12": gen_C12, "C13": gen_C13, "C15": gen_C15})
