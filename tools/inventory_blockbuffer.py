#!/usr/bin/env python3
"""tools/inventory_blockbuffer.py — the translator tie for the THIRD-PARTY code the five hash families (and the
stream cipher front end) run through: `block-buffer` (`BlockBuffer::{input_block, input_lazy, digest_pad,
len64_padding_be, len64_padding_le, len128_padding_be, pad_with, size, position, remaining, reset}`, `set_zero`),
`block-padding` (`ZeroPadding::pad_block`, `Iso7816::pad_block`, `set`, reached through `pad_with::<P>`), and the
provided / blanket methods of `digest` (`FixedOutput`, `Digest`) and `cipher` (`StreamCipher`, `StreamCipherSeek`).

The crate sources are located from the versions PINNED in <repo>/Cargo.lock (`$CARGO_HOME/registry/src/*/<crate>-<version>`);
a pinned version whose source is not there is a translation error.  `crate_dirs={crate: directory}` overrides the
lookup (self-test on a scratch copy).

Method: the Rust is lexed / parsed with the parser of tools/inventory_kernels*.py (`P3`, extended here by `while`,
`unsafe { .. }` and `<T as Trait>::f(..)`), then every method is EXECUTED SYMBOLICALLY for a symbolic block size `b`,
buffer `buf`, cursor `pos`, input list and closure `f` (threaded through one accumulator `acc`).  The execution is
PATH-SENSITIVE: every `if` on a symbolic condition forks the run (the function is re-executed with the other decision),
an early `return` / `?` simply ends its path, and the set of paths is printed as a decision tree.  Whatever can panic
(`a - b` on usize, slice bounds, `copy_from_slice` length mismatch, `split_at`, `chunks_exact(0)`, `try_into().unwrap()`
of a slice whose length is not the block size, `buf[i]`) is a GUARD: the definition returns `Out` and the obligations
prove that no guard fires inside the struct invariant.  Values are terms over the parameters (locals are substituted,
`+` operands sorted, guards of one straight-line segment sorted and de-duplicated), so renamed locals, extra
temporaries, reordered independent statements and reformatting regenerate a byte-identical file, while a changed
comparison, offset, constant, dropped statement or byte order changes it.  Loops become ONE application of a prelude
combinator (`whileLoop` with fuel, `forChunks` over `chunksExact`) to the generated body.

Anything outside the reading table is a translation ERROR (the definition becomes a `String`, the message goes to
`blockbuffer_errors`, whose obligation is `= []`): never skipped silently.
"""
import glob
import os
import re
import sys

_HERE = os.path.dirname(os.path.abspath(__file__))
if _HERE not in sys.path:
    sys.path.insert(0, _HERE)
import inventory_kernels as K
from inventory_kernels import TErr, Tok, is_p, is_id, match_close, lex
import inventory_kernels_glue as G3

_LEAN = os.path.join(os.path.dirname(_HERE), "lean")
DEFAULT_OUT = os.path.join(_LEAN, "CC", "Gen", "BlockBufferSrc.lean")
CRATES = ("block-buffer", "block-padding", "digest", "cipher")
U64MAX = "18446744073709551616"


# =========================================================================== locating the crates

def locked_versions(repo, crate):
    path = os.path.join(repo, "Cargo.lock")
    if not os.path.exists(path):
        raise TErr("%s/Cargo.lock not found" % repo)
    txt = open(path, encoding="utf-8").read()
    return re.findall(r'\[\[package\]\]\s*\nname = "%s"\s*\nversion = "([^"]+)"' % re.escape(crate), txt)


def registry_roots():
    home = os.environ.get("CARGO_HOME") or os.path.join(os.path.expanduser("~"), ".cargo")
    return sorted(glob.glob(os.path.join(home, "registry", "src", "*")))


def crate_dir(repo, crate, crate_dirs=None):
    """(directory, version text) of the crate source the workspace is pinned to"""
    if crate_dirs and crate in crate_dirs:
        return crate_dirs[crate], "override"
    vs = locked_versions(repo, crate)
    if len(vs) != 1:
        raise TErr("Cargo.lock pins %d versions of %s (%s): exactly one expected" % (len(vs), crate, ", ".join(vs)))
    for root in registry_roots():
        d = os.path.join(root, "%s-%s" % (crate, vs[0]))
        if os.path.isdir(d):
            return d, vs[0]
    raise TErr("source of %s %s (pinned in Cargo.lock) is not in the cargo registry" % (crate, vs[0]))


# =========================================================================== parser

class P4(G3.P3):
    """P3 + `while c { .. }`, `unsafe { .. }`, `<T as Trait>::f(args)`"""

    def block(self):
        if not self.at_p("{"):
            raise TErr("`{` expected at `%s`" % self.ctx())
        e = match_close(self.t, self.i)
        q = P4(self.t, self.i + 1, e - 1)
        stmts, tail = q.block_body()
        self.i = e
        return ("block", stmts, tail)

    def primary(self):
        t = self.peek()
        if is_id(t, "unsafe") and self.at_p("{", 1):
            self.i += 1
            return ("unsafe", self.block())
        if is_p(t, "<"):
            # `<T as Trait>::name(args)`
            self.i += 1
            ty = self.type_()
            self.eat_id("as")
            tr = self.type_()
            self.eat_p(">")
            self.eat_p("::")
            name = self.eat_id()
            if not self.at_p("("):
                raise TErr("qualified path without a call at `%s`" % self.ctx())
            return ("qcall", ty, tr, name, self.args())
        return G3.P3.primary(self)

    def block_body(self):
        stmts, tail = [], None
        while not self.done():
            if self.at_p(";"):
                self.i += 1
                continue
            if self.at_p("#"):
                raise TErr("attribute inside a body at `%s`" % self.ctx())
            if self.at_id("let"):
                self.i += 1
                pat = self.pattern()
                ty = None
                if self.at_p(":"):
                    self.i += 1
                    ty = self.type_()
                e = None
                if self.at_p("="):
                    self.i += 1
                    e = self.expr()
                self.eat_p(";")
                stmts.append(("let", pat, ty, e))
                continue
            if self.at_id("while"):
                self.i += 1
                if self.at_id("let"):
                    raise TErr("`while let` is outside the language")
                c = self.expr()
                stmts.append(("while", c, self.block()))
                continue
            if self.at_id("for"):
                self.i += 1
                pat = self.pattern()
                self.eat_id("in")
                it = self.expr()
                stmts.append(("for", pat, it, self.block()))
                continue
            if self.at_id("if") or self.at_p("{") or (self.at_id("unsafe") and self.at_p("{", 1)):
                e = self.if_expr() if self.at_id("if") else self.primary()
                if self.done():
                    tail = e
                    break
                stmts.append(("expr", e))
                continue
            e = self.expr()
            t = self.peek()
            if t is None:
                tail = e
                break
            if t.k == "p" and t.s in self.ASSIGN_OPS:
                self.i += 1
                rhs = self.expr()
                if not self.done():
                    self.eat_p(";")
                stmts.append(("assign", e, None if t.s == "=" else t.s[:-1], rhs))
                continue
            if t.k == "p" and t.s == ";":
                self.i += 1
                stmts.append(("expr", e))
                continue
            raise TErr("statement not understood at `%s`" % self.ctx())
        return stmts, tail


# =========================================================================== items of a crate file

class Fn(object):
    def __init__(self, name, gens, params, ret, body, toks, owner):
        self.name, self.gens, self.params, self.ret, self.body, self.toks, self.owner = name, gens, params, ret, body, toks, owner
        # params: [(name | "self", type text)], ret: type text ("" = unit), body: (start, end) | None (required method)

    def parse(self):
        if self.body is None:
            raise TErr("fn %s has no body" % self.name)
        return P4(self.toks, self.body[0], self.body[1]).block_body()


class Block(object):
    """an `impl` or `trait` block"""

    def __init__(self, kind, gens, trait, ty, supers):
        self.kind, self.gens, self.trait, self.ty, self.supers = kind, gens, trait, ty, supers
        self.fns = {}
        self.order = []


def _split_top(toks, sep=","):
    out, cur, depth = [], [], 0
    for t in toks:
        if t.k == "p":
            if t.s in ("(", "[", "{", "<"):
                depth += 1
            elif t.s in (")", "]", "}", ">"):
                depth -= 1
            elif t.s == ">>":
                depth -= 2
            elif t.s == "->":
                pass
            elif t.s == sep and depth == 0:
                out.append(cur)
                cur = []
                continue
        cur.append(t)
    if cur:
        out.append(cur)
    return out


def _txt(toks):
    return "".join((" " + t.s + " ") if (t.k == "id" and t.s in ("mut", "as", "impl", "dyn", "for")) else t.s for t in toks).strip().replace("  ", " ")


class CrateFile(object):
    def __init__(self, path, rel):
        self.rel = rel
        if not os.path.exists(path):
            raise TErr("source file %s not found" % rel)
        self.toks = K.drop_cfg_test(lex(open(path, encoding="utf-8", errors="replace").read()))
        self.blocks = []
        self.free = {}
        self._index()

    def _skip_generics(self, i):
        t = self.toks
        if i < len(t) and is_p(t[i], "<"):
            p = K.P(t, i)
            gens = p.generics()
            return p.i, gens
        return i, []

    def _fn(self, i, owner):
        """t[i] is `fn`: (Fn, index just past the item)"""
        t = self.toks
        name = t[i + 1].s
        j, gens = self._skip_generics(i + 2)
        if not is_p(t[j], "("):
            raise TErr("fn %s: parameter list expected" % name)
        e = match_close(t, j)
        params = []
        for ptoks in _split_top(t[j + 1:e - 1]):
            while ptoks and is_p(ptoks[0], "#"):
                raise TErr("attribute on a parameter of fn %s" % name)
            txt = _txt(ptoks)
            ctxt = txt.replace(" ", "")
            if ctxt in ("self", "mutself", "&self", "&mutself") or re.match(r"^&'\w+(mut)?self$", ctxt):
                params.append(("self", "&mut self" if ctxt.endswith("mutself") and ctxt[0] == "&" else "&self" if ctxt[0] == "&" else "self"))
                continue
            k = 0
            if is_id(ptoks[0], "mut"):
                k = 1
            if not (is_id(ptoks[k]) and is_p(ptoks[k + 1], ":")):
                raise TErr("fn %s: parameter `%s` not understood" % (name, txt))
            params.append((ptoks[k].s, _txt(ptoks[k + 2:])))
        j = e
        ret = []
        if is_p(t[j], "->"):
            j += 1
            while not (is_p(t[j], "{") or is_p(t[j], ";") or is_id(t[j], "where")):
                if t[j].k == "p" and t[j].s in ("(", "["):
                    k = match_close(t, j)
                    ret.extend(t[j:k])
                    j = k
                else:
                    ret.append(t[j])
                    j += 1
        while not (is_p(t[j], "{") or is_p(t[j], ";")):
            j += 1
        if is_p(t[j], ";"):
            return Fn(name, gens, params, _txt(ret), None, t, owner), j + 1
        e = match_close(t, j)
        return Fn(name, gens, params, _txt(ret), (j + 1, e - 1), t, owner), e

    def _index(self):
        t = self.toks
        n = len(t)
        i = 0
        while i < n:
            x = t[i]
            if is_p(x, "#"):
                i = K.skip_attr(t, i)
            elif is_id(x, "macro_rules") and i + 1 < n and is_p(t[i + 1], "!"):
                i = K.item_end(t, i + 2)
            elif is_id(x, "impl") or (is_id(x, "trait") and i + 1 < n and is_id(t[i + 1])):
                kind = x.s
                j = i + 1
                gens = []
                if kind == "impl":
                    j, gens = self._skip_generics(j)
                k = j
                depth = 0
                while not (is_p(t[k], "{") and depth == 0):
                    if is_p(t[k], "<"):
                        depth += 1
                    elif is_p(t[k], ">"):
                        depth -= 1
                    elif is_p(t[k], ">>"):
                        depth -= 2
                    k += 1
                hdr = t[j:k]
                for q, y in enumerate(hdr):
                    if is_id(y, "where"):
                        hdr = hdr[:q]
                        break
                trait, ty, supers = None, None, []
                if kind == "trait":
                    ty = None
                    trait = hdr[0].s
                    q = 1
                    if q < len(hdr) and is_p(hdr[q], "<"):
                        q = match_angle(hdr, q)
                    if q < len(hdr) and is_p(hdr[q], ":"):
                        supers = [z[0].s for z in _split_top(hdr[q + 1:], "+") if z and z[0].k == "id"]
                else:
                    parts = None
                    for q, y in enumerate(hdr):
                        if is_id(y, "for"):
                            parts = (hdr[:q], hdr[q + 1:])
                            break
                    if parts:
                        trait, ty = parts[0][0].s, _txt(parts[1])
                    else:
                        ty = _txt(hdr)
                blk = Block(kind, gens, trait, ty, supers)
                e = match_close(t, k)
                q = k + 1
                while q < e - 1:
                    y = t[q]
                    if is_p(y, "#"):
                        q = K.skip_attr(t, q)
                    elif is_id(y, "fn"):
                        f, q = self._fn(q, blk)
                        if f.name in blk.fns:
                            raise TErr("fn %s defined twice in one block of %s" % (f.name, self.rel))
                        blk.fns[f.name] = f
                        blk.order.append(f.name)
                    elif y.k == "p" and y.s in ("(", "[", "{"):
                        q = match_close(t, q)
                    else:
                        q += 1
                self.blocks.append(blk)
                i = e
            elif is_id(x, "fn") and i + 1 < n and is_id(t[i + 1]):
                f, i = self._fn(i, None)
                if f.name in self.free:
                    raise TErr("free fn %s defined twice in %s" % (f.name, self.rel))
                self.free[f.name] = f
            elif x.k == "p" and x.s in ("(", "[", "{"):
                i = match_close(t, i)
            else:
                i += 1

    def impl_of(self, trait, ty_prefix):
        hits = [b for b in self.blocks if b.kind == "impl" and b.trait == trait and b.ty is not None
                and re.match(r"%s\b" % re.escape(ty_prefix), b.ty)]
        if len(hits) != 1:
            raise TErr("%d blocks `impl %s for %s` in %s" % (len(hits), trait, ty_prefix, self.rel))
        return hits[0]

    def inherent(self, ty_prefix):
        hits = [b for b in self.blocks if b.kind == "impl" and b.trait is None and re.match(r"%s\b" % re.escape(ty_prefix), b.ty or "")]
        if len(hits) != 1:
            raise TErr("%d inherent impl blocks of %s in %s" % (len(hits), ty_prefix, self.rel))
        return hits[0]

    def trait(self, name):
        hits = [b for b in self.blocks if b.kind == "trait" and b.trait == name]
        if len(hits) != 1:
            raise TErr("%d declarations of trait %s in %s" % (len(hits), name, self.rel))
        return hits[0]


def match_angle(toks, i):
    depth = 0
    while i < len(toks):
        if is_p(toks[i], "<"):
            depth += 1
        elif is_p(toks[i], ">"):
            depth -= 1
        elif is_p(toks[i], ">>"):
            depth -= 2
        i += 1
        if depth <= 0:
            return i
    raise TErr("unbalanced `<`")


# =========================================================================== terms

def is_num(s):
    return s.isdigit()


def nadd(a, b):
    if a == "0":
        return b
    if b == "0":
        return a
    if is_num(a) and is_num(b):
        return str(int(a) + int(b))
    x, y = sorted([a, b], key=lambda t: (is_num(t), t))
    return "(%s + %s)" % (x, y)


def nsub(a, b):
    if b == "0":
        return a
    if is_num(a) and is_num(b) and int(a) >= int(b):
        return str(int(a) - int(b))
    return "(%s - %s)" % (a, b)


def trivially_true(g):
    m = re.match(r"^(.*) (≤|=) (.*)$", g)
    if m and m.group(1) == m.group(3) and g.count(" ≤ ") + g.count(" = ") == 1:
        return True
    if g.startswith("0 ≤ "):
        return True
    m = re.match(r"^(\d+) (≤|<|=|≠) (\d+)$", g)
    if m:
        a, b = int(m.group(1)), int(m.group(3))
        return {"≤": a <= b, "<": a < b, "=": a == b, "≠": a != b}[m.group(2)]
    return False


UNIT = ("unit",)
BYTES_TY = "List (BitVec 8)"


class ReturnSig(Exception):
    def __init__(self, value):
        Exception.__init__(self, "return")
        self.value = value


class Oracle(object):
    """the decisions of one path (prefix given, extended with `True` as new symbolic branches are met)"""

    def __init__(self, dec):
        self.dec = list(dec)
        self.k = 0
        self.events = []
        self.known = {}

    def branch(self, cond):
        if cond in self.known:
            return self.known[cond]
        if self.k < len(self.dec):
            taken = self.dec[self.k]
        else:
            taken = True
            self.dec.append(True)
        self.k += 1
        self.events.append(("branch", cond, taken))
        self.known[cond] = taken
        return taken

    def guard(self, g):
        if trivially_true(g) or self.known.get(g) is True:
            return
        self.known[g] = True
        self.events.append(("guard", g))


def explore(run):
    """all paths of `run(oracle) -> outcome`: [(events, outcome)]"""
    paths, stack = [], [[]]
    while stack:
        dec = stack.pop()
        o = Oracle(dec)
        out = run(o)
        paths.append((o.events, out))
        for i in range(len(dec), len(o.dec)):
            stack.append(o.dec[:i] + [False])
        if len(paths) > 256:
            raise TErr("more than 256 paths")
    return paths


def build_tree(paths):
    def rec(group, idx):
        ev0 = group[0][0]
        guards = []
        while idx < len(ev0) and ev0[idx][0] == "guard":
            guards.append(ev0[idx][1])
            idx += 1
        if idx == len(ev0):
            node = ("leaf", group[0][1])
        elif ev0[idx][0] == "branch":
            tg = [p for p in group if p[0][idx][2]]
            fg = [p for p in group if not p[0][idx][2]]
            if not tg or not fg:
                raise TErr("internal: a branch with one side only")
            node = ("if", ev0[idx][1], rec(tg, idx + 1), rec(fg, idx + 1))
        elif ev0[idx][0] == "unwrap":
            node = ("unwrap", ev0[idx][1], ev0[idx][2], rec(group, idx + 1))
        else:
            node = ("bind", ev0[idx][1], ev0[idx][2], rec(group, idx + 1))
        if guards:
            node = ("guard", sorted(set(guards)), node)
        return node
    return rec(paths, 0)


def emit_tree(node, ind):
    k = node[0]
    if k == "leaf":
        return ind + node[1]
    if k == "guard":
        return "%sif %s then\n%s\n%selse .panic \"guard\"" % (ind, " ∧ ".join(node[1]), emit_tree(node[2], ind + "  "), ind)
    if k == "if":
        return "%sif %s then\n%s\n%selse\n%s" % (ind, node[1], emit_tree(node[2], ind + "  "), ind, emit_tree(node[3], ind + "  "))
    if k == "bind":
        return "%sOut.bind (%s) (fun %s =>\n%s)" % (ind, node[1], node[2], emit_tree(node[3], ind + "  "))
    if k == "unwrap":
        return "%smatch %s with\n%s| none => .panic \"unwrap\"\n%s| some %s =>\n%s" % (ind, node[1], ind, ind, node[2], emit_tree(node[3], ind + "  "))
    raise TErr("internal: tree node %s" % k)


def tuple_txt(items):
    return items[0] if len(items) == 1 else "(" + ", ".join(items) + ")"


def proj(var, i, n):
    if n == 1:
        return var
    return var + ".2" * i + (".1" if i < n - 1 else "")


# =========================================================================== the symbolic machine

class Machine(object):
    """one symbolic execution (one path) of a method of `BlockBuffer` (or of a generic provided method)"""

    PURE_SELF = ("size", "position", "remaining")

    def __init__(self, tr, oracle, tsubst=None):
        self.tr = tr
        self.o = oracle
        self.scopes = [{}]
        self.buf = "buf"          # current term of self.buffer (its length is `buf.length` throughout: stores are length-guarded)
        self.pos = "pos"
        self.acc = "acc"
        self.tsubst = dict(tsubst or {})
        self.nloops = 0
        self.in_loop = False
        self.depth = 0
        self.selfv = None
        self.prims = {}

    # ---- environment
    def lookup(self, name):
        for s in reversed(self.scopes):
            if name in s:
                return s[name]
        return None

    def define(self, name, v):
        self.scopes[-1][name] = v

    def assign_local(self, name, v):
        for s in reversed(self.scopes):
            if name in s:
                s[name] = v
                return
        raise TErr("assignment to unknown variable `%s`" % name)

    def bind(self, pat, v):
        if pat[0] == "pid":
            if pat[1] != "_":
                self.define(pat[1], v)
        elif pat[0] == "ptuple":
            if v[0] != "tuple" or len(v[1]) != len(pat[1]):
                raise TErr("tuple pattern against a non-tuple")
            for p, x in zip(pat[1], v[1]):
                self.bind(p, x)
        else:
            raise TErr("pattern %s" % pat[0])

    # ---- value helpers
    def nat(self, v, what="usize"):
        if v[0] == "nat":
            return v[1]
        if v[0] == "int":
            return str(v[1])
        raise TErr("%s expected, got %s" % (what, v[0]))

    def u8(self, v):
        if v[0] == "int" and 0 <= v[1] < 256:
            return "(%d : BitVec 8)" % v[1]
        if v[0] == "u8":
            return v[1]
        raise TErr("u8 expected, got %s" % v[0])

    def view_len(self, v):
        """length term of a place view"""
        hi = "buf.length" if v[2] is None else v[2]
        return nsub(hi, v[1])

    def to_bytes(self, v):
        """(term, length term) of a byte sequence value"""
        if v[0] == "bytes":
            return v[1], v[2]
        if v[0] == "place":
            lo, hi = v[1], v[2]
            t = self.buf
            if hi is not None:
                t = "(%s.take %s)" % (t, hi)
            if lo != "0":
                t = "(%s.drop %s)" % (t, lo)
            return t, self.view_len(v)
        raise TErr("byte slice expected, got %s" % v[0])

    def mk_bytes(self, term):
        return ("bytes", term, "%s.length" % term)

    def store(self, view, new):
        """self.buffer[view] := new (the caller has guarded the length)"""
        lo, hi = view[1], view[2]
        parts = []
        if lo != "0":
            parts.append("%s.take %s" % (self.buf, lo))
        parts.append(new)
        if hi is not None:
            parts.append("%s.drop %s" % (self.buf, hi))
        self.buf = parts[0] if len(parts) == 1 else "(" + " ++ ".join(parts) + ")"

    def subview(self, v, lo, hi):
        """v[lo..hi] (relative nat terms; None = open end) with the slice-index guards"""
        n = self.view_len(v) if v[0] == "place" else self.to_bytes(v)[1]
        if lo is not None and hi is not None:
            self.o.guard("%s ≤ %s" % (lo, hi))
        if hi is not None:
            self.o.guard("%s ≤ %s" % (hi, n))
        elif lo is not None:
            self.o.guard("%s ≤ %s" % (lo, n))
        lo = lo or "0"
        if v[0] == "place":
            return ("place", nadd(v[1], lo), None if (hi is None and v[2] is None) else nadd(v[1], hi if hi is not None else n))
        t, _ = self.to_bytes(v)
        if hi is not None:
            t = "(%s.take %s)" % (t, hi)
        if lo != "0":
            t = "(%s.drop %s)" % (t, lo)
        return self.mk_bytes(t)

    # ---- expressions
    def ev(self, e):
        k = e[0]
        m = getattr(self, "ev_" + k, None)
        if m is None:
            raise TErr("expression form `%s` is not in the reading table" % k)
        return m(e)

    def ev_int(self, e):
        return ("int", e[1])

    def ev_paren(self, e):
        return self.ev(e[1])

    def ev_addr(self, e):
        return self.ev(e[2])

    def ev_deref(self, e):
        return self.ev(e[1])

    def ev_block(self, e):
        return self.exec_block(e[1], e[2])

    def ev_tuple(self, e):
        return ("tuple", [self.ev(x) for x in e[1]])

    def ev_path(self, e):
        segs = e[1]
        if len(segs) == 1:
            if segs[0] == "self":
                return ("self",) if self.tr.mode == "bb" else self.selfv
            v = self.lookup(segs[0])
            if v is not None:
                return v
            if segs[0][:1].isupper():
                return ("unitstruct", segs[0])
        raise TErr("unknown name `%s`" % "::".join(segs))

    def ev_field(self, e):
        base = self.ev(e[1])
        if base == ("self",) and self.tr.mode == "bb":
            if e[2] == "pos":
                return ("nat", self.pos)
            if e[2] == "buffer":
                return ("place", "0", None)
        raise TErr("field `.%s` is not in the reading table" % e[2])

    def ev_range(self, e):
        raise TErr("a range outside an index expression")

    def ev_index(self, e):
        base = self.ev(e[1])
        ix = e[2]
        if base[0] not in ("place", "bytes"):
            raise TErr("indexing a %s" % base[0])
        if ix[0] == "range":
            if ix[3]:
                raise TErr("inclusive range")
            lo = self.nat(self.ev(ix[1])) if ix[1] is not None else None
            hi = self.nat(self.ev(ix[2])) if ix[2] is not None else None
            if lo is None and hi is None:
                return base
            return self.subview(base, lo, hi)
        raise TErr("reading a single element is not in the reading table")

    def ev_bin(self, e):
        op = e[1]
        if op in ("&&", "||"):
            a = self.ev(e[2])
            n0 = len(self.o.events)
            b = self.ev(e[3])
            if len(self.o.events) != n0:
                raise TErr("the right operand of `%s` can panic / branch" % op)
            if a[0] != "bool" or b[0] != "bool":
                raise TErr("`%s` on non-booleans" % op)
            return ("bool", "(%s %s %s)" % (a[1], "∧" if op == "&&" else "∨", b[1]))
        a, b = self.ev(e[2]), self.ev(e[3])
        if op in ("<", "<=", ">", ">=", "==", "!="):
            x, y = self.nat(a), self.nat(b)
            if op == ">":
                x, y, op = y, x, "<"
            elif op == ">=":
                x, y, op = y, x, "<="
            return ("bool", "%s %s %s" % (x, {"<": "<", "<=": "≤", "==": "=", "!=": "≠"}[op], y))
        if op == "+":
            x, y = self.nat(a), self.nat(b)
            r = nadd(x, y)
            self.o.guard("%s < %s" % (r, U64MAX))
            return ("nat", r)
        if op == "-":
            x, y = self.nat(a), self.nat(b)
            self.o.guard("%s ≤ %s" % (y, x))
            return ("nat", nsub(x, y))
        raise TErr("operator `%s` is not in the reading table" % op)

    def ev_un(self, e):
        if e[1] == "!":
            a = self.ev(e[2])
            if a[0] == "bool":
                return ("bool", "¬(%s)" % a[1])
        raise TErr("unary `%s`" % e[1])

    def ev_if(self, e):
        c = self.ev(e[1])
        if c[0] != "bool":
            raise TErr("`if` on a %s" % c[0])
        if self.o.branch(c[1]):
            return self.ev(e[2])
        if e[3] is None:
            return UNIT
        return self.ev(e[3])

    def ev_return(self, e):
        raise ReturnSig(UNIT if e[1] is None else self.ev(e[1]))

    def ev_try(self, e):
        v = self.ev(e[1])
        if v[0] != "result":
            raise TErr("`?` on a %s" % v[0])
        if v[1]:
            return v[2]
        raise ReturnSig(v)

    def ev_unsafe(self, e):
        # the only reading: `unsafe { core::ptr::write_bytes(X.as_mut_ptr(), V, X.len()); }` ↦ X := [V; X.len()]
        blk = e[1]
        st = list(blk[1]) + ([("expr", blk[2])] if blk[2] is not None else [])
        if len(st) == 1 and st[0][0] == "expr" and st[0][1][0] == "call":
            c = st[0][1]
            if c[1][-2:] == ["ptr", "write_bytes"] and len(c[2]) == 3:
                p, v, n = c[2]
                if p[0] == "mcall" and p[2] == "as_mut_ptr" and not p[3] and n[0] == "mcall" and n[2] == "len" and not n[3] \
                        and p[1] == n[1] and p[1][0] == "path":
                    dst = self.ev(p[1])
                    if dst[0] != "place":
                        raise TErr("write_bytes into something that is not a view of self.buffer")
                    self.store(dst, "List.replicate %s %s" % (self.view_len(dst), self.u8(self.ev(v))))
                    return UNIT
        raise TErr("`unsafe` block other than `ptr::write_bytes(x.as_mut_ptr(), v, x.len())`")

    def ev_closure(self, e):
        raise TErr("closure literal")

    def ev_macro(self, e):
        raise TErr("macro `%s!`" % e[1])

    def ev_cast(self, e):
        raise TErr("cast")

    # ---- calls
    def ev_call(self, e):
        segs, argx = e[1], e[2]
        if len(segs) == 1:
            v = self.lookup(segs[0])
            if v is not None and v[0] == "closure":
                if len(argx) != 1:
                    raise TErr("closure call with %d arguments" % len(argx))
                return self.call_closure(self.ev(argx[0]))
            if segs[0] in ("Ok", "Err") and len(argx) == 1:
                return ("result", segs[0] == "Ok", self.ev(argx[0]))
            f = self.tr.free_fn(segs[0])
            if f is not None:
                return self.call_fn(f, None, [self.ev(a) for a in argx])
        if len(segs) == 2 and segs[1] == "to_usize" and not argx and self.tr.mode == "bb" and segs[0] == self.tr.size_param:
            return ("nat", "b")
        if len(segs) == 2 and (segs[0] in self.tsubst or segs[0] == "Self") and self.tr.mode == "bb":
            ty = self.tsubst.get(segs[0], segs[0])
            f = self.tr.assoc_fn(ty, segs[1])
            return self.call_fn(f, None, [self.ev(a) for a in argx])
        return self.tr.call_hook(self, e)

    def ev_qcall(self, e):
        return self.tr.qcall_hook(self, e)

    def call_closure(self, arg):
        if arg[0] == "place":
            if arg[1] != "0" or arg[2] is not None:
                raise TErr("a part of the buffer handed to the closure")
            blk = self.buf
        elif arg[0] == "arr":
            blk, n = arg[1], arg[2]
            self.o.guard("%s = b" % n)
        else:
            raise TErr("closure argument of kind %s (a `&GenericArray<u8, BlockSize>` is expected)" % arg[0])
        self.acc = "(f %s %s)" % (self.acc, blk)
        return UNIT

    def call_fn(self, f, selfv, args, tsubst=None):
        if self.depth > 8:
            raise TErr("call depth")
        params = [p for p in f.params if p[0] != "self"]
        if len(params) != len(args):
            raise TErr("fn %s: %d arguments for %d parameters" % (f.name, len(args), len(params)))
        saved, saved_ts = self.scopes, self.tsubst
        self.scopes = [{}]
        if tsubst is not None:
            self.tsubst = dict(tsubst)
        self.depth += 1
        try:
            for (name, ty), v in zip(params, args):
                self.define(name, self.tr.coerce_param(self, f, name, ty, v))
            stmts, tail = f.parse()
            try:
                return self.exec_block(stmts, tail)
            except ReturnSig as r:
                return r.value
        finally:
            self.scopes, self.tsubst = saved, saved_ts
            self.depth -= 1

    def ev_mcall(self, e):
        name, argx = e[2], e[3]
        targs = e[4] if len(e) > 4 else []
        recv = self.ev(e[1])
        k = recv[0]
        if k == "self" or (self.tr.mode != "bb" and k in ("obj", "default")):
            return self.tr.self_method(self, e, name, argx, targs)
        if name == "len" and not argx:
            if k == "place":
                return ("nat", self.view_len(recv))
            if k == "bytes":
                return ("nat", recv[2])
        if name == "split_at" and len(argx) == 1 and k in ("bytes",):
            n = self.nat(self.ev(argx[0]))
            self.o.guard("%s ≤ %s" % (n, recv[2]))
            return ("tuple", [self.mk_bytes("(%s.take %s)" % (recv[1], n)), self.mk_bytes("(%s.drop %s)" % (recv[1], n))])
        if name == "copy_from_slice" and len(argx) == 1 and k == "place":
            src, n = self.to_bytes(self.ev(argx[0]))
            self.o.guard("%s = %s" % (n, self.view_len(recv)))
            self.store(recv, src)
            return UNIT
        if name == "chunks_exact" and len(argx) == 1 and k == "bytes":
            n = self.nat(self.ev(argx[0]))
            self.o.guard("%s ≠ 0" % n)
            return ("chunks", recv[1], n)
        if name == "remainder" and not argx and k == "chunks":
            return self.mk_bytes("(chunksExactRem %s %s)" % (recv[2], recv[1]))
        if name == "try_into" and not argx and k == "bytes":
            return ("conv", recv)
        if name == "unwrap" and not argx and k == "conv":
            return ("arr", recv[1][1], recv[1][2])
        if name in ("to_be_bytes", "to_le_bytes") and not argx and k == "word":
            bits = recv[1]
            if bits == 64:
                t = "(CC.%s %s)" % ("toBe64" if name == "to_be_bytes" else "toLe64", recv[2])
            else:
                t = "(CC.%s %s %d)" % ("toBeBytes" if name == "to_be_bytes" else "toLeBytes", recv[2], bits // 8)
            return self.mk_bytes(t)
        return self.tr.method_hook(self, e, recv)

    # ---- statements
    def exec_block(self, stmts, tail):
        self.scopes.append({})
        try:
            for st in stmts:
                self.exec_stmt(st)
            return self.ev(tail) if tail is not None else UNIT
        finally:
            self.scopes.pop()

    def exec_block_open(self, stmts, tail):
        for st in stmts:
            self.exec_stmt(st)
        return self.ev(tail) if tail is not None else UNIT

    def exec_stmt(self, st):
        k = st[0]
        if k == "let":
            if st[3] is None:
                raise TErr("`let` without an initialiser")
            self.bind(st[1], self.ev(st[3]))
        elif k == "expr":
            self.ev(st[1])
        elif k == "assign":
            self.exec_assign(st)
        elif k == "while":
            self.exec_while(st)
        elif k == "for":
            self.exec_for(st)
        else:
            raise TErr("statement form `%s`" % k)

    def exec_assign(self, st):
        lv, op, rhs = st[1], st[2], st[3]
        v = self.ev(rhs)
        if op is not None:
            if op not in ("+", "-"):
                raise TErr("compound assignment `%s=`" % op)
            v = self.ev(("bin", op, lv, rhs))
        if lv[0] == "path" and len(lv[1]) == 1:
            old = self.lookup(lv[1][0])
            if old is None:
                raise TErr("assignment to unknown variable `%s`" % lv[1][0])
            if old[0] != v[0] and not (old[0] == "nat" and v[0] == "int"):
                raise TErr("assignment changes the kind of `%s`" % lv[1][0])
            self.assign_local(lv[1][0], v)
            return
        if lv[0] == "field" and lv[1] == ("path", ["self"]) and lv[2] == "pos" and self.tr.mode == "bb":
            self.pos = self.nat(v)
            return
        if lv[0] == "index" and lv[2][0] != "range":
            base = self.ev(lv[1])
            if base[0] != "place":
                raise TErr("element store into a %s" % base[0])
            i = self.nat(self.ev(lv[2]))
            self.o.guard("%s < %s" % (i, self.view_len(base)))
            self.buf = "(%s.set %s %s)" % (self.buf, nadd(base[1], i), self.u8(v))
            return
        raise TErr("assignment target is not in the reading table")

    # ---- loops: the variables a loop body assigns become the loop state
    def assigned(self, node, out):
        if isinstance(node, tuple) and node:
            if node[0] == "assign":
                lv = node[1]
                while lv[0] == "index":
                    lv = lv[1]
                if lv[0] == "path" and len(lv[1]) == 1:
                    out.add(("local", lv[1][0]))
                elif lv[0] == "field" and lv[1] == ("path", ["self"]):
                    out.add(("field", lv[2]))
                else:
                    raise TErr("loop body: assignment target not understood")
            if node[0] == "call" and len(node[1]) == 1:
                v = self.lookup(node[1][0])
                if v is not None and v[0] == "closure":
                    out.add(("acc", ""))
                elif node[1][0] not in ("Ok", "Err"):
                    raise TErr("loop body: call of `%s`" % node[1][0])
            if node[0] == "mcall":
                r = node[1]
                if r == ("path", ["self"]) and node[2] not in self.PURE_SELF:
                    raise TErr("loop body: call of self.%s" % node[2])
                if node[2] == "copy_from_slice":
                    raise TErr("loop body: store into the buffer")
            if node[0] in ("while", "for"):
                raise TErr("nested loop")
            if node[0] in ("return", "try"):
                raise TErr("`return` / `?` inside a loop")
            for x in node[1:]:
                self.assigned(x, out)
        elif isinstance(node, list):
            for x in node:
                self.assigned(x, out)

    def loop_state(self, body):
        out = set()
        self.assigned(body, out)
        st = []
        for kind, name in out:
            if kind == "local":
                v = self.lookup(name)
                if v is None:
                    continue                      # declared inside the body
                if v[0] == "bytes":
                    st.append((1, v[1], "bytes", name, v))
                elif v[0] in ("nat", "int"):
                    st.append((2, self.nat(v), "nat", name, v))
                else:
                    raise TErr("loop variable `%s` of kind %s" % (name, v[0]))
            elif kind == "field":
                raise TErr("loop body assigns self.%s" % name)
            else:
                st.append((3, self.acc, "acc", "", None))
        st.sort(key=lambda x: (x[0], x[1]))
        return st

    def run_body(self, state, svar, setup, body):
        """decision tree (text) of a loop body over the state tuple `svar`"""
        if self.in_loop:
            raise TErr("nested loop")
        snap = (self.scopes, self.buf, self.pos, self.acc, self.o)
        n = len(state)

        def one(oracle):
            self.scopes = [dict(s) for s in snap[0]]
            self.buf, self.pos, self.acc, self.o = snap[1], snap[2], snap[3], oracle
            self.in_loop = True
            for i, (_, _, kind, name, _) in enumerate(state):
                p = proj(svar, i, n)
                if kind == "bytes":
                    self.assign_local(name, ("bytes", p, "%s.length" % p))
                elif kind == "nat":
                    self.assign_local(name, ("nat", p))
                else:
                    self.acc = p
            self.scopes.append({})
            setup()
            r = body()
            if self.buf != snap[1] or self.pos != snap[2]:
                raise TErr("loop body changes the buffer / cursor")
            outs = []
            for (_, _, kind, name, _) in state:
                if kind == "bytes":
                    outs.append(self.lookup(name)[1])
                elif kind == "nat":
                    outs.append(self.nat(self.lookup(name)))
                else:
                    outs.append(self.acc)
            return r, tuple_txt(outs)
        try:
            paths = explore(one)
        finally:
            self.scopes, self.buf, self.pos, self.acc, self.o = snap
            self.in_loop = False
        return paths

    def state_type(self, state):
        return " × ".join({"bytes": BYTES_TY, "nat": "Nat", "acc": "σ"}[s[2]] for s in state)

    def after_loop(self, state, text):
        self.nloops += 1
        r = "r%d" % self.nloops
        self.o.events.append(("bind", text, r))
        n = len(state)
        for i, (_, _, kind, name, _) in enumerate(state):
            p = proj(r, i, n)
            if kind == "bytes":
                self.assign_local(name, ("bytes", p, "%s.length" % p))
            elif kind == "nat":
                self.assign_local(name, ("nat", p))
            else:
                self.acc = p

    def exec_while(self, st):
        cond, body = st[1], st[2]
        state = self.loop_state(body)
        if not state:
            raise TErr("`while` loop without state")
        fuels = [s[4][2] for s in state if s[2] == "bytes"]
        if len(fuels) != 1:
            raise TErr("`while` loop: no unique byte-slice variable to bound the iteration count by")
        init = tuple_txt([s[1] for s in state])
        ty = self.state_type(state)
        cpaths = self.run_body(state, "s", lambda: None, lambda: self.ev(cond))
        if len(cpaths) != 1 or cpaths[0][0] or cpaths[0][1][0][0] != "bool":
            raise TErr("`while` condition that can panic / branch")
        ctxt = cpaths[0][1][0][1]
        bpaths = self.run_body(state, "s", lambda: None, lambda: self.ev(body))
        tree = build_tree([(ev, ".ok %s" % (out if out.startswith("(") else "(" + out + ")")) for ev, (_, out) in bpaths])
        btxt = emit_tree(tree, "")
        text = "whileLoop (fun (s : %s) => decide (%s)) (fun (s : %s) => %s) %s %s" % (
            ty, ctxt, ty, " ".join(btxt.split()), fuels[0], init)
        self.after_loop(state, text)

    def exec_for(self, st):
        pat, it, body = st[1], st[2], st[3]
        itv = self.ev(it)
        if itv[0] != "chunks":
            raise TErr("`for` over something that is not a `chunks_exact` iterator")
        if pat[0] != "pid":
            raise TErr("`for` pattern")
        state = self.loop_state(body)
        if not state:
            raise TErr("`for` loop without state")
        init = tuple_txt([s[1] for s in state])
        ty = self.state_type(state)
        bpaths = self.run_body(state, "s", lambda: self.define(pat[1], ("bytes", "c", "c.length")), lambda: self.ev(body))
        tree = build_tree([(ev, ".ok %s" % (out if out.startswith("(") else "(" + out + ")")) for ev, (_, out) in bpaths])
        btxt = emit_tree(tree, "")
        text = "forChunks (fun (s : %s) (c : %s) => %s) (chunksExact %s %s) %s" % (
            ty, BYTES_TY, " ".join(btxt.split()), itv[2], itv[1], init)
        self.after_loop(state, text)


# =========================================================================== translation units

class Def(object):
    def __init__(self, name, doc, sig, body):
        self.name, self.doc, self.sig, self.body = name, doc, sig, body


class BBTranslator(object):
    """block-buffer `impl BlockBuffer` + block-padding `impl Padding for ..`"""
    mode = "bb"

    def __init__(self, bbfile, padfile):
        self.f, self.pad = bbfile, padfile
        self.impl = bbfile.inherent("BlockBuffer")
        if len(self.impl.gens) != 1:
            raise TErr("impl BlockBuffer: one type parameter expected")
        self.size_param = self.impl.gens[0][0]

    def free_fn(self, name):
        return None

    def assoc_fn(self, ty, name):
        if self.pad is None:
            raise TErr("block-padding source not available")
        blk = self.pad.impl_of("Padding", ty)
        if name not in blk.fns:
            raise TErr("`impl Padding for %s` does not define %s" % (ty, name))
        f = blk.fns[name]
        f.home = self.pad
        return f

    def call_hook(self, m, e):
        raise TErr("call of `%s` is not in the reading table" % "::".join(e[1]))

    def qcall_hook(self, m, e):
        raise TErr("qualified call of `%s`" % e[3])

    def method_hook(self, m, e, recv):
        raise TErr("method `.%s` on a %s is not in the reading table" % (e[2], recv[0]))

    def coerce_param(self, m, f, name, ty, v):
        t = ty.replace(" ", "")
        if t == "usize":
            return ("nat", m.nat(v))
        if t == "u8":
            return ("u8", m.u8(v))
        if t in ("u64", "u128"):
            if v[0] != "word" or v[1] != int(t[1:]):
                raise TErr("parameter %s: %s expected" % (name, t))
            return v
        if t == "&[u8]":
            if v[0] not in ("bytes", "place"):
                raise TErr("parameter %s: byte slice expected" % name)
            return v if v[0] == "bytes" else ("bytes",) + m.to_bytes(v)
        if t == "&mut[u8]":
            if v[0] != "place":
                raise TErr("parameter %s: a mutable view of self.buffer expected" % name)
            return v
        if "FnMut" in t:
            if v[0] != "closure":
                raise TErr("parameter %s: closure expected" % name)
            return v
        raise TErr("parameter type `%s` is not in the reading table" % ty)

    def self_method(self, m, e, name, argx, targs):
        if name not in self.impl.fns:
            raise TErr("BlockBuffer has no method %s" % name)
        f = self.impl.fns[name]
        ts = None
        if targs:
            ts = self._tsubst(f, targs)
        return m.call_fn(f, ("self",), [m.ev(a) for a in argx], ts)

    def _tsubst(self, f, targs):
        if len(targs) != len(f.gens):
            raise TErr("fn %s: %d type arguments" % (f.name, len(targs)))
        out = {}
        for (g, _), t in zip(f.gens, targs):
            if t[0] != "path":
                raise TErr("type argument of %s" % f.name)
            out[g] = t[1][-1]
        return out

    # a module-level free fn lookup that honours which file the current function lives in is not needed:
    # `set_zero` (block-buffer) and `set` (block-padding) have different names
    def free_fn(self, name):
        for cf in (self.f, self.pad):
            if cf is not None and name in cf.free:
                return cf.free[name]
        return None

    def translate(self, lean, method, tsubst=None):
        """Def of `BlockBuffer::<method>` (type parameters of the method instantiated by tsubst)"""
        f = self.impl.fns.get(method)
        if f is None:
            raise TErr("BlockBuffer::%s not found" % method)
        selfmode = [p[1] for p in f.params if p[0] == "self"]
        if len(selfmode) != 1:
            raise TErr("BlockBuffer::%s: a self parameter expected" % method)
        mutself = selfmode[0] == "&mut self"
        params = [p for p in f.params if p[0] != "self"]
        lparams = ["(b : Nat)", "(buf : %s)" % BYTES_TY, "(pos : Nat)"]
        has_f = False
        args = []
        for name, ty in params:
            t = ty.replace(" ", "")
            if t == "&[u8]":
                lparams.append("(input : %s)" % BYTES_TY)
                args.append(("bytes", "input", "input.length"))
            elif t == "usize":
                lparams.append("(n : Nat)")
                args.append(("nat", "n"))
            elif t in ("u64", "u128"):
                lparams.append("(w : BitVec %s)" % t[1:])
                args.append(("word", int(t[1:]), "w"))
            elif "FnMut" in t:
                if has_f:
                    raise TErr("two closures")
                has_f = True
                if "GenericArray<u8,%s>" % self.size_param not in t:
                    raise TErr("closure parameter type `%s`" % ty)
                args.append(("closure", "f"))
            else:
                raise TErr("BlockBuffer::%s: parameter type `%s`" % (method, ty))
        if sum(1 for a in args if a[0] == "bytes") > 1 or sum(1 for a in args if a[0] == "nat") > 1 \
                or sum(1 for a in args if a[0] == "word") > 1:
            raise TErr("BlockBuffer::%s: two parameters of one kind" % method)
        if has_f:
            lparams += ["(f : σ → %s → σ)" % BYTES_TY, "(acc : σ)"]
        ret = f.ret.replace(" ", "")
        is_result = ret.startswith("Result<")

        def run(oracle):
            m = Machine(self, oracle, tsubst)
            v = m.call_fn(f, ("self",), list(args), tsubst)
            outs = []
            if mutself:
                outs += [m.buf, m.pos]
            elif m.buf != "buf" or m.pos != "pos":
                raise TErr("a `&self` method changes the buffer")
            if has_f:
                outs.append(m.acc)
            if is_result:
                if v[0] != "result":
                    raise TErr("a Result is expected as the value of %s" % method)
                if v[1]:
                    outs.append("some %s" % self.ret_txt(m, v[2]))
                else:
                    outs.append("none")
            elif ret:
                outs.append(self.ret_txt(m, v))
            elif v != UNIT:
                raise TErr("unit function %s returns a %s" % (method, v[0]))
            return ".ok %s" % (tuple_txt(outs) if len(outs) > 1 else "(" + outs[0] + ")")

        paths = explore(run)
        tree = build_tree(paths)
        tys = []
        if mutself:
            tys += [BYTES_TY, "Nat"]
        if has_f:
            tys.append("σ")
        if is_result:
            tys.append("Option (%s)" % self.ret_ty(ret[len("Result<"):].split(",PadError")[0]))
        elif ret:
            tys.append(self.ret_ty(ret))
        sig = "%s%s : Out (%s)" % ("{σ : Type} " if has_f else "", " ".join(lparams), " × ".join(tys))
        doc = "`BlockBuffer::%s%s`" % (method, "::<%s>" % ", ".join(sorted(tsubst.values())) if tsubst else "")
        return Def(lean, doc, sig, emit_tree(tree, "  "))

    def ret_ty(self, t):
        if t == "usize":
            return "Nat"
        if t.startswith("&mutGenericArray<u8,") or t.startswith("&GenericArray<u8,"):
            return BYTES_TY
        raise TErr("return type `%s`" % t)

    def ret_txt(self, m, v):
        if v[0] in ("nat", "int"):
            return m.nat(v)
        if v[0] == "place" and v[1] == "0" and v[2] is None:
            return m.buf
        raise TErr("returned value of kind %s" % v[0])



# =========================================================================== provided / blanket methods of digest and cipher

class TraitTranslator(object):
    """provided methods of traits and methods of blanket impls (`impl<D: A + B> T for D`): straight-line compositions of
    REQUIRED methods, which become Out-valued parameters of the generated definition"""
    mode = "traits"
    size_param = None

    def __init__(self, crate, files):
        self.crate, self.files = crate, files

    def free_fn(self, name):
        return None

    def assoc_fn(self, ty, name):
        raise TErr("associated function %s::%s" % (ty, name))

    def traits(self, name):
        return [b for f in self.files for b in f.blocks if b.kind == "trait" and b.trait == name]

    def blankets(self, name):
        return [b for f in self.files for b in f.blocks if b.kind == "impl" and b.trait == name
                and any(g[0] == b.ty for g in b.gens)]

    def block_of(self, kind, trait):
        hits = self.traits(trait) if kind == "trait" else self.blankets(trait)
        if len(hits) != 1:
            raise TErr("%d %s blocks of %s in crate %s" % (len(hits), kind, trait, self.crate))
        return hits[0]

    def candidates(self, blk):
        """the traits whose methods `self.m()` may mean inside blk, bounds first (Rust: methods of the bounds of a type
        parameter rank like inherent methods)"""
        if blk.kind == "impl":
            bounds = [g[1] for g in blk.gens if g[0] == blk.ty]
            bl = [x.strip().split("<")[0].strip() for x in (bounds[0].split("+") if bounds else [])]
            return [x for x in bl if x] + [blk.trait]
        return list(blk.supers) + [blk.trait]

    # ---- types
    def lean_ty(self, ty):
        t = ty.replace(" ", "")
        if t in ("Self", "D"):
            return "S"
        if "GenericArray<u8" in t or t.startswith("Output<"):
            return "O"
        if t in ("&[u8]", "&mut[u8]", "implAsRef<[u8]>"):
            return BYTES_TY
        if t == "usize":
            return "Nat"
        if t == "T":
            return "T"
        if t == "()" or t == "":
            return "Unit"
        m = re.match(r"^Result<(.*),(\w+)>$", t)
        if m:
            return "Option (%s)" % self.lean_ty(m.group(1))
        raise TErr("type `%s` is not in the reading table" % ty)

    def prim(self, m, trait, f):
        """(name, Lean type, result shape) of a required method used as a parameter"""
        name = "%s_%s" % (trait, f.name)
        ins, outs = [], []
        for pn, pt in f.params:
            if pn == "self":
                ins.append("S")
                if pt == "&mut self":
                    outs.append(("self", "S"))
            else:
                ins.append(self.lean_ty(pt))
                if pt.replace(" ", "").startswith("&mut"):
                    outs.append((pn, self.lean_ty(pt)))
        if f.ret:
            outs.append(("ret", self.lean_ty(f.ret)))
        rty = " × ".join(t if " " not in t or t.startswith("List") else "(%s)" % t for _, t in outs) if outs else "Unit"
        m.prims[name] = "(%s : %s)" % (name, " → ".join(ins + ["Out (%s)" % rty]))
        return name, outs

    # ---- calls
    def coerce_param(self, m, f, name, ty, v):
        return v

    def resolve(self, m, trait, name):
        """("inline", Fn) | ("prim", trait, Fn)"""
        for b in self.blankets(trait):
            if name in b.fns:
                return ("inline", b.fns[name])
        for b in self.traits(trait):
            if name in b.fns:
                f = b.fns[name]
                return ("inline", f) if f.body is not None else ("prim", trait, f)
        return None

    def call_method(self, m, traits, recvx, name, argx):
        for tr in traits:
            if tr == "Clone" and name == "clone" and not argx:
                return m.ev(recvx)
            r = self.resolve(m, tr, name)
            if r is None:
                continue
            f = r[-1]
            if r[0] == "inline":
                return self.inline(m, f, recvx, argx)
            return self.call_prim(m, tr, f, recvx, argx)
        raise TErr("method `%s` not found in %s" % (name, ", ".join(traits)))

    def strip(self, x):
        while x[0] in ("addr", "paren", "deref"):
            x = x[2] if x[0] == "addr" else x[1]
        return x

    def writeback(self, m, x, v):
        x = self.strip(x)
        if x == ("path", ["self"]):
            m.selfv = v
        elif x[0] == "path" and len(x[1]) == 1 and m.lookup(x[1][0]) is not None:
            m.assign_local(x[1][0], v)
        else:
            raise TErr("a `&mut` argument that is not a variable")

    def typed(self, m, v, ty, x=None):
        """resolve a `Default::default()` placeholder by the type it is used at"""
        if v[0] == "default":
            lt = self.lean_ty(ty)
            if lt == "O":
                m.prims["default_out"] = "(default_out : O)"
                v = ("obj", "default_out")
            elif lt == "S":
                v = self.default_self(m)
            else:
                raise TErr("Default::default() at type %s" % ty)
            if x is not None:
                self.writeback(m, x, v)
        if v[0] == "bytes":
            return ("obj", v[1])
        if v[0] != "obj":
            raise TErr("argument of kind %s" % v[0])
        return v

    def default_self(self, m):
        m.prims["Default_default"] = "(Default_default : Out S)"
        m.nloops += 1
        r = "r%d" % m.nloops
        m.o.events.append(("bind", "Default_default", r))
        return ("obj", r)

    def call_prim(self, m, trait, f, recvx, argx):
        name, outs = self.prim(m, trait, f)
        params = [p for p in f.params if p[0] != "self"]
        if len(params) != len(argx):
            raise TErr("%s: argument count" % name)
        args = [self.typed(m, m.ev(recvx), "Self", recvx)[1]]
        for (pn, pt), x in zip(params, argx):
            args.append(self.typed(m, m.ev(x), pt, x)[1])
        m.nloops += 1
        r = "r%d" % m.nloops
        m.o.events.append(("bind", "%s %s" % (name, " ".join(args)), r))
        ret = UNIT
        for i, (what, ty) in enumerate(outs):
            pj = proj(r, i, len(outs))
            if what == "self":
                self.writeback(m, recvx, ("obj", pj))
            elif what == "ret":
                ret = ("option", pj, ty) if ty.startswith("Option") else ("obj", pj)
            else:
                k = [pn for pn, _ in params].index(what)
                self.writeback(m, argx[k], ("obj", pj))
        return ret

    def inline(self, m, f, recvx, argx):
        """inline a provided / blanket method: `self` of the callee is the receiver (written back when `&mut self`)"""
        params = [p for p in f.params if p[0] != "self"]
        selfp = [p for p in f.params if p[0] == "self"]
        args = [m.ev(x) for x in argx]
        recv = m.ev(recvx) if selfp else None
        saved_self, saved_blk = m.selfv, m.blk
        saved_scopes = m.scopes
        m.scopes = [{}]
        m.depth += 1
        if m.depth > 8:
            raise TErr("call depth")
        try:
            m.selfv, m.blk = recv, f.owner
            for (pn, pt), v in zip(params, args):
                m.define(pn, v)
            stmts, tail = f.parse()
            try:
                ret = m.exec_block_open(stmts, tail)
            except ReturnSig as r:
                ret = r.value
            newself = m.selfv
            finals = [m.lookup(pn) for pn, _ in params]
        finally:
            m.selfv, m.blk, m.scopes = saved_self, saved_blk, saved_scopes
            m.depth -= 1
        if selfp and selfp[0][1] == "&mut self":
            self.writeback(m, recvx, newself)
        for (pn, pt), x, v in zip(params, argx, finals):
            if pt.replace(" ", "").startswith("&mut"):
                self.writeback(m, x, v)
        return ret

    def self_method(self, m, e, name, argx, targs):
        if name == "unwrap" and not argx:
            return self.method_hook(m, e, m.ev(e[1]))
        return self.call_method(m, self.candidates(m.blk), e[1], name, argx)

    def method_hook(self, m, e, recv):
        if e[2] == "unwrap" and not e[3] and recv[0] == "option":
            m.nloops += 1
            v = "v%d" % m.nloops
            m.o.events.append(("unwrap", recv[1], v))
            return UNIT if recv[2] == "Option (Unit)" else ("obj", v)
        raise TErr("method `.%s` on a %s is not in the reading table" % (e[2], recv[0]))

    def call_hook(self, m, e):
        segs, argx = e[1], e[2]
        if segs in (["Default", "default"], ["Self", "default"]) and not argx:
            return ("default",) if segs[0] == "Default" else self.default_self(m)
        if len(segs) == 2 and argx and self.traits(segs[0]):
            return self.call_method(m, [segs[0]], argx[0], segs[1], argx[1:])
        if len(segs) == 3 and segs[0] == "Self" and segs[2] == "to_usize" and not argx:
            m.prims["const_" + segs[1]] = "(const_%s : Nat)" % segs[1]
            return ("nat", "const_" + segs[1])
        raise TErr("call of `%s` is not in the reading table" % "::".join(segs))

    def qcall_hook(self, m, e):
        ty, tr, name, argx = e[1], e[2], e[3], e[4]
        if ty == ("path", ["Self"], []) and tr[0] == "path" and argx:
            return self.call_method(m, [tr[1][-1]], argx[0], name, argx[1:])
        raise TErr("qualified call of `%s`" % name)

    def translate(self, lean, kind, trait, method):
        blk = self.block_of(kind, trait)
        f = blk.fns.get(method)
        if f is None or f.body is None:
            raise TErr("%s %s::%s has no body" % (kind, trait, method))
        params = [p for p in f.params if p[0] != "self"]
        selfp = [p for p in f.params if p[0] == "self"]
        lparams, outs_ty = [], []
        if selfp:
            lparams.append("(self : S)")

        def run(oracle):
            m = Machine(self, oracle)
            m.blk = blk
            m.selfv = ("obj", "self") if selfp else None
            for pn, pt in params:
                m.define(pn, ("obj", pn))
            stmts, tail = f.parse()
            try:
                ret = m.exec_block_open(stmts, tail)
            except ReturnSig as r:
                ret = r.value
            outs = []
            if selfp and selfp[0][1] == "&mut self":
                outs.append(m.selfv[1])
            for pn, pt in params:
                if pt.replace(" ", "").startswith("&mut"):
                    outs.append(m.lookup(pn)[1])
            if f.ret:
                if ret[0] == "default":
                    ret = self.typed(m, ret, f.ret)
                if ret[0] not in ("obj", "nat"):
                    raise TErr("returned value of kind %s" % ret[0])
                outs.append(ret[1])
            elif ret != UNIT:
                raise TErr("unit method returns a %s" % ret[0])
            run.prims = dict(m.prims)
            return ".ok %s" % (tuple_txt(outs) if len(outs) > 1 else "(%s)" % (outs[0] if outs else "()"))

        paths = explore(run)
        tree = build_tree(paths)
        tys = []
        if selfp and selfp[0][1] == "&mut self":
            tys.append("S")
        for pn, pt in params:
            lparams.append("(%s : %s)" % (pn, self.lean_ty(pt)))
            if pt.replace(" ", "").startswith("&mut"):
                tys.append(self.lean_ty(pt))
        if f.ret:
            tys.append(self.lean_ty(f.ret))
        prims = [run.prims[k] for k in sorted(run.prims)]
        alltxt = " ".join(prims + lparams + tys)
        used = [v for v in ("S", "O", "T") if re.search(r"(?<![A-Za-z0-9_.])%s(?![A-Za-z0-9_])" % v, alltxt)]
        tvars = "{%s : Type} " % " ".join(used) if used else ""
        sig = "%s%s : Out (%s)" % (tvars, " ".join(prims + lparams), " × ".join(tys) if tys else "Unit")
        doc = "%s `%s::%s` (%s)" % (self.crate, trait, method, "blanket impl" if kind == "impl" else "provided method")
        return Def(lean, doc, sig, emit_tree(tree, "  "))


TRAIT_METHODS = [
    # (crate, lean name, block kind, trait, method)
    ("digest", "digest_FixedOutput_finalize_fixed", "trait", "FixedOutput", "finalize_fixed"),
    ("digest", "digest_FixedOutput_finalize_fixed_reset", "trait", "FixedOutput", "finalize_fixed_reset"),
    ("digest", "digest_FixedOutput_finalize_into", "impl", "FixedOutput", "finalize_into"),
    ("digest", "digest_FixedOutput_finalize_into_reset", "impl", "FixedOutput", "finalize_into_reset"),
    ("digest", "digest_Update_chain", "trait", "Update", "chain"),
    ("digest", "digest_Digest_new", "impl", "Digest", "new"),
    ("digest", "digest_Digest_update", "impl", "Digest", "update"),
    ("digest", "digest_Digest_chain", "impl", "Digest", "chain"),
    ("digest", "digest_Digest_finalize", "impl", "Digest", "finalize"),
    ("digest", "digest_Digest_finalize_reset", "impl", "Digest", "finalize_reset"),
    ("digest", "digest_Digest_reset", "impl", "Digest", "reset"),
    ("digest", "digest_Digest_output_size", "impl", "Digest", "output_size"),
    ("digest", "digest_Digest_digest", "impl", "Digest", "digest"),
    ("cipher", "cipher_StreamCipher_apply_keystream", "trait", "StreamCipher", "apply_keystream"),
    ("cipher", "cipher_StreamCipherSeek_current_pos", "trait", "StreamCipherSeek", "current_pos"),
    ("cipher", "cipher_StreamCipherSeek_seek", "trait", "StreamCipherSeek", "seek"),
]
TRAIT_FILES = {"digest": ["lib.rs", "digest.rs", "fixed.rs"], "cipher": ["stream.rs"]}

TABLE_TRAITS = [
    "digest / cipher (provided methods of traits and methods of blanket impls `impl<D: A + B> T for D`): Self / D ↦ S, GenericArray<u8, _> /",
    "  Output<Self> ↦ O, `&[u8]` / `&mut [u8]` / `impl AsRef<[u8]>` ↦ List (BitVec 8), T: SeekNum ↦ T, Result<X, E> ↦ Option X;",
    "  a REQUIRED trait method (no body) ↦ an Out-valued PARAMETER `Trait_method : S → args → Out (S' × &mut-args' × result)` and ONE",
    "  Out.bind per call in program order (`&mut self` / `&mut` arguments are written back);  provided and blanket methods are INLINED;",
    "  `self.m()` ↦ the trait among the bounds of the impl's type parameter (resp. the supertraits) that declares m, before the trait itself",
    "  (Rust: bounds of a type parameter rank like inherent methods — `self.reset()` inside `impl Digest for D` is `Reset::reset`);",
    "  `Trait::m(x, ..)`, `<Self as Trait>::m(x, ..)` ↦ that trait's m on x;  x.clone() ↦ x (the hashers derive Clone — checked by the struct",
    "  inventories of phase 3);  Default::default() at type O ↦ the parameter default_out, Self::default() / at type S ↦ bind Default_default;",
    "  r.unwrap() on Option ↦ `match r with | none => .panic \"unwrap\" | some v => ..`;  Self::X::to_usize() ↦ the parameter const_X",
]


def traits_inventory(inv, files, attempt):
    trs = {}
    for crate, rels in sorted(TRAIT_FILES.items()):
        try:
            if crate not in files:
                raise TErr("no source")
            trs[crate] = TraitTranslator(crate, [CrateFile(os.path.join(files[crate], "src", r), "%s/src/%s" % (crate, r)) for r in rels])
        except TErr as ex:
            inv["errors"].append("%s: %s" % (crate, ex))
    for crate, lean, kind, trait, method in TRAIT_METHODS:
        if crate in trs:
            attempt(lean, lambda t=trs[crate], lean=lean, kind=kind, trait=trait, method=method: t.translate(lean, kind, trait, method))
    # inventories: which methods the blocks define (a new provided method, or a required one that gains a body, changes them)
    for crate, kind, trait in (("digest", "trait", "FixedOutput"), ("digest", "impl", "FixedOutput"), ("digest", "impl", "Digest"),
                               ("digest", "trait", "Update"), ("digest", "trait", "Reset"), ("digest", "trait", "FixedOutputDirty"),
                               ("cipher", "trait", "StreamCipher"), ("cipher", "trait", "StreamCipherSeek")):
        if crate not in trs:
            continue
        try:
            blk = trs[crate].block_of(kind, trait)
            inv["consts"].append(("%s_%s_%s_methods" % (crate, kind, trait), "List (String × Bool)",
                                  "[" + ", ".join("(%s, %s)" % (K._lean_str(n), "true" if blk.fns[n].body is not None else "false") for n in blk.order) + "]"))
        except TErr as ex:
            inv["errors"].append("%s %s %s: %s" % (crate, kind, trait, ex))
    inv["table_extra"] += TABLE_TRAITS


# =========================================================================== rendering

PRELUDE = """\
/-- the items of `l.chunks_exact(n)` (`n ≠ 0` is a guard where the iterator is made): `l[0..n]`, `l[n..2n]`, … while `n`
    more bytes are there -/
def chunksExactAux (n : Nat) : Nat → List (BitVec 8) → List (List (BitVec 8))
  | 0, _ => []
  | fuel + 1, l => if n ≤ l.length then l.take n :: chunksExactAux n fuel (l.drop n) else []
def chunksExact (n : Nat) (l : List (BitVec 8)) : List (List (BitVec 8)) := chunksExactAux n l.length l

/-- `l.chunks_exact(n).remainder()`: std computes `rem = len % n`, `fst_len = len - rem`, `split_at(fst_len).1` -/
def chunksExactRem (n : Nat) (l : List (BitVec 8)) : List (BitVec 8) := l.drop (l.length - l.length % n)

/-- `for c in &mut chunks { s := body s c }` (a body that panics ends the loop with that outcome) -/
def forChunks {σ : Type} (body : σ → List (BitVec 8) → Out σ) : List (List (BitVec 8)) → σ → Out σ
  | [], s => .ok s
  | c :: cs, s => Out.bind (body s c) (forChunks body cs)

/-- `while cond s { s := body s }` with FUEL; running out of fuel while the condition still holds is its own failure
    (`panic "fuel"`), so that the obligations PROVE the fuel the translator chose sufficient instead of trusting it -/
def whileLoop {σ : Type} (cond : σ → Bool) (body : σ → Out σ) : Nat → σ → Out σ
  | 0, s => if cond s then .panic "fuel" else .ok s
  | fuel + 1, s => if cond s then Out.bind (body s) (whileLoop cond body fuel) else .ok s
"""

TABLE = [
    "TRUSTED reading table (Rust form ↦ Lean term); everything else is a translation error:",
    "  `impl<BlockSize> BlockBuffer<BlockSize>`: BlockSize::to_usize() ↦ b;  self.buffer ↦ buf : List (BitVec 8) (a GenericArray:",
    "    its length never changes — every store below is guarded to be length-preserving — so self.buffer.len() ↦ buf.length);",
    "    self.pos ↦ pos : Nat;  `&[u8]` parameter ↦ input : List (BitVec 8), x.len() ↦ x.length;  usize parameter ↦ n : Nat;",
    "    u64 / u128 parameter ↦ w : BitVec 64 / 128;  `mut f: impl FnMut(&GenericArray<u8, BlockSize>)` ↦ f : σ → List (BitVec 8) → σ",
    "    threaded through ONE accumulator: f(x) ↦ acc := f acc x  (x = &self.buffer ↦ the current buf; x = s.try_into().unwrap() ↦ s",
    "    with the GUARD s.length = b);  `&mut f` / `&x` / `&mut x` / `*x` ↦ x (references are transparent)",
    "  usize:  a + b ↦ a + b (operands sorted) with the GUARD a + b < 2^64;  a - b ↦ a - b with the GUARD b ≤ a;  x += e / x -= e alike;",
    "    a < b, a <= b, a == b, a != b ↦ <, ≤, =, ≠;  a > b ↦ b < a;  a >= b ↦ b ≤ a;  c && d ↦ c ∧ d (d must not be able to panic)",
    "  slices:  s[lo..hi] ↦ GUARDS lo ≤ hi, hi ≤ len and (s.take hi).drop lo;  s[lo..] ↦ GUARD lo ≤ len, s.drop lo;  s[..hi] ↦ GUARD hi ≤ len,",
    "    s.take hi;  s[..] ↦ s;  s.split_at(k) ↦ GUARD k ≤ len, (s.take k, s.drop k);  the length of a derived slice t ↦ t.length",
    "    (of a view self.buffer[lo..hi] ↦ hi - lo, of self.buffer[lo..] ↦ buf.length - lo)",
    "  stores into self.buffer (a view is self.buffer[lo..hi], also through a `&mut [u8]` parameter and sub-slices of it):",
    "    view.copy_from_slice(src) ↦ GUARD src.length = hi - lo, buf := buf.take lo ++ src ++ buf.drop hi (take 0 / drop len omitted);",
    "    view[i] = v ↦ GUARD i < hi - lo, buf := buf.set (lo + i) v;",
    "    unsafe { core::ptr::write_bytes(view.as_mut_ptr(), v, view.len()) } ↦ the view := List.replicate (hi - lo) v  (no other `unsafe`)",
    "  w.to_be_bytes() / w.to_le_bytes() ↦ CC.toBe64 w / CC.toLe64 w (u64), CC.toBeBytes w 16 / CC.toLeBytes w 16 (u128)",
    "  s.chunks_exact(n) ↦ GUARD n ≠ 0;  `for c in &mut it { body }` ↦ forChunks (fun s c => body) (chunksExact n s) state;",
    "    it.remainder() ↦ chunksExactRem n s;  `while c { body }` ↦ whileLoop (fun s => c) (fun s => body) fuel state with",
    "    fuel = the length of the byte-slice loop variable (exhaustion is a failure of its own, see whileLoop);  the loop state is the",
    "    tuple of the outer variables the body assigns (byte slices, then usize, then acc; ties by initial value)",
    "  control flow: `if c {..} [else {..}]` on a symbolic condition FORKS the run (path-sensitive: the rest of the function is",
    "    translated once per path);  `return` / `return e` / `e?` on Err end the path;  Ok(x)? ↦ x;  calls of methods of the same",
    "    impl (`self.remaining()`, `self.digest_pad(8, &mut f)`), of free fns of the crate (`set_zero`, `set`) and `P::pad_block`",
    "    (P ↦ the named `impl Padding for P` of block-padding) are INLINED;  Result<T, PadError> ↦ Option T",
    "  result of a definition: Out (buf', pos', [acc'], [returned value]) — `.panic \"guard\"` when a GUARD fails",
    "  items under #[cfg(feature = \"block-padding\")] are read as enabled (jh, groestl and skein enable it);  #[cfg(test)] items dropped",
]


def render(inv):
    L = []
    L.append("/-")
    L.append("  GENERATED by tools/inventory_blockbuffer.py (tools/regen) from the crate sources pinned in Cargo.lock:")
    for c, v in inv["versions"]:
        L.append("    %s %s" % (c, v))
    L.append("  Do not edit.  Obligations: lean/CC/Buffer/Src.lean (`CC.Src.src_bb_*`), collected in CC.Thm.C08.source_blockbuffer_match.")
    L.append("")
    for t in TABLE + inv.get("table_extra", []):
        L.append("  " + t)
    L.append("-/")
    L.append("import CC.Prim")
    L.append("set_option linter.unusedVariables false")
    L.append("namespace CC.Gen.BlockBufferSrc")
    L.append("open CC")
    L.append("")
    L.append(PRELUDE)
    for d in inv["defs"]:
        if isinstance(d, Def):
            L.append("/-- %s -/" % d.doc)
            L.append("def %s %s :=" % (d.name, d.sig))
            L.append(d.body)
        else:
            name, msg = d
            L.append("/-- TRANSLATION ERROR -/")
            L.append("def %s : String := %s" % (name, K._lean_str(msg)))
        L.append("")
    for name, ty, val in inv["consts"]:
        L.append("def %s : %s := %s" % (name, ty, val))
        L.append("")
    L.append("def blockbuffer_errors : List String := [%s]" % ", ".join(K._lean_str(e) for e in inv["errors"]))
    L.append("")
    L.append("end CC.Gen.BlockBufferSrc")
    return "\n".join(L) + "\n"


BB_METHODS = [
    # (lean name, method, type arguments)
    ("bb_size", "size", None), ("bb_position", "position", None), ("bb_remaining", "remaining", None),
    ("bb_reset", "reset", None),
    ("bb_input_block", "input_block", None), ("bb_input_lazy", "input_lazy", None),
    ("bb_digest_pad", "digest_pad", None),
    ("bb_len64_padding_be", "len64_padding_be", None), ("bb_len64_padding_le", "len64_padding_le", None),
    ("bb_len128_padding_be", "len128_padding_be", None),
    ("bb_pad_with_ZeroPadding", "pad_with", {"P": "ZeroPadding"}), ("bb_pad_with_Iso7816", "pad_with", {"P": "Iso7816"}),
]
# read, but not translated (unused by the workspace; `input_blocks` reinterprets the input through a raw pointer)
BB_UNTRANSLATED = ["input_blocks"]


def lean_str_list(xs):
    return "[" + ", ".join(K._lean_str(x) for x in xs) + "]"


def blockbuffer_inventory(repo="/repo", crate_dirs=None):
    inv = {"versions": [], "defs": [], "consts": [], "errors": [], "table_extra": []}
    files = {}
    for c in CRATES:
        try:
            d, v = crate_dir(repo, c, crate_dirs)
            inv["versions"].append((c, v))
            files[c] = d
        except TErr as ex:
            inv["versions"].append((c, "NOT FOUND"))
            inv["errors"].append("%s: %s" % (c, ex))

    def attempt(lean, thunk):
        try:
            inv["defs"].append(thunk())
        except TErr as ex:
            msg = "%s: %s" % (lean, ex)
            inv["defs"].append((lean, msg))
            inv["errors"].append(msg)
        except RecursionError:
            msg = "%s: recursion limit" % lean
            inv["defs"].append((lean, msg))
            inv["errors"].append(msg)

    # ---- block-buffer + block-padding
    tr = None
    try:
        if "block-buffer" not in files:
            raise TErr("no source")
        bbf = CrateFile(os.path.join(files["block-buffer"], "src", "lib.rs"), "block-buffer/src/lib.rs")
        padf = None
        if "block-padding" in files:
            padf = CrateFile(os.path.join(files["block-padding"], "src", "lib.rs"), "block-padding/src/lib.rs")
        tr = BBTranslator(bbf, padf)
    except TErr as ex:
        inv["errors"].append("block-buffer: %s" % ex)
    if tr is not None:
        for lean, method, ts in BB_METHODS:
            attempt(lean, lambda lean=lean, method=method, ts=ts: tr.translate(lean, method, ts))
        known = set(m for _, m, _ in BB_METHODS) | set(BB_UNTRANSLATED)
        inv["consts"].append(("bb_methods", "List String", lean_str_list(tr.impl.order)))
        inv["consts"].append(("bb_untranslated", "List String", lean_str_list([m for m in tr.impl.order if m not in set(m for _, m, _ in BB_METHODS)])))
        try:
            sf = K.Source(files["block-buffer"], "src/lib.rs")
            gens, fields = sf.find_struct("BlockBuffer")
            inv["consts"].append(("bb_struct_fields", "List String", lean_str_list([f for f, _ in fields])))
        except TErr as ex:
            inv["errors"].append("struct BlockBuffer: %s" % ex)
    # ---- digest / cipher provided methods
    traits_inventory(inv, files, attempt)
    return inv


def blockbuffer_regenerate(repo="/repo", out=None, crate_dirs=None):
    """write lean/CC/Gen/BlockBufferSrc.lean (only when the content changes, to keep lake's cache warm)"""
    out = out or DEFAULT_OUT
    inv = blockbuffer_inventory(repo, crate_dirs)
    text = render(inv)
    os.makedirs(os.path.dirname(out), exist_ok=True)
    old = open(out, encoding="utf-8").read() if os.path.exists(out) else None
    if old != text:
        with open(out, "w", encoding="utf-8") as f:
            f.write(text)
    return inv, out


def main(argv):
    repo, out, dirs = "/repo", None, {}
    i = 0
    while i < len(argv):
        if argv[i] == "--repo":
            repo = argv[i + 1]
            i += 2
        elif argv[i] == "--out":
            out = argv[i + 1]
            i += 2
        elif argv[i] == "--crate":
            name, d = argv[i + 1].split("=", 1)
            dirs[name] = d
            i += 2
        else:
            raise SystemExit("usage: inventory_blockbuffer.py [--repo DIR] [--out FILE] [--crate NAME=DIR]...")
    inv, path = blockbuffer_regenerate(repo, out, dirs or None)
    print("%s: %d definitions, %d errors" % (path, len(inv["defs"]), len(inv["errors"])))
    for e in inv["errors"]:
        print("  ERROR " + e)
    return 0


if __name__ == "__main__":
    sys.exit(main(sys.argv[1:]))
