#!/usr/bin/env python3
"""tools/inventory_dispatch.py — the backend selection ladders, extracted from the source (property C03).

dispatch_inventory(repo="/repo")   (CLI: `python3 tools/inventory_dispatch.py [--repo DIR] [--out FILE | --print]`)

    Parses the three exported macros `dispatch!`, `dispatch_light128!`, `dispatch_light256!` of
    utils-simd/ppv-lite86/src/x86_64/mod.rs.  Per macro and per mode (`std`: the expansion under
    `#[cfg(feature = "std")]`, `nostd`: the one under `#[cfg(not(feature = "std"))]`) it reads the
    `if / else if / else` chain top to bottom; per arm
      * the guard: `is_x86_feature_detected!("…")` (std) resp. `cfg!(target_feature = "…")` (nostd);
        `none` for a final `else` that is an arm,
      * the function called (`impl_avx2` … / `fn_impl`),
      * the `#[target_feature(enable = "…")]` attributes on that function, in source order,
      * the `Machine` type instantiated (`$crate::x86_64::AVX2::instance()` → avx2), taken from the
        called function's body (std) or from the call itself (nostd),
    and what the final `else` does (`unimplemented!()` or an arm).  Everything under
    `#[cfg(cryptocorrosion_verif)]` (the H1 hook) is skipped.
    It also reads the type aliases `pub type SSE2 = SseMachine<NoS3, NoS4, NoNI>` … `pub type AVX2 =
    Avx2Machine<NoNI>` (for `Avx2Machine` the S3/S4 parameters of the 128-bit types in its `Machine` impl).

    Rendered deterministically (no line numbers) as lean/CC/Gen/Dispatch.lean:
      def extracted     : Macro → Mode → List Arm
      def finalElse     : Macro → Mode → String            ("unimplemented!()" | "arm")
      def machineFlags  : List (String × Bool × Bool × Bool)   (alias, S3, S4, isAvx2)
      def parseProblems : List String                       (anything the scanner did not understand)
    `CC.Thm.C03.ladder_extracted` / `machine_types_as_modelled` compare them with the hand-written model
    `CC.Simd.Dispatch`.  A feature or machine name the model has no constructor for is rendered as an
    unknown constructor, so that the generated file does not elaborate (the obligation fails).
Standard library only; self-contained.
"""
import os, re, sys

_HERE = os.path.dirname(os.path.abspath(__file__))
_LEAN = os.path.join(os.path.dirname(_HERE), "lean")

SOURCE = "utils-simd/ppv-lite86/src/x86_64/mod.rs"
MACROS = [("dispatch", "dispatch"), ("dispatch_light128", "light128"), ("dispatch_light256", "light256")]
MODES = ["std", "nostd"]
HOOK = "cryptocorrosion_verif"
# Rust feature string -> constructor of CC.Simd.Dispatch.F
FEATURES = {"sse2": "sse2", "ssse3": "ssse3", "sse4.1": "sse41", "avx": "avx", "avx2": "avx2"}
# type alias in x86_64/mod.rs -> constructor of CC.Simd.Backend (the alias name, lower-cased)
MACHINES = {"SSE2": "sse2", "SSSE3": "ssse3", "SSE41": "sse41", "AVX": "avx", "AVX2": "avx2"}


# --------------------------------------------------------------------------- lexical helpers

def strip_comments(src):
    """comments blanked (offsets kept); string literals are kept (the feature names live in them)."""
    out = list(src)
    i, n = 0, len(src)
    while i < n:
        if src.startswith("//", i):
            j = src.find("\n", i)
            j = n if j < 0 else j
            for k in range(i, j):
                out[k] = " "
            i = j
        elif src.startswith("/*", i):
            depth, j = 1, i + 2
            while j < n and depth:
                if src.startswith("/*", j):
                    depth, j = depth + 1, j + 2
                elif src.startswith("*/", j):
                    depth, j = depth - 1, j + 2
                else:
                    j += 1
            for k in range(i, j):
                if out[k] != "\n":
                    out[k] = " "
            i = j
        elif src[i] == '"':
            j = i + 1
            while j < n and src[j] != '"':
                j += 2 if src[j] == "\\" else 1
            i = j + 1
        else:
            i += 1
    return "".join(out)


def match_close(s, i):
    """index just past the bracket matching the opening bracket s[i] (string literals skipped); len(s) if unbalanced."""
    op = s[i]
    cl = {"{": "}", "(": ")", "[": "]"}[op]
    depth, j, n = 0, i, len(s)
    while j < n:
        c = s[j]
        if c == '"':
            j += 1
            while j < n and s[j] != '"':
                j += 2 if s[j] == "\\" else 1
        elif c == op:
            depth += 1
        elif c == cl:
            depth -= 1
            if depth == 0:
                return j + 1
        j += 1
    return n


def norm(s):
    return re.sub(r"\s+", " ", s).strip()


ATTR_RE = re.compile(r"#\[")


def skip_attrs_ws(s, i):
    """skip whitespace and `#[..]` attributes starting at i; returns (new index, [attribute texts])."""
    attrs = []
    while True:
        while i < len(s) and s[i].isspace():
            i += 1
        if s.startswith("#[", i):
            j = match_close(s, i + 1)
            attrs.append(norm(s[i:j]))
            i = j
        else:
            return i, attrs


def remove_hook_items(body, problems, where):
    """delete every item/statement that carries `#[cfg(cryptocorrosion_verif)]` (attribute included)."""
    out, i = [], 0
    pat = re.compile(r"#\[\s*cfg\s*\(\s*" + HOOK + r"\s*\)\s*\]")
    while True:
        m = pat.search(body, i)
        if not m:
            out.append(body[i:])
            return "".join(out)
        out.append(body[i:m.start()])
        j, _ = skip_attrs_ws(body, m.end())
        # the item ends at the first `;` or at the close of the first `{` (at bracket depth 0)
        k = j
        while k < len(body) and body[k] not in ";{":
            if body[k] in "([":
                k = match_close(body, k)
            else:
                k += 1
        if k >= len(body):
            problems.append("%s: hook attribute without an item" % where)
            i = j
        elif body[k] == ";":
            i = k + 1
        else:
            i = match_close(body, k)


# --------------------------------------------------------------------------- one expansion

FN_RE = re.compile(r"\bfn\s+(\w+)")
INSTANCE_RE = re.compile(r"\$crate\s*::\s*x86_64\s*::\s*(\w+)\s*::\s*instance\s*\(\s*\)")
ENABLE_RE = re.compile(r'#\[\s*target_feature\s*\(\s*enable\s*=\s*"([^"]*)"\s*\)\s*\]')
DETECT_RE = re.compile(r'^is_x86_feature_detected!\s*\(\s*"([^"]*)"\s*\)$')
CFGTF_RE = re.compile(r'^cfg!\s*\(\s*target_feature\s*=\s*"([^"]*)"\s*\)$')
CALL_RE = re.compile(r"^(\w+)\s*\((.*)\)\s*;?$", re.S)


def parse_inner_fns(body, problems, where):
    """nested `fn` items of an expansion: name -> dict(enabled=[..], attrs=[..], body=text, machines=[..], calls=[..]).
    Returns (fns, remainder) where remainder is the body with those items (and their attributes) removed."""
    fns, spans = {}, []
    pos = 0
    while True:
        m = FN_RE.search(body, pos)
        if not m:
            break
        name = m.group(1)
        # attributes + qualifiers (`unsafe`, `pub`, `const`, `extern "C"`) immediately before `fn`
        start = m.start()
        while True:
            pre = body[:start].rstrip()
            q = re.search(r"(\bunsafe|\bpub|\bconst|\binline)$", pre)
            if q:
                start = q.start()
                continue
            if pre.endswith("]"):
                # walk back to the matching `#[`
                depth, k = 0, len(pre) - 1
                while k >= 0:
                    if pre[k] == "]":
                        depth += 1
                    elif pre[k] == "[":
                        depth -= 1
                        if depth == 0:
                            break
                    k -= 1
                if k >= 1 and pre[k - 1] == "#":
                    start = k - 1
                    continue
            break
        attrs_text = body[start:m.start()]
        # generics, parameters
        i = m.end()
        while i < len(body) and body[i].isspace():
            i += 1
        if i < len(body) and body[i] == "<":
            depth = 0
            while i < len(body):
                if body[i] == "<":
                    depth += 1
                elif body[i] == ">":
                    depth -= 1
                    if depth == 0:
                        i += 1
                        break
                i += 1
        while i < len(body) and body[i].isspace():
            i += 1
        if i >= len(body) or body[i] != "(":
            problems.append("%s: fn %s: parameter list not found" % (where, name))
            pos = m.end()
            continue
        i = match_close(body, i)
        t = re.match(r"\s*(->\s*[^{]*?)?\s*(\$body\b|\{)", body[i:], re.S)
        if not t:
            problems.append("%s: fn %s: body not found" % (where, name))
            pos = i
            continue
        if t.group(2) == "{":
            b0 = i + t.end() - 1
            end = match_close(body, b0)
            fbody = body[b0 + 1:end - 1]
        else:
            end = i + t.end()
            fbody = "$body"
        if name in fns:
            problems.append("%s: fn %s defined twice" % (where, name))
        fns[name] = dict(
            attrs=[norm(a) for a in re.findall(r"#\[[^\]]*\]", attrs_text)],
            enabled=ENABLE_RE.findall(attrs_text),
            body=fbody,
            machines=INSTANCE_RE.findall(fbody),
            calls=re.findall(r"\b(\w+)\s*\(", re.sub(r"\$crate[\w:\s]*::instance\s*\(\s*\)", "", fbody)),
        )
        spans.append((start, end))
        pos = end
    rem, last = [], 0
    for a, b in spans:
        rem.append(body[last:a])
        last = b
    rem.append(body[last:])
    return fns, "".join(rem)


def parse_chain(text, problems, where):
    """`if C1 { B1 } else if C2 { B2 } … [else { Bn }]` -> [(cond text | None, body text)]."""
    arms, i = [], 0
    s = text.strip()
    while True:
        m = re.match(r"\s*if\b", s[i:])
        if not m:
            problems.append("%s: `if` expected in the selection chain at `%s`" % (where, norm(s[i:i + 40])))
            return arms
        i += m.end()
        j = i
        while j < len(s) and s[j] != "{":
            j = match_close(s, j) if s[j] in "([" else j + 1
        if j >= len(s):
            problems.append("%s: block of an `if` not found" % where)
            return arms
        cond = norm(s[i:j])
        e = match_close(s, j)
        arms.append((cond, norm(s[j + 1:e - 1])))
        i = e
        m = re.match(r"\s*else\b", s[i:])
        if not m:
            if s[i:].strip():
                problems.append("%s: text after the selection chain: `%s`" % (where, norm(s[i:])[:60]))
            return arms
        i += m.end()
        if re.match(r"\s*if\b", s[i:]):
            continue
        m = re.match(r"\s*\{", s[i:])
        if not m:
            problems.append("%s: block of the final `else` not found" % where)
            return arms
        j = i + m.end() - 1
        e = match_close(s, j)
        arms.append((None, norm(s[j + 1:e - 1])))
        if s[e:].strip():
            problems.append("%s: text after the selection chain: `%s`" % (where, norm(s[e:])[:60]))
        return arms


def parse_expansion(body, mode, problems, where):
    """body of the generated `fn $name` of one mode -> dict(arms=[…], final_else=str)."""
    body = remove_hook_items(body, problems, where)
    fns, rem = parse_inner_fns(body, problems, where)
    # the selection chain: the `unsafe { … }` block(s) left over that contain an `if`
    chains = []
    for m in re.finditer(r"\bunsafe\s*\{", rem):
        b0 = m.end() - 1
        e = match_close(rem, b0)
        inner = rem[b0 + 1:e - 1]
        if re.search(r"\bif\b", inner):
            chains.append(inner)
    if len(chains) != 1:
        problems.append("%s: expected exactly one `unsafe { if … }` selection chain, found %d" % (where, len(chains)))
        if not chains:
            return dict(arms=[], final_else="missing")
    raw = parse_chain(chains[0], problems, where)
    arms, final_else = [], "none"
    for idx, (cond, abody) in enumerate(raw):
        aw = "%s arm %d" % (where, idx + 1)
        if cond is None:
            guard, kind = None, None
        else:
            d, c = DETECT_RE.match(cond), CFGTF_RE.match(cond)
            if d:
                guard, kind = d.group(1), "detect"
            elif c:
                guard, kind = c.group(1), "cfg"
            else:
                problems.append("%s: guard not understood: `%s`" % (aw, cond))
                guard, kind = "?" + cond, None
            want = "detect" if mode == "std" else "cfg"
            if kind and kind != want:
                problems.append("%s: guard `%s` is not the %s kind of test the %s expansion is modelled with" % (
                    aw, cond, "run-time detection" if want == "detect" else "compile-time cfg!", mode))
        if re.match(r"^unimplemented!\s*\(\s*\)\s*;?$", abody):
            if cond is not None or idx != len(raw) - 1:
                problems.append("%s: `unimplemented!()` in a guarded arm" % aw)
            final_else = "unimplemented!()"
            continue
        cm = CALL_RE.match(abody)
        if not cm:
            problems.append("%s: arm body not understood: `%s`" % (aw, abody[:80]))
            arms.append(dict(guard=guard, fn="?" + abody[:40], enabled=[], machine="?"))
            if cond is None:
                final_else = "other"
            continue
        fname, args = cm.group(1), cm.group(2)
        direct = INSTANCE_RE.findall(args)
        f = fns.get(fname)
        if f is None:
            problems.append("%s: calls `%s`, which is not defined in the expansion" % (aw, fname))
        enabled = list(f["enabled"]) if f else []
        if direct:
            machines = direct
        elif f:
            machines = f["machines"]
            if "fn_impl" not in f["calls"]:
                problems.append("%s: `%s` does not call `fn_impl`" % (aw, fname))
        else:
            machines = []
        if len(machines) != 1:
            problems.append("%s: expected exactly one `$crate::x86_64::<T>::instance()`, found %s" % (aw, machines))
        arms.append(dict(guard=guard, fn=fname, enabled=enabled, machine=machines[0] if machines else "?"))
        if cond is None:
            final_else = "arm"
    return dict(arms=arms, final_else=final_else)


# --------------------------------------------------------------------------- the file

def find_macro(src, name):
    m = re.search(r"\bmacro_rules!\s*" + re.escape(name) + r"\s*\{", src)
    if not m:
        return None
    b0 = m.end() - 1
    return src[b0 + 1:match_close(src, b0) - 1]


STD_ATTR = re.compile(r'#\[\s*cfg\s*\(\s*feature\s*=\s*"std"\s*\)\s*\]')
NOSTD_ATTR = re.compile(r'#\[\s*cfg\s*\(\s*not\s*\(\s*feature\s*=\s*"std"\s*\)\s*\)\s*\]')


def parse_macro(mbody, name, problems):
    out = {}
    for mode, pat in (("std", STD_ATTR), ("nostd", NOSTD_ATTR)):
        where = "%s!/%s" % (name, mode)
        hits = list(pat.finditer(mbody))
        if len(hits) != 1:
            problems.append("%s: expected exactly one expansion under this cfg, found %d" % (where, len(hits)))
            if not hits:
                out[mode] = dict(arms=[], final_else="missing")
                continue
        i = hits[0].end()
        b0 = mbody.find("{", i)
        if b0 < 0 or not re.search(r"\bfn\s+\$name\b", mbody[i:b0]):
            problems.append("%s: generated `fn $name` not found after the cfg attribute" % where)
            out[mode] = dict(arms=[], final_else="missing")
            continue
        out[mode] = parse_expansion(mbody[b0 + 1:match_close(mbody, b0) - 1], mode, problems, where)
    return out


def parse_aliases(src, problems):
    """[(alias, S3, S4, isAvx2)] in source order, for the aliases of SseMachine / Avx2Machine."""
    # what Avx2Machine's Machine impl uses for its 128-bit-based types
    avx2_s3 = avx2_s4 = None
    m = re.search(r"\bimpl\s*<[^>]*>\s*Machine\s+for\s+Avx2Machine\s*<[^>]*>", src)
    if m:
        b0 = src.find("{", m.end())
        blk = src[b0:match_close(src, b0)]
        ps = re.findall(r"\btype\s+\w+\s*=\s*sse2\s*::\s*\w+_sse2\s*<\s*(\w+)\s*,\s*(\w+)\s*,\s*\w+\s*>", blk)
        if not ps:
            problems.append("Avx2Machine: no `_sse2<S3, S4, NI>` associated types found")
        else:
            s3s, s4s = set(p[0] for p in ps), set(p[1] for p in ps)
            if len(s3s) != 1 or len(s4s) != 1:
                problems.append("Avx2Machine: mixed S3/S4 parameters %s %s" % (sorted(s3s), sorted(s4s)))
            avx2_s3, avx2_s4 = ("YesS3" in s3s and len(s3s) == 1), ("YesS4" in s4s and len(s4s) == 1)
    else:
        problems.append("impl Machine for Avx2Machine not found")
    m = re.search(r"\bimpl\s*<[^>]*>\s*Machine\s+for\s+SseMachine\s*<\s*S3\s*,\s*S4\s*,\s*NI\s*>", src)
    if m:
        b0 = src.find("{", m.end())
        blk = src[b0:match_close(src, b0)]
        for p in re.findall(r"\btype\s+\w+\s*=\s*[\w:\s]*<([^>]*)>", blk):
            if norm(p).replace(" ", "") != "S3,S4,NI":
                problems.append("SseMachine: associated type instantiated with <%s> instead of <S3, S4, NI>" % norm(p))
    else:
        problems.append("impl Machine for SseMachine<S3, S4, NI> not found")
    out = []
    for m in re.finditer(r"\bpub\s+type\s+(\w+)\s*=\s*(SseMachine|Avx2Machine)\s*<([^>]*)>\s*;", src):
        alias, base, args = m.group(1), m.group(2), [a.strip() for a in m.group(3).split(",")]
        if base == "SseMachine":
            if len(args) != 3 or args[0] not in ("YesS3", "NoS3") or args[1] not in ("YesS4", "NoS4"):
                problems.append("alias %s: parameters not understood: <%s>" % (alias, ", ".join(args)))
                continue
            out.append((alias, args[0] == "YesS3", args[1] == "YesS4", False))
        else:
            out.append((alias, bool(avx2_s3), bool(avx2_s4), True))
    return out


def dispatch_inventory(repo="/repo"):
    """-> dict(source=…, macros={lean macro name: {mode: dict(arms=[dict(guard, fn, enabled, machine)], final_else)}},
               aliases=[(alias, S3, S4, isAvx2)], problems=[…])"""
    problems = []
    path = os.path.join(repo, SOURCE)
    if not os.path.exists(path):
        return dict(source=SOURCE, macros={ln: {md: dict(arms=[], final_else="missing") for md in MODES} for _, ln in MACROS},
                    aliases=[], problems=["source file %s not found" % SOURCE])
    src = strip_comments(open(path, errors="replace").read())
    macros = {}
    for rname, lname in MACROS:
        mb = find_macro(src, rname)
        if mb is None:
            problems.append("macro_rules! %s not found" % rname)
            macros[lname] = {md: dict(arms=[], final_else="missing") for md in MODES}
        else:
            macros[lname] = parse_macro(mb, rname, problems)
    return dict(source=SOURCE, macros=macros, aliases=parse_aliases(src, problems), problems=problems)


# --------------------------------------------------------------------------- Lean rendering

def _lean_str(s):
    return '"' + s.replace("\\", "\\\\").replace('"', '\\"').replace("\n", "\\n") + '"'


def _ident(s):
    return re.sub(r"\W", "_", s)


def _feat(f):
    # an unknown feature has no constructor in CC.Simd.Dispatch.F: the file must not elaborate
    return "." + FEATURES[f] if f in FEATURES else ".unknown_feature_" + _ident(f)


def _mach(t):
    return "." + MACHINES[t] if t in MACHINES else ".unknown_machine_" + _ident(t)


def _bool(b):
    return "true" if b else "false"


def render_lean(inv):
    L = ["/-",
         "  GENERATED by tools/inventory_dispatch.py — do not edit.  Regenerated on every `tools/check C03` from",
         "  " + inv["source"] + ": the arms of `dispatch!`, `dispatch_light128!`,",
         "  `dispatch_light256!`, top to bottom, in the `#[cfg(feature = \"std\")]` and the `#[cfg(not(feature = \"std\"))]`",
         "  expansion (guard feature, function called, `#[target_feature(enable = ..)]` list on that function,",
         "  `Machine` type instantiated), what the final `else` does, and the `Machine` type aliases (alias, S3, S4,",
         "  isAvx2).  Items under `#[cfg(cryptocorrosion_verif)]` are skipped.  No line numbers: the file changes",
         "  only when the macros do.  Compared with the hand-written `CC.Simd.Dispatch.ladder` by",
         "  `CC.Thm.C03.ladder_extracted`, `final_else_as_modelled`, `machine_types_as_modelled`, `extraction_clean`.",
         "-/",
         "import CC.Simd.Dispatch",
         "namespace CC.Gen.Dispatch",
         "open CC.Simd CC.Simd.Dispatch",
         "",
         "def extracted : Macro → Mode → List Arm"]
    for _, lname in MACROS:
        for md in MODES:
            arms = inv["macros"][lname][md]["arms"]
            if not arms:
                L.append("  | .%s, .%s => []" % (lname, md))
                continue
            L.append("  | .%s, .%s => [" % (lname, md))
            for k, a in enumerate(arms):
                g = "none" if a["guard"] is None else "some " + _feat(a["guard"])
                L.append("      ⟨%s, %s, [%s], %s⟩%s" % (g, _lean_str(a["fn"]), ", ".join(_feat(e) for e in a["enabled"]),
                                                      _mach(a["machine"]), "," if k + 1 < len(arms) else "]"))
    L += ["", "/-- what the final `else` of the chain does: `unimplemented!()`, or `arm` (it is the last arm above) -/",
          "def finalElse : Macro → Mode → String"]
    for _, lname in MACROS:
        for md in MODES:
            L.append("  | .%s, .%s => %s" % (lname, md, _lean_str(inv["macros"][lname][md]["final_else"])))
    L += ["", "/-- `pub type <alias> = SseMachine<S3, S4, NoNI>` / `Avx2Machine<NoNI>`: (alias, S3 = YesS3, S4 = YesS4, Avx2Machine) -/",
          "def machineFlags : List (String × Bool × Bool × Bool) := ["]
    al = inv["aliases"]
    for k, (a, s3, s4, a2) in enumerate(al):
        L.append("  (%s, %s, %s, %s)%s" % (_lean_str(a), _bool(s3), _bool(s4), _bool(a2), "," if k + 1 < len(al) else ""))
    L[-1] += "]"
    if not al:
        L[-1] = "def machineFlags : List (String × Bool × Bool × Bool) := []"
    L += ["", "/-- everything the scanner could not interpret (must be empty) -/"]
    if inv["problems"]:
        L.append("def parseProblems : List String := [")
        for k, p in enumerate(inv["problems"]):
            L.append("  %s%s" % (_lean_str(p), "," if k + 1 < len(inv["problems"]) else "]"))
    else:
        L.append("def parseProblems : List String := []")
    L += ["", "end CC.Gen.Dispatch"]
    return "\n".join(L) + "\n"


def render_text(inv):
    L = ["# dispatch ladders of %s (tools/inventory_dispatch.py)" % inv["source"]]
    for rname, lname in MACROS:
        for md in MODES:
            e = inv["macros"][lname][md]
            L.append("%s! [%s]   final else: %s" % (rname, md, e["final_else"]))
            for a in e["arms"]:
                L.append("    %-8s -> %-10s enable=[%s]  machine=%s" % (a["guard"] or "else", a["fn"], ",".join(a["enabled"]), a["machine"]))
    L.append("aliases: " + ", ".join("%s(S3=%s,S4=%s,avx2=%s)" % (a, int(s3), int(s4), int(a2)) for a, s3, s4, a2 in inv["aliases"]))
    for p in inv["problems"]:
        L.append("PROBLEM: " + p)
    return "\n".join(L) + "\n"


def dispatch_regenerate(repo="/repo", out=None):
    """write lean/CC/Gen/Dispatch.lean (only when the content changes, to keep lake's cache warm)."""
    out = out or os.path.join(_LEAN, "CC", "Gen", "Dispatch.lean")
    inv = dispatch_inventory(repo)
    text = render_lean(inv)
    os.makedirs(os.path.dirname(out), exist_ok=True)
    old = open(out).read() if os.path.exists(out) else None
    if old != text:
        with open(out, "w") as f:
            f.write(text)
    return inv, out


def main(argv):
    repo, out = "/repo", None
    it = iter(argv)
    for a in it:
        if a == "--repo":
            repo = next(it)
        elif a == "--out":
            out = next(it)
        elif a == "--print":
            out = "-"
    if out == "-":
        sys.stdout.write(render_lean(dispatch_inventory(repo)))
        return 0
    inv, path = dispatch_regenerate(repo, out)
    sys.stdout.write(render_text(inv))
    print("written: " + path)
    return 1 if inv["problems"] else 0


if __name__ == "__main__":
    sys.exit(main(sys.argv[1:]))
