#!/usr/bin/env python3
"""tools/inventory.py — source inventories regenerated from /repo on every run.

features_inventory(repo="/repo")  (CLI: `python3 tools/inventory.py features [--repo DIR] [--write]`)
    From every workspace crate's Cargo.toml: declared features, their implications, optional
    dependencies.  From the sources (module tree starting at src/lib.rs): every item guarded by
    `cfg`, with the predicate parsed into a small AST, and from those
      * groups of ALTERNATIVE items (same name, same scope, different cfg; aliases and their
        targets; glob re-exports; arms of exported macros, also per expanding crate),
      * items that name an OPTIONAL dependency (or `std` in a conditionally-no_std crate),
      * references to cfg-guarded names,
    rendered deterministically as lean/CC/Gen/Features.lean.
Standard library only; self-contained (other inventories live in functions of their own).
"""
import itertools, json, os, re, sys

try:
    import tomllib
except ImportError:  # pragma: no cover
    tomllib = None

# --------------------------------------------------------------------------- cfg predicate AST
# ('tt',) ('ff',) ('feat', crate, name) ('tf', n) ('arch', n) ('endian', n) ('flag', n)
# ('kv', key, value)  -> unknown key = "value" (kept as a flag atom "key=value")
# ('not', p) ('all', [p..]) ('any', [p..])

TT = ("tt",)
FF = ("ff",)
EXPANDER = "*"   # crate placeholder for `feature = ".."` inside an exported macro (definition site)


class CfgSyntax(Exception):
    pass


def _tok(s):
    out = []
    i = 0
    while i < len(s):
        c = s[i]
        if c.isspace():
            i += 1
        elif c in "(),=":
            out.append(c)
            i += 1
        elif c == '"':
            j = s.index('"', i + 1)
            out.append(("str", s[i + 1:j]))
            i = j + 1
        else:
            m = re.match(r"[A-Za-z_][A-Za-z0-9_]*", s[i:])
            if not m:
                raise CfgSyntax("bad character %r in cfg(%s)" % (c, s))
            out.append(("id", m.group(0)))
            i += len(m.group(0))
    return out


def parse_cfg(text, crate):
    """Parse the inside of `cfg( … )`."""
    toks = _tok(text)
    pos = [0]

    def peek():
        return toks[pos[0]] if pos[0] < len(toks) else None

    def take(x=None):
        t = peek()
        if t is None or (x is not None and t != x):
            raise CfgSyntax("expected %r at token %d of cfg(%s)" % (x, pos[0], text))
        pos[0] += 1
        return t

    def pred():
        t = take()
        if not (isinstance(t, tuple) and t[0] == "id"):
            raise CfgSyntax("identifier expected in cfg(%s)" % text)
        name = t[1]
        if name in ("all", "any", "not") and peek() == "(":
            take("(")
            args = []
            while peek() != ")":
                args.append(pred())
                if peek() == ",":
                    take(",")
            take(")")
            if name == "not":
                if len(args) != 1:
                    raise CfgSyntax("not() takes one argument in cfg(%s)" % text)
                return ("not", args[0])
            return (name, args)
        if peek() == "=":
            take("=")
            v = take()
            if not (isinstance(v, tuple) and v[0] == "str"):
                raise CfgSyntax("string expected after = in cfg(%s)" % text)
            v = v[1]
            if name == "feature":
                return ("feat", crate, v)
            if name == "target_feature":
                return ("tf", v)
            if name == "target_arch":
                return ("arch", v)
            if name == "target_endian":
                return ("endian", v)
            return ("flag", "%s=%s" % (name, v))
        return ("flag", name)

    p = pred()
    if peek() == ",":
        take(",")
    if peek() is not None:
        raise CfgSyntax("trailing tokens in cfg(%s)" % text)
    return p


def conj(ps):
    flat = []
    for p in ps:
        if p == TT:
            continue
        if p[0] == "all":
            flat.extend(q for q in p[1] if q != TT)
        else:
            flat.append(p)
    if not flat:
        return TT
    if len(flat) == 1:
        return flat[0]
    return ("all", flat)


def neg(p):
    if p == TT:
        return FF
    if p == FF:
        return TT
    if p[0] == "not":
        return p[1]
    return ("not", p)


def retarget(p, frm, to):
    """Replace the crate of feature atoms `frm` by `to` (macro body evaluated in the expanding crate)."""
    k = p[0]
    if k == "feat":
        return ("feat", to if p[1] == frm else p[1], p[2])
    if k == "not":
        return ("not", retarget(p[1], frm, to))
    if k in ("all", "any"):
        return (k, [retarget(q, frm, to) for q in p[1]])
    return p


def atoms(p, acc=None):
    acc = [] if acc is None else acc
    k = p[0]
    if k in ("feat", "tf", "arch", "endian", "flag"):
        if p not in acc:
            acc.append(p)
    elif k == "not":
        atoms(p[1], acc)
    elif k in ("all", "any"):
        for q in p[1]:
            atoms(q, acc)
    return acc


def ev(p, a):
    k = p[0]
    if k == "tt":
        return True
    if k == "ff":
        return False
    if k == "not":
        return not ev(p[1], a)
    if k == "all":
        return all(ev(q, a) for q in p[1])
    if k == "any":
        return any(ev(q, a) for q in p[1])
    return bool(a.get(p, False))


def imp(p, q):
    return ("any", [neg(p), q])


STANDING = ("all", [
    ("arch", "x86_64"),
    ("endian", "little"),
    ("not", ("endian", "big")),
    ("tf", "sse2"),
    imp(("tf", "avx2"), ("tf", "avx")),
    imp(("tf", "avx"), ("tf", "sse4.1")),
    imp(("tf", "sse4.1"), ("tf", "ssse3")),
    imp(("tf", "ssse3"), ("tf", "sse2")),
    imp(("tf", "aes"), ("tf", "sse2")),
])


def lean_str(s):
    return '"' + s.replace("\\", "\\\\").replace('"', '\\"') + '"'


def lean_cfg(p):
    k = p[0]
    if k == "tt":
        return ".tt"
    if k == "ff":
        return ".ff"
    if k == "feat":
        return "feat %s %s" % (lean_str(p[1]), lean_str(p[2]))
    if k in ("tf", "arch", "endian", "flag"):
        return "%s %s" % (k, lean_str(p[1]))
    if k == "not":
        return ".not (%s)" % lean_cfg(p[1])
    if k in ("all", "any"):
        return ".%s [%s]" % (k, ", ".join(lean_cfg(q) for q in p[1]))
    raise ValueError(p)


def show_cfg(p):
    k = p[0]
    if k in ("tt", "ff"):
        return {"tt": "true", "ff": "false"}[k]
    if k == "feat":
        return 'feature[%s]="%s"' % (p[1], p[2])
    if k == "tf":
        return 'target_feature="%s"' % p[1]
    if k == "arch":
        return 'target_arch="%s"' % p[1]
    if k == "endian":
        return 'target_endian="%s"' % p[1]
    if k == "flag":
        return p[1]
    if k == "not":
        return "not(%s)" % show_cfg(p[1])
    return "%s(%s)" % (k, ", ".join(show_cfg(q) for q in p[1]))


# --------------------------------------------------------------------------- Rust source scanning

def mask_source(src):
    """Blank out comments and the structural characters inside string/char literals, keeping all
    offsets and newlines (string contents stay readable: cfg attributes need them)."""
    out = list(src)
    n = len(src)
    i = 0

    def blank(a, b, only=None):
        for k in range(a, b):
            if out[k] != "\n" and (only is None or out[k] in only):
                out[k] = " "

    while i < n:
        c = src[i]
        if src.startswith("//", i):
            j = src.find("\n", i)
            j = n if j < 0 else j
            blank(i, j)
            i = j
        elif src.startswith("/*", i):
            depth, j = 1, i + 2
            while j < n and depth:
                if src.startswith("/*", j):
                    depth += 1
                    j += 2
                elif src.startswith("*/", j):
                    depth -= 1
                    j += 2
                else:
                    j += 1
            blank(i, j)
            i = j
        elif c == "r" and re.match(r'r#*"', src[i:]) and (i == 0 or not (src[i - 1].isalnum() or src[i - 1] == "_")):
            m = re.match(r'r(#*)"', src[i:])
            close = '"' + m.group(1)
            j = src.find(close, i + len(m.group(0)))
            j = n if j < 0 else j + len(close)
            blank(i + len(m.group(0)), j - len(close), only="{}();[]#!")
            i = j
        elif c == '"':
            j = i + 1
            while j < n and src[j] != '"':
                j += 2 if src[j] == "\\" else 1
            blank(i + 1, min(j, n), only="{}();[]#!")
            i = j + 1
        elif c == "'":
            m = re.match(r"'(\\.[^']*|[^\\'])'", src[i:])
            if m:
                blank(i + 1, i + len(m.group(0)) - 1)
                i += len(m.group(0))
            else:
                i += 1  # lifetime
        else:
            i += 1
    return "".join(out)


def _match_bracket(text, i, open_, close):
    depth = 0
    n = len(text)
    while i < n:
        if text[i] == open_:
            depth += 1
        elif text[i] == close:
            depth -= 1
            if depth == 0:
                return i
        i += 1
    return n - 1


HEADER_PATTERNS = [
    ("macro", re.compile(r"\bmacro_rules!\s*(\w+)\s*$")),
    ("extern_crate", re.compile(r"\bextern\s+crate\s+(\w+)(?:\s+as\s+(\w+))?\s*$")),
    ("mod", re.compile(r"^(?:pub(?:\([^)]*\))?\s+)?mod\s+(\w+)\s*$")),
    ("alias", re.compile(r"^(?:pub(?:\([^)]*\))?\s+)?use\s+([\w:$]+)\s+as\s+(\w+)\s*$")),
    ("glob", re.compile(r"^(?:pub(?:\([^)]*\))?\s+)?use\s+([\w:$]+)::\*\s*$")),
    ("use", re.compile(r"^(?:pub(?:\([^)]*\))?\s+)?use\s+(.+)$", re.S)),
    ("fn", re.compile(r"\bfn\s+(\$?\w+)")),
    ("static", re.compile(r"\b(?:static|const)\s+(?:mut\s+)?(\w+)\s*:")),
    ("type", re.compile(r"\b(?:struct|enum|union|trait|type)\s+(\w+)")),
    ("impl", re.compile(r"^\s*(?:unsafe\s+)?impl\b")),
]


def classify(header):
    h = " ".join(header.split())
    for kind, rx in HEADER_PATTERNS:
        m = rx.search(h)
        if m:
            if kind == "extern_crate":
                return kind, (m.group(2) or m.group(1)), m.group(1)
            if kind == "alias":
                return kind, m.group(2), m.group(1)
            if kind in ("glob", "use"):
                return kind, None, " ".join(m.group(1).split())
            if kind == "impl":
                return kind, None, h[:60]
            return kind, m.group(1), None
    return None, None, None


NAMESPACE = {"macro": "macro", "mod": "type", "alias": "type", "extern_crate": "type", "type": "type",
             "fn": "value", "static": "value"}


class Item:
    __slots__ = ("crate", "file", "line", "kind", "name", "target", "header", "own", "outer", "inner",
                 "scope", "start", "end", "macro", "exported", "is_scope", "body_start")

    def eff(self):
        return conj([self.outer, self.inner, self.own])

    def macro_part(self):
        """the part of the predicate written inside the macro body (evaluated by the expander)"""
        return conj([self.inner, self.own])

    def label(self, rel):
        h = " ".join(self.header.split())
        if len(h) > 70:
            h = h[:67] + "..."
        return "%s:%d %s" % (rel(self.file), self.line, h)


def scan_file(crate, path, file_pred, items, cond_attrs, errors):
    """Linear scan of one source file.  Appends Item objects; returns (masked text, file predicate
    including inner `#![cfg]`, list of (mod name, predicate, exported) for out-of-line modules)."""
    src = open(path, errors="replace").read()
    text = mask_source(src)
    n = len(text)
    line_of = [0] * (n + 1)
    ln = 1
    for k, ch in enumerate(text):
        line_of[k] = ln
        if ch == "\n":
            ln += 1
    line_of[n] = ln

    # stack entries: dict(item=Item|None, pred, in_macro, exported, brace_pos)
    stack = []
    file_inner = []
    pending = []
    pending_start = None
    pending_export = False
    header_start = 0
    depth_paren = 0
    paren_stack = []
    i = 0

    def outer_inner():
        outer, inner = [file_pred] + file_inner, []
        in_macro = None
        exported = False
        for e in stack:
            if in_macro is None:
                outer.append(e["pred"])
            else:
                inner.append(e["pred"])
            if e["macro"] and in_macro is None:
                in_macro, exported = e["macro"], e["exported"]
        return conj(outer), conj(inner), in_macro, exported

    def mk_item(header, own, end_pos, is_scope, at):
        kind, name, target = classify(header)
        outer, inner, in_macro, exported = outer_inner()
        it = Item()
        it.crate, it.file = crate, path
        it.line = line_of[pending_start if pending_start is not None else at]
        hs = header.lstrip()
        it.line = line_of[at - len(header) + (len(header) - len(hs))] if not pending else it.line
        it.kind, it.name, it.target, it.header = kind, name, target, header.strip()
        it.own, it.outer, it.inner = own, outer, inner
        it.scope = (path, stack[-1]["brace_pos"] if stack else -1)
        it.start = pending_start if pending_start is not None else at - len(header)
        it.end = end_pos
        it.macro, it.exported = in_macro, exported
        it.is_scope = is_scope
        it.body_start = at
        return it

    while i < n:
        c = text[i]
        if c == "#" and re.match(r"#\s*!?\s*\[", text[i:i + 8]):
            m = re.match(r"#\s*(!?)\s*\[", text[i:])
            inner_attr = m.group(1) == "!"
            lb = i + len(m.group(0)) - 1
            rb = _match_bracket(text, lb, "[", "]")
            body = text[lb + 1:rb].strip()
            try:
                if re.match(r"cfg\s*\(", body):
                    p = parse_cfg(body[body.index("(") + 1:body.rindex(")")], crate)
                    if inner_attr:
                        if stack:
                            stack[-1]["pred"] = conj([stack[-1]["pred"], p])
                        else:
                            file_inner.append(p)
                    else:
                        if not pending:
                            pending_start = i
                        pending.append(p)
                elif re.match(r"cfg_attr\s*\(", body):
                    inside = body[body.index("(") + 1:body.rindex(")")]
                    # first top-level comma separates predicate and attributes
                    d, cut = 0, None
                    for k, ch in enumerate(inside):
                        if ch == "(":
                            d += 1
                        elif ch == ")":
                            d -= 1
                        elif ch == "," and d == 0:
                            cut = k
                            break
                    p = parse_cfg(inside[:cut], crate)
                    outer, inner, in_macro, _ = outer_inner()
                    cond_attrs.append(dict(crate=crate, file=path, line=line_of[i], pred=p, outer=conj([outer, inner]),
                                           attrs=" ".join(inside[cut + 1:].split()), inner_attr=inner_attr,
                                           top=not stack))
                elif body == "macro_export":
                    pending_export = True
                elif inner_attr and body == "no_std":
                    cond_attrs.append(dict(crate=crate, file=path, line=line_of[i], pred=TT, outer=TT, attrs="no_std",
                                           inner_attr=True, top=not stack))
            except (CfgSyntax, ValueError) as e:
                errors.append("%s:%d: %s" % (path, line_of[i], e))
            i = rb + 1
            if not inner_attr or True:
                header_start = i
            continue
        if c in "([":
            depth_paren += 1
        elif c in ")]":
            depth_paren = max(0, depth_paren - 1)
        elif c == "{":
            header = text[header_start:i]
            it = mk_item(header, conj(pending), None, True, i)
            is_macro = it.kind == "macro"
            stack.append(dict(item=it, pred=it.own, macro=(it.name if is_macro else None),
                              exported=(pending_export if is_macro else False), brace_pos=i))
            if is_macro:
                it.exported = pending_export
            paren_stack.append(depth_paren)
            depth_paren = 0
            if pending or it.kind in ("macro", "mod", "fn"):
                items.append(it)
            pending, pending_start, pending_export = [], None, False
            header_start = i + 1
        elif c == "}":
            if stack:
                e = stack.pop()
                e["item"].end = i
                depth_paren = paren_stack.pop()
            header_start = i + 1
            # a `}` closes an item only at statement level; `=> { … };` in macros is handled by `;`
        elif c == ";" and depth_paren == 0:
            header = text[header_start:i]
            if header.strip():
                it = mk_item(header, conj(pending), i, False, i)
                if pending or it.kind in ("mod", "alias", "glob", "extern_crate", "use"):
                    items.append(it)
            pending, pending_start, pending_export = [], None, False
            header_start = i + 1
        i += 1
    return text, conj([file_pred] + file_inner)


def crate_sources(crate, root, items, cond_attrs, errors):
    """Follow the module tree from src/lib.rs.  Returns {path: (masked text, file predicate)}."""
    files = {}
    todo = [(os.path.join(root, "src", "lib.rs"), TT)]
    while todo:
        path, pred = todo.pop(0)
        if path in files or not os.path.exists(path):
            continue
        before = len(items)
        text, fpred = scan_file(crate, path, pred, items, cond_attrs, errors)
        files[path] = (text, fpred)
        base = os.path.basename(path)
        d = os.path.dirname(path)
        moddir = d if base in ("lib.rs", "mod.rs", "main.rs") else os.path.join(d, base[:-3])
        for it in items[before:]:
            if it.kind == "mod" and not it.is_scope and it.macro is None:
                # out-of-line module; nested inline modules contribute their names to the path
                sub = moddir
                for cand in (os.path.join(sub, it.name + ".rs"), os.path.join(sub, it.name, "mod.rs")):
                    if os.path.exists(cand):
                        todo.append((cand, it.eff()))
                        break
    return files


# --------------------------------------------------------------------------- Cargo manifests

def load_manifests(repo):
    ws = tomllib.load(open(os.path.join(repo, "Cargo.toml"), "rb"))
    crates = []
    for member in ws["workspace"]["members"]:
        root = os.path.join(repo, member)
        t = tomllib.load(open(os.path.join(root, "Cargo.toml"), "rb"))
        name = t["package"]["name"]
        deps = {}
        for key, spec in (t.get("dependencies") or {}).items():
            if isinstance(spec, str):
                spec = {"version": spec}
            deps[key] = dict(package=spec.get("package", key), optional=bool(spec.get("optional", False)),
                             default_features=spec.get("default-features", True),
                             features=list(spec.get("features", [])))
        feats = {k: list(v) for k, v in (t.get("features") or {}).items()}
        crates.append(dict(name=name, member=member, root=root, deps=deps, features=feats))
    return crates


def feature_points(cr):
    """All subsets of the declared (non-default) features, as sorted tuples."""
    names = sorted(f for f in cr["features"] if f != "default")
    pts = []
    for r in range(len(names) + 1):
        for sub in itertools.combinations(names, r):
            pts.append(sub)
    return pts


# --------------------------------------------------------------------------- the inventory

REF_PREFIX_OK = ("self", "super", "crate", "$crate")
ALWAYS_DEFINED = ("core", "std", "alloc")   # extern prelude: a guarded alias of that name only shadows it


def find_refs(text, name, kind):
    """Positions where `name` is used as a path segment / macro / function."""
    out = []
    if kind == "macro":
        rx = re.compile(r"(?<![\w$])%s\s*!" % re.escape(name))
    elif kind in ("fn", "static"):
        rx = re.compile(r"(?<![\w$])%s\s*\(" % re.escape(name)) if kind == "fn" else re.compile(r"(?<![\w$])%s\b" % re.escape(name))
    else:
        rx = re.compile(r"(?<![\w$])%s(?:\s*::|\s+as\s+\w+\s*;)" % re.escape(name))
    for m in rx.finditer(text):
        s = m.start()
        # preceding path segment, if any
        pm = re.search(r"([\w$]+)\s*::\s*$", text[max(0, s - 40):s])
        if pm and kind not in ("macro",) and pm.group(1) not in REF_PREFIX_OK:
            continue
        if kind == "fn" and re.search(r"\bfn\s+$", text[max(0, s - 12):s]):
            continue
        if kind == "macro" and re.search(r"macro_rules!\s*$", text[max(0, s - 20):s]):
            continue
        out.append(s)
    return out


def features_inventory(repo="/repo"):
    repo = os.path.abspath(repo)
    rel = lambda p: os.path.relpath(p, repo)
    crates = load_manifests(repo)
    by_name = {c["name"]: c for c in crates}
    errors = []
    inv = dict(repo=repo, crates=[], groups=[], optional_uses=[], name_refs=[], items=[], cond_attrs=[],
               cfg_macro_uses=[], errors=errors, expansions=[])

    all_items = {}
    all_files = {}
    cond_attrs_all = []
    for cr in crates:
        items, cattrs = [], []
        files = crate_sources(cr["name"], cr["root"], items, cattrs, errors)
        all_items[cr["name"]] = items
        all_files[cr["name"]] = files
        cond_attrs_all += cattrs
        cr["cond_attrs"] = cattrs
        # no_std predicate of the crate root
        nostd = FF
        for ca in cattrs:
            if ca["top"] and ca["inner_attr"] and re.search(r"\bno_std\b", ca["attrs"]) and ca["file"].endswith(os.path.join("src", "lib.rs")):
                nostd = ca["pred"]
        cr["no_std"] = nostd
        cr["std_available"] = neg(nostd)

    def intervals_at(crate, path, pos):
        ps = [all_files[crate][path][1]]
        for it in all_items[crate]:
            if it.file == path and it.own != TT and it.start <= pos and it.end is not None and pos <= it.end:
                ps.append(it.own)
        return conj(ps)

    def enclosing_macro(crate, path, pos):
        for it in all_items[crate]:
            if it.file == path and it.kind == "macro" and it.is_scope and it.start <= pos <= (it.end or -1):
                return it
        return None

    # ---- crate feature tables
    for cr in crates:
        c = cr["name"]
        optional = {k: d["package"] for k, d in cr["deps"].items() if d["optional"]}
        explicit_dep_syntax = any(r.startswith("dep:") for v in cr["features"].values() for r in v)
        impls = []
        for f in sorted(cr["features"]):
            for r in cr["features"][f]:
                if r.startswith("dep:"):
                    impls.append((("feat", c, f), ("feat", c, r[4:])))
                elif "/" in r:
                    key, sub = r.split("/", 1)
                    key = key.rstrip("?")
                    pkg = cr["deps"].get(key, {}).get("package", key)
                    if pkg in by_name:
                        impls.append((("feat", c, f), ("feat", pkg, sub)))
                    if key in optional:
                        impls.append((("feat", c, f), ("feat", c, key)))
                else:
                    impls.append((("feat", c, f), ("feat", c, r)))
        cr["implications"] = impls
        cr["optional"] = optional
        cr["implicit_features"] = [] if explicit_dep_syntax else sorted(optional)
        cr["points"] = feature_points(cr)
        inv["crates"].append(dict(
            name=c, member=cr["member"],
            features={k: cr["features"][k] for k in sorted(cr["features"])},
            optional_deps=dict(sorted(optional.items())),
            implications=[(show_cfg(a), show_cfg(b)) for a, b in impls],
            no_std=show_cfg(cr["no_std"]), lattice_points=len(cr["points"])))

    groups = []   # dict(crate, name, flavour, alts=[(label, pred)], kind, why)
    name_refs = []
    opt_uses = []
    item_rows = []

    # ---- every cfg-guarded item (mention analysis) + cfg!() expression uses
    for cr in crates:
        c = cr["name"]
        for it in all_items[c]:
            if it.own != TT:
                p = it.eff() if it.macro is None else conj([it.outer, retarget(it.macro_part(), c, EXPANDER if it.exported else c)])
                item_rows.append((c, it.label(rel), p))
        for ca in cr["cond_attrs"]:
            if ca["pred"] == TT:
                continue  # plain `#![no_std]`
            item_rows.append((c, "%s:%d cfg_attr(.., %s)" % (rel(ca["file"]), ca["line"], ca["attrs"]), conj([ca["outer"], ca["pred"]])))
        for path, (text, _) in sorted(all_files[c].items()):
            for m in re.finditer(r"\bcfg!\s*\(", text):
                rb = _match_bracket(text, m.end() - 1, "(", ")")
                try:
                    em = enclosing_macro(c, path, m.start())
                    p = parse_cfg(text[m.end():rb], EXPANDER if (em is not None and em.exported) else c)
                    inv["cfg_macro_uses"].append(dict(crate=c, where="%s:%d" % (rel(path), text.count("\n", 0, m.start()) + 1), pred=show_cfg(p)))
                    item_rows.append((c, "%s:%d cfg!(..)" % (rel(path), text.count("\n", 0, m.start()) + 1), p))
                except CfgSyntax as e:
                    errors.append(str(e))

    # ---- groups: same name, same scope, same namespace
    def item_pred(it, crate_for_macro):
        if it.macro is None:
            return it.eff()
        return conj([it.outer, retarget(it.macro_part(), it.crate, crate_for_macro)])

    exported_macros = {}   # name -> [definer Item]   (workspace-wide)
    for cr in crates:
        c = cr["name"]
        buckets = {}
        for it in all_items[c]:
            if it.kind not in NAMESPACE or it.name is None:
                continue
            if it.kind == "macro" and it.exported:
                scope = ("<crate root>", -1)
                exported_macros.setdefault(it.name, []).append(it)
            else:
                scope = it.scope
            buckets.setdefault((scope, NAMESPACE[it.kind], it.name), []).append(it)
        globs = {}
        for it in all_items[c]:
            if it.kind == "glob" and it.own != TT:
                globs.setdefault(it.scope, []).append(it)

        for (scope, ns, name), its in sorted(buckets.items(), key=lambda kv: (kv[1][0].file, kv[1][0].line)):
            guarded = [it for it in its if it.own != TT]
            if len(its) < 2 and not guarded:
                continue
            if name in ALWAYS_DEFINED and len(its) < 2:
                continue  # e.g. `#[cfg(feature = "std")] use std as core;`: `core` resolves either way
            if len(its) >= 2 and not guarded and not (its[0].kind == "macro" and its[0].exported):
                continue
            in_macro = its[0].macro
            evalcrate = EXPANDER if (in_macro and its[0].exported) else c
            if in_macro:
                # arms inside a macro body: only the part written in the body matters (the definition's
                # own guard is accounted for in the `expansion of …` groups)
                alts = [(it.label(rel), retarget(it.macro_part(), c, evalcrate)) for it in its]
            else:
                alts = [(it.label(rel), item_pred(it, evalcrate)) for it in its]
            # references to the name (whole crate), with their effective predicates
            refs = []
            if not in_macro:
                kind = its[0].kind if its[0].kind != "alias" else "mod"
                for path, (text, _) in sorted(all_files[c].items()):
                    for pos in find_refs(text, name, kind):
                        if any(it.file == path and it.start <= pos <= it.body_start for it in its):
                            continue  # the definer's own header
                        em = enclosing_macro(c, path, pos)
                        if em is not None and em.exported:
                            # inside an exported macro body: cfgs written there are evaluated by the
                            # expanding crate, but `$crate::name::` needs `name` to exist in this crate
                            # whenever the macro definition itself is compiled in
                            refs.append((path, pos, em.eff()))
                            continue
                        refs.append((path, pos, intervals_at(c, path, pos)))
            unconditional = any(p == TT for _, _, p in refs)
            if len(its) >= 2:
                exported_macro = its[0].kind == "macro" and its[0].exported
                flavour = "exactlyOne" if (unconditional or in_macro or exported_macro) else "atMostOne"
                why = ("exported macro: dependent crates expand it whatever this crate's configuration" if exported_macro else
                       "referenced unconditionally" if unconditional else
                       "arms of a macro body; the expansion defines the function that is then called" if in_macro else
                       "only referenced from cfg-guarded items (see nameRefs)")
                gname = "%s %s `%s`%s" % (rel(its[0].file), {"macro": "macro", "type": "module/alias", "value": "fn"}[ns], name,
                                          (" in macro %s!" % in_macro) if in_macro else "")
                groups.append(dict(crate=c, name=gname, flavour=flavour, alts=alts, why=why, key=(c, ns, name, in_macro)))
            if guarded and not in_macro:
                seen = {}
                for path, pos, p in refs:
                    if p == TT and len(its) >= 2:
                        continue  # covered by exactlyOne
                    lab = "%s:%d" % (rel(path), all_files[c][path][0].count("\n", 0, pos) + 1)
                    key = json.dumps(p)
                    if key in seen:
                        seen[key]["count"] += 1
                        continue
                    seen[key] = dict(crate=c, user=lab, name=name, pred=p, definers=[item_pred(it, c) for it in its], count=1)
                    name_refs.append(seen[key])
            # alias targets: `use self::x86_64 as arch` / `use self::generic as arch`
            if len(its) >= 2 and all(it.kind == "alias" for it in its):
                talts = []
                for it in its:
                    tname = it.target.split("::")[-1]
                    for (s2, ns2, n2), its2 in buckets.items():
                        if n2 == tname and ns2 == "type" and s2 == scope:
                            for d in its2:
                                talts.append((d.label(rel), item_pred(d, c)))
                if len(talts) >= 2:
                    groups.append(dict(crate=c, name="%s targets of alias `%s`" % (rel(its[0].file), name), flavour="exactlyOne",
                                       alts=talts, why="each alias names one of these modules; the alias group is exactlyOne",
                                       key=(c, "targets", name, None)))
        for scope, its in sorted(globs.items(), key=lambda kv: (kv[1][0].file, kv[1][0].line)):
            if len(its) >= 2:
                groups.append(dict(crate=c, name="%s glob re-exports" % rel(its[0].file), flavour="exactlyOne",
                                   alts=[(it.label(rel), it.eff()) for it in its],
                                   why="the parent module imports the re-exported names unconditionally",
                                   key=(c, "glob", rel(its[0].file), None)))

    # ---- expansions of exported macros in other workspace crates
    for cr in crates:
        c = cr["name"]
        dep_pkgs = {d["package"] for d in cr["deps"].values()}
        for mname, definers in sorted(exported_macros.items()):
            dcrate = definers[0].crate
            if dcrate == c or dcrate not in dep_pkgs:
                continue
            sites = []
            for path, (text, _) in sorted(all_files[c].items()):
                for pos in find_refs(text, mname, "macro"):
                    sites.append("%s:%d" % (rel(path), text.count("\n", 0, pos) + 1))
            if not sites:
                continue
            alts = []
            for d in sorted(definers, key=lambda x: (x.file, x.line)):
                inner = [it for it in all_items[dcrate] if it.macro == mname and it.file == d.file and d.start <= it.start <= (d.end or 0)
                         and it.kind == "fn" and it.macro_part() != TT]
                # keep only the arms of the first rule (same scope)
                inner = [it for it in inner if it.scope == inner[0].scope] if inner else []
                if inner:
                    for it in inner:
                        alts.append((d.label(rel) + " / " + it.label(rel), conj([d.eff(), retarget(it.macro_part(), dcrate, c)])))
                else:
                    alts.append((d.label(rel), d.eff()))
            groups.append(dict(crate=c, name="expansion of %s::%s! in %s" % (dcrate, mname, c), flavour="exactlyOne", alts=alts,
                               why="%d invocation(s): %s" % (len(sites), ", ".join(sites[:6])), key=(c, "expansion", mname, None)))
            inv["expansions"].append(dict(crate=c, macro=mname, defined_in=dcrate, sites=sites))
            # `std` named inside the macro body, evaluated here
            for d in definers:
                text, _ = all_files[dcrate][d.file]
                body = text[d.start:(d.end or d.start)]
                for m in re.finditer(r"(?<![\w$:])std\s*::|\bis_x86_feature_detected\s*!", body):
                    pos = d.start + m.start()
                    inner_pred = conj([it.own for it in all_items[dcrate]
                                       if it.file == d.file and it is not d and it.own != TT and d.start <= it.start and it.start <= pos <= (it.end or -1)])
                    opt_uses.append(dict(crate=c, item="%s:%d %s (expanded in %s)" % (rel(d.file), text.count("\n", 0, pos) + 1, m.group(0).strip(), c),
                                         dep="std", pred=conj([d.eff(), retarget(inner_pred, dcrate, c)]), needs=cr["std_available"]))

    # ---- items naming optional dependencies (and `std` in conditionally-no_std crates)
    for cr in crates:
        c = cr["name"]
        deps = [(k.replace("-", "_"), ("feat", c, k), k) for k in sorted(cr["optional"])]
        for path, (text, _) in sorted(all_files[c].items()):
            for ident, need, depname in deps:
                for m in re.finditer(r"(?<![\w$])%s\s*(?:::|!)|\bextern\s+crate\s+%s\b|\buse\s+%s\b" % (ident, ident, ident), text):
                    pos = m.start()
                    opt_uses.append(dict(crate=c, item="%s:%d %s" % (rel(path), text.count("\n", 0, pos) + 1, " ".join(m.group(0).split())),
                                         dep=depname, pred=intervals_at(c, path, pos), needs=need))
            for m in re.finditer(r"(?<![\w$:])std\s*::|\buse\s+std\b|\bextern\s+crate\s+std\b|\bis_x86_feature_detected\s*!", text):
                pos = m.start()
                em = enclosing_macro(c, path, pos)
                if em is not None and em.exported:
                    continue  # handled per expanding crate
                opt_uses.append(dict(crate=c, item="%s:%d %s" % (rel(path), text.count("\n", 0, pos) + 1, " ".join(m.group(0).split())),
                                     dep="std", pred=intervals_at(c, path, pos), needs=cr["std_available"]))
    # one row per (crate, dependency, predicate): first place it occurs + how many places
    ded = {}
    for u in opt_uses:
        key = (u["crate"], u["dep"], json.dumps(u["pred"]), json.dumps(u["needs"]))
        if key in ded:
            ded[key]["count"] += 1
        else:
            u["count"] = 1
            ded[key] = u
    opt_uses = list(ded.values())

    # ---- python-side evaluation (so that the report can name the assignment)
    def assignments(ats):
        for bits in itertools.product([False, True], repeat=len(ats)):
            yield dict(zip(ats, bits))

    findings = []
    for g in groups:
        ats = atoms(STANDING)
        for _, p in g["alts"]:
            atoms(p, ats)
        bad = None
        for a in assignments(ats):
            if not ev(STANDING, a):
                continue
            k = sum(1 for _, p in g["alts"] if ev(p, a))
            if (g["flavour"] == "exactlyOne" and k != 1) or (g["flavour"] == "atMostOne" and k > 1):
                bad = (a, k)
                break
        g["exclusive"] = bad is None
        if bad:
            g["witness"] = sorted(show_cfg(x) for x, v in bad[0].items() if v)
            findings.append("group not exclusive: [%s] %s: %d alternatives active under {%s}" % (g["crate"], g["name"], bad[1], ", ".join(g["witness"])))
    for u in opt_uses:
        impl = conj([imp(a, b) for a, b in by_name[u["crate"]]["implications"]])
        f = imp(conj([STANDING, impl, u["pred"]]), u["needs"])
        ats = atoms(f)
        u["guarded"] = True
        for a in assignments(ats):
            if not ev(f, a):
                u["guarded"] = False
                u["witness"] = sorted(show_cfg(x) for x, v in a.items() if v)
                findings.append("optional dependency `%s` named while disabled: [%s] %s under {%s}" % (u["dep"], u["crate"], u["item"], ", ".join(u["witness"])))
                break
    for r in name_refs:
        f = imp(conj([STANDING, r["pred"]]), ("any", list(r["definers"])))
        ats = atoms(f)
        r["resolved"] = True
        for a in assignments(ats):
            if not ev(f, a):
                r["resolved"] = False
                r["witness"] = sorted(show_cfg(x) for x, v in a.items() if v)
                findings.append("reference to `%s` with no active definition: [%s] %s under {%s}" % (r["name"], r["crate"], r["user"], ", ".join(r["witness"])))
                break

    # ---- unused features
    unused = []
    mentioned = set()
    for cc, _, p in item_rows:
        for a in atoms(p):
            if a[0] == "feat":
                mentioned.add((a[1], a[2]))
    for coll, key in ((groups, None), (opt_uses, "pred"), (name_refs, "pred")):
        for g in coll:
            for p in ([q for _, q in g["alts"]] if key is None else [g[key]]):
                for a in atoms(p):
                    if a[0] == "feat":
                        mentioned.add((a[1], a[2]))
    all_impl = [(a[1:], b[1:]) for cr in crates for a, b in cr["implications"]]

    def closure(cf):
        seen, todo = [cf], [cf]
        while todo:
            x = todo.pop()
            for a, b in all_impl:
                if a == x and b not in seen:
                    seen.append(b)
                    todo.append(b)
        return seen
    for cr in crates:
        c = cr["name"]
        for f in sorted(cr["features"]):
            if f != "default" and not any(x in mentioned for x in closure((c, f))):
                unused.append((c, f))
    inv.update(groups=groups, optional_uses=opt_uses, name_refs=name_refs, items=item_rows, cond_attrs=cond_attrs_all,
               unused_features=unused, findings=findings, _crates=crates)
    return inv


# --------------------------------------------------------------------------- Lean rendering

def render_lean(inv):
    L = []
    w = L.append
    w("/-")
    w("  CC.Gen.Features — GENERATED by tools/inventory.py (features_inventory). Do not edit.")
    w("  Source: the workspace Cargo.toml files and the module trees under */src of the tree being checked.")
    w("  Every `cfg` predicate is transcribed as written; `feat c n` is `feature = \"n\"` evaluated in crate c")
    w("  (crate \"*\": inside an exported macro body, i.e. evaluated by whichever crate expands it).")
    w("-/")
    w("import CC.Feat.Model")
    w("")
    w("namespace CC.Gen.Features")
    w("open CC.Feat CC.Feat.Cfg")
    w("")
    w("def crateFeatures : List CrateFeatures := [")
    rows = []
    for cr in inv["_crates"]:
        feats = ", ".join("(%s, [%s])" % (lean_str(f), ", ".join(lean_str(r) for r in cr["features"][f])) for f in sorted(cr["features"]))
        opts = ", ".join("(%s, %s)" % (lean_str(k), lean_str(v)) for k, v in sorted(cr["optional"].items()))
        impls = ", ".join("(%s, %s)" % (lean_cfg(a), lean_cfg(b)) for a, b in cr["implications"])
        rows.append("  { crate := %s, path := %s,\n    features := [%s],\n    optionalDeps := [%s],\n    implications := [%s],\n    noStd := %s,\n    latticePoints := %d }"
                    % (lean_str(cr["name"]), lean_str(cr["member"]), feats, opts, impls, lean_cfg(cr["no_std"]), len(cr["points"])))
    w(",\n".join(rows) + " ]")
    w("")
    w("def groups : List Group := [")
    rows = []
    for g in inv["groups"]:
        alts = ",\n      ".join("(%s, %s)" % (lean_str(n), lean_cfg(p)) for n, p in g["alts"])
        rows.append("  -- %s\n  { crate := %s, name := %s, flavour := .%s,\n    alts := [\n      %s ] }" % (
            g["why"], lean_str(g["crate"]), lean_str(g["name"]), g["flavour"], alts))
    w(",\n".join(rows) + " ]")
    w("")
    w("def optionalUses : List OptUse := [")
    rows = ["  { crate := %s, item := %s, dep := %s,\n    pred := %s,\n    needs := %s }" % (
        lean_str(u["crate"]), lean_str(u["item"] + (" (+%d more)" % (u["count"] - 1) if u["count"] > 1 else "")), lean_str(u["dep"]),
        lean_cfg(u["pred"]), lean_cfg(u["needs"])) for u in inv["optional_uses"]]
    w(",\n".join(rows) + " ]")
    w("")
    w("def nameRefs : List NameRef := [")
    rows = ["  { crate := %s, user := %s, name := %s,\n    pred := %s,\n    definers := [%s] }" % (
        lean_str(r["crate"]), lean_str(r["user"] + (" (+%d more)" % (r["count"] - 1) if r["count"] > 1 else "")), lean_str(r["name"]),
        lean_cfg(r["pred"]), ", ".join(lean_cfg(d) for d in r["definers"]))
        for r in inv["name_refs"]]
    w(",\n".join(rows) + " ]")
    w("")
    w("/-- every cfg-guarded item, `cfg_attr` and `cfg!()` use (for the analysis of which features are mentioned at all) -/")
    w("def guardedItems : List GuardedItem := [")
    rows = ["  { crate := %s, item := %s, pred := %s }" % (lean_str(c), lean_str(n), lean_cfg(p)) for c, n, p in inv["items"]]
    w(",\n".join(rows) + " ]")
    w("")
    w("end CC.Gen.Features")
    return "\n".join(L) + "\n"


def write_lean(inv, verif):
    path = os.path.join(verif, "lean", "CC", "Gen", "Features.lean")
    os.makedirs(os.path.dirname(path), exist_ok=True)
    new = render_lean(inv)
    old = open(path).read() if os.path.exists(path) else None
    if old != new:
        with open(path, "w") as f:
            f.write(new)
    return path, old != new


def summary(inv):
    return dict(
        crates={c["name"]: dict(features=sorted(k for k in c["features"]), optional_deps=c["optional_deps"], lattice_points=c["lattice_points"])
                for c in inv["crates"]},
        groups=[dict(crate=g["crate"], name=g["name"], flavour=g["flavour"], alternatives=len(g["alts"]), exclusive=g["exclusive"]) for g in inv["groups"]],
        optional_uses=len(inv["optional_uses"]), name_refs=len(inv["name_refs"]), guarded_items=len(inv["items"]),
        cfg_macro_uses=len(inv["cfg_macro_uses"]), expansions=inv["expansions"],
        unused_features=["%s/%s" % cf for cf in inv["unused_features"]], findings=inv["findings"], errors=inv["errors"])


def main(argv):
    if len(argv) < 2 or argv[1] != "features":
        print(__doc__)
        return 2
    repo = "/repo"
    if "--repo" in argv:
        repo = argv[argv.index("--repo") + 1]
    inv = features_inventory(repo)
    if "--write" in argv:
        verif = os.path.dirname(os.path.dirname(os.path.abspath(__file__)))
        path, changed = write_lean(inv, verif)
        print("wrote %s (%s)" % (path, "changed" if changed else "unchanged"), file=sys.stderr)
    if "--lean" in argv:
        sys.stdout.write(render_lean(inv))
    else:
        json.dump(summary(inv), sys.stdout, indent=1)
        print()
    return 0


if __name__ == "__main__":
    sys.exit(main(sys.argv))
