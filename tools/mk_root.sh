#!/bin/sh
# regenerate lean/CC.lean (imports every module except the Audit files)
cd "$(dirname "$0")/../lean"
(echo "-- root of the CC library: every module (regenerate with tools/mk_root.sh)"; find CC -name '*.lean' | grep -v "CC/Audit" | sort | sed 's/\.lean$//; s#/#.#g; s/^/import /') > CC.lean
