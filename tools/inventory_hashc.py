#!/usr/bin/env python3
"""tools/inventory_hashc.py — source-to-Lean translator, round 6: the hash COMPRESSORS that were still hand-transcribed.

    hashc_regenerate(repo)     writes lean/CC/Gen/HashCSrc.lean        (CLI: python3 tools/inventory_hashc.py [--repo DIR] [--print])

  * JH      hashes/jh/src/compressor.rs : `f8_impl` as a whole, the `dispatch!` wrapper `f8`, `Compressor::{new,input,finalize}`
  * Skein   hashes/skein/src/lib.rs     : the `Block<N>` union (byte / word views, `from_byte_array`, `default`, `bitxor`, `bytes`)
  * Grøstl  hashes/groestl/src/{compressor.rs,lib.rs} : the intrinsic dataflow of every function of compressor.rs and
            `Compressor512` / `Compressor1024`

A dedicated small symbolic evaluator (lexer / parsers of tools/inventory_kernels*.py re-used): every selected function
is evaluated into a hash-consed dataflow DAG and printed as an SSA `let` chain in canonical order (post-order from the
results).  Calls of functions that are translated themselves stay calls of the generated definition; everything else of
the same file (helper methods, trait impls, closures, local / file macros) is inlined.  Raw pointers, unions, `transmute!`,
`match` on a constant, function values are given the meaning printed in the header of the generated file (TRUSTED table).
Anything else is a translation ERROR (the definition becomes a `String`, listed in `<family>_hashc_errors`).
Standard library only; deterministic; no line numbers.
"""
import os, re, sys

_HERE = os.path.dirname(os.path.abspath(__file__))
sys.path.insert(0, _HERE)
import inventory_kernels as K
import inventory_kernels_code as KC
import inventory_kernels_glue as KG
from inventory_kernels import TErr, Tok, is_p, is_id, match_close, lex

DEFAULT_OUT = os.path.join(os.path.dirname(_HERE), "lean", "CC", "Gen", "HashCSrc.lean")


# =========================================================================== parser

class P4(KG.P3):
    """adds: raw pointer types, `unsafe { }`, `match` with literal arms, tuple-struct / `&` patterns, `#[allow]` in bodies"""

    def type_(self):
        if self.at_p("*") and (self.at_id("const", 1) or self.at_id("mut", 1)):
            self.i += 2
            return ("ptr", self.type_())
        return KG.P3.type_(self)

    def pattern(self):
        t = self.peek()
        if is_id(t) and t.s[:1].isupper() and self.at_p("(", 1):
            name = self.eat_id()
            self.eat_p("(")
            items = []
            while not self.at_p(")"):
                items.append(self.pattern())
                if self.at_p(","):
                    self.i += 1
            self.eat_p(")")
            return ("pstruct", name, items)
        if self.at_p("&"):
            self.i += 1
            if self.at_id("mut"):
                self.i += 1
            return self.pattern()
        return KC.P2.pattern(self)

    def block(self):
        if not self.at_p("{"):
            raise TErr("`{` expected at `%s`" % self.ctx())
        e = match_close(self.t, self.i)
        q = P4(self.t, self.i + 1, e - 1)
        stmts, tail = q.block_body()
        self.i = e
        return ("block", stmts, tail)

    def primary(self):
        t = self.peek()
        if is_id(t, "unsafe") and self.at_p("{", 1):
            self.i += 1
            return self.block()
        if is_id(t, "match"):
            self.i += 1
            scrut = self.expr()
            self.eat_p("{")
            arms = []
            while not self.at_p("}"):
                p = self.peek()
                if p is not None and p.k == "int":
                    pat = ("int", p.v)
                elif is_id(p, "_"):
                    pat = ("wild",)
                else:
                    raise TErr("match arm pattern `%s` is outside the language" % self.ctx())
                self.i += 1
                self.eat_p("=>")
                e = self.expr()
                if self.at_p(","):
                    self.i += 1
                arms.append((pat, e))
            self.eat_p("}")
            return ("match", scrut, arms)
        return KG.P3.primary(self)

    def block_body(self):
        stmts, tail = [], None
        while not self.done():
            if self.at_id("use"):
                while not self.at_p(";"):
                    self.i += 1
                self.i += 1
                continue
            if self.at_p(";"):
                self.i += 1
                continue
            if self.at_p("#"):
                e = K.skip_attr(self.t, self.i)
                txt = "".join(x.s for x in self.t[self.i:e])
                if not txt.startswith("#[allow("):
                    raise TErr("attribute %s inside a body" % txt)
                self.i = e
                continue
            if self.at_id("let"):
                self.i += 1
                pat = self.pattern()
                ty = None
                if self.at_p(":"):
                    self.i += 1
                    ty = self.type_()
                e = None
                if self.at_p("="):
                    self.i += 1
                    e = self.expr()
                self.eat_p(";")
                stmts.append(("let", pat, ty, e))
                continue
            if self.at_id("const") and self.at_id(None, 1) and self.at_p(":", 2):
                self.i += 1
                name = self.eat_id()
                self.eat_p(":")
                ty = self.type_()
                self.eat_p("=")
                e = self.expr()
                self.eat_p(";")
                stmts.append(("const", name, ty, e))
                continue
            if self.at_id("macro_rules") and self.at_p("!", 1):
                self.i += 2
                name = self.eat_id()
                e = match_close(self.t, self.i)
                stmts.append(("macrodef", name, self.t[self.i + 1:e - 1]))
                self.i = e
                continue
            if self.at_id("for"):
                self.i += 1
                pat = self.pattern()
                self.eat_id("in")
                it = self.expr()
                body = self.block()
                stmts.append(("for", pat, it, body))
                continue
            if self.at_id("if") or self.at_p("{") or (self.at_id("unsafe") and self.at_p("{", 1)):
                e = self.if_expr() if self.at_id("if") else self.primary()
                if self.done():
                    tail = e
                    break
                stmts.append(("expr", e))
                continue
            e = self.expr()
            t = self.peek()
            if t is None:
                tail = e
                break
            if t.k == "p" and t.s in self.ASSIGN_OPS:
                self.i += 1
                rhs = self.expr()
                if not self.done():
                    self.eat_p(";")
                stmts.append(("assign", e, None if t.s == "=" else t.s[:-1], rhs))
                continue
            if t.k == "p" and t.s == ";":
                self.i += 1
                stmts.append(("expr", e))
                continue
            if e[0] == "macro":
                stmts.append(("expr", e))
                continue
            raise TErr("statement not understood at `%s`" % self.ctx())
        return stmts, tail


# =========================================================================== one source file: items

class Fn(object):
    pass


class File(object):
    """token-level index of one Rust file (`#[cfg(test)]` items dropped): fns, impls, structs / unions, aliases, macros"""

    def __init__(self, repo, rel):
        self.rel = rel
        path = os.path.join(repo, rel)
        if not os.path.exists(path):
            raise TErr("source file %s not found" % rel)
        self.toks = t = K.drop_cfg_test(lex(open(path, encoding="utf-8", errors="replace").read()))
        n = len(t)
        self.macro_spans, self.macros = [], {}
        i = 0
        while i < n:
            if is_id(t[i], "macro_rules") and i + 3 < n and is_p(t[i + 1], "!") and is_id(t[i + 2]) \
                    and t[i + 3].k == "p" and t[i + 3].s in K.OPEN:
                e = match_close(t, i + 3)
                self.macro_spans.append((i, e))
                try:
                    self.macros[t[i + 2].s] = KC.MacroDef(t[i + 2].s, t[i + 4:e - 1])
                except TErr as ex:
                    self.macros[t[i + 2].s] = ex
                i = e
                continue
            i += 1
        self.impls = []          # (body start, body end, generics, trait text | None, self type text)
        for i in range(n):
            if is_id(t[i], "impl") and not self.in_macro(i) and not (i > 0 and (is_p(t[i - 1], ":") or is_p(t[i - 1], "("))):
                p = P4(t, i + 1)
                try:
                    gens = p.generics()
                except TErr:
                    continue
                j, depth = p.i, 0
                while j < n and not (is_p(t[j], "{") and depth <= 0):
                    if is_p(t[j], "<"):
                        depth += 1
                    elif is_p(t[j], ">"):
                        depth -= 1
                    elif is_p(t[j], ">>"):
                        depth -= 2
                    elif is_p(t[j], "<<"):
                        depth += 2
                    elif is_p(t[j], ";"):
                        break
                    j += 1
                if j >= n or not is_p(t[j], "{"):
                    continue
                hdr = t[p.i:j]
                for q, x in enumerate(hdr):
                    if is_id(x, "where"):
                        hdr = hdr[:q]
                        break
                trait = None
                depth = 0
                for q, x in enumerate(hdr):
                    if x.k == "p" and x.s in ("<", "("):
                        depth += 1
                    elif x.k == "p" and x.s in (">", ")"):
                        depth -= 1
                    elif x.k == "p" and x.s == ">>":
                        depth -= 2
                    elif x.k == "p" and x.s == "<<":
                        depth += 2
                    elif is_id(x, "for") and depth == 0:
                        trait, hdr = "".join(y.s for y in hdr[:q]), hdr[q + 1:]
                        break
                self.impls.append((j, match_close(t, j), gens, trait, "".join(y.s for y in hdr)))
        self.fns = []
        for i in range(n - 1):
            if is_id(t[i], "fn") and is_id(t[i + 1]) and not self.in_macro(i):
                try:
                    self.fns.append(self._fn(i))
                except TErr as ex:
                    f = Fn()
                    f.name, f.err, f.pos, f.impl = t[i + 1].s, ex, i, self.enclosing_impl(i)
                    self.fns.append(f)

    def in_macro(self, i):
        return any(a <= i < b for a, b in self.macro_spans)

    def enclosing_impl(self, i):
        best = None
        for im in self.impls:
            if im[0] < i < im[1] and (best is None or im[0] > best[0]):
                best = im
        return best

    def enclosing_dispatch(self, i):
        t = self.toks
        best = None
        for j in range(len(t) - 2):
            if is_id(t[j], "dispatch") and is_p(t[j + 1], "!") and is_p(t[j + 2], "("):
                e = match_close(t, j + 2)
                if j < i < e and (best is None or j > best[0]):
                    args = KC.split_args(t[j + 3:e - 1])
                    if len(args) >= 2 and len(args[0]) == 1 and len(args[1]) == 1:
                        best = (j, args[0][0].s, args[1][0].s)
        return best

    def enclosing_mods(self, i):
        t = self.toks
        out = []
        for j in range(len(t) - 2):
            if is_id(t[j], "mod") and is_id(t[j + 1]) and is_p(t[j + 2], "{"):
                e = match_close(t, j + 2)
                if j < i < e:
                    out.append(t[j + 1].s)
        return out

    def _fn(self, i):
        t = self.toks
        f = Fn()
        f.name, f.pos, f.err, f.file = t[i + 1].s, i, None, self
        f.impl = self.enclosing_impl(i)
        f.dispatch = self.enclosing_dispatch(i)
        f.mods = self.enclosing_mods(i)
        p = P4(t, i + 2)
        f.generics = p.generics()
        p.eat_p("(")
        f.params = []
        while not p.at_p(")"):
            if p.at_p("&") and (p.at_id("self", 1) or (p.at_id("mut", 1) and p.at_id("self", 2))):
                mut = p.at_id("mut", 1)
                p.i += 3 if mut else 2
                f.params.append((("self", "mut" if mut else "ref"), None))
            elif p.at_id("self") or (p.at_id("mut") and p.at_id("self", 1)):
                p.i += 2 if p.at_id("mut") else 1
                f.params.append((("self", "val"), None))
            else:
                pat = p.pattern()
                p.eat_p(":")
                f.params.append((pat, p.type_()))
            if p.at_p(","):
                p.i += 1
            elif not p.at_p(")"):
                raise TErr("parameter list of fn %s not understood at `%s`" % (f.name, p.ctx()))
        p.eat_p(")")
        f.ret = None
        if p.at_p("->"):
            p.i += 1
            f.ret = p.type_()
        while not p.at_p("{"):
            if p.done() or p.at_p(";"):
                raise TErr("fn %s has no body" % f.name)
            p.i += 1
        e = match_close(t, p.i)
        f.body = (p.i + 1, e - 1)
        return f

    def find_adt(self, name):
        """struct / union declaration -> (kind, generics, [(field, type)]) | None"""
        t = self.toks
        hits = [i for i in range(len(t) - 1) if (is_id(t[i], "struct") or is_id(t[i], "union")) and is_id(t[i + 1], name)
                and not self.in_macro(i)]
        if not hits:
            return None
        if len(hits) > 1:
            raise TErr("%s is declared %d times in %s" % (name, len(hits), self.rel))
        i = hits[0]
        p = P4(t, i + 2)
        gens = p.generics()
        while not (p.at_p("{") or p.at_p("(") or p.at_p(";")):
            p.i += 1
        fields = []
        if p.at_p(";"):
            return (t[i].s, gens, fields)
        e = match_close(t, p.i)
        named = p.at_p("{")
        q = P4(t, p.i + 1, e - 1)
        k = 0
        while not q.done():
            while q.at_p("#"):
                q.i = K.skip_attr(t, q.i)
            if q.at_id("pub"):
                q.i += 1
                if q.at_p("("):
                    q.i = match_close(t, q.i)
            if named:
                fn_ = q.eat_id()
                q.eat_p(":")
            else:
                fn_ = str(k)
            fields.append((fn_, q.type_()))
            k += 1
            if q.at_p(","):
                q.i += 1
        return (t[i].s, gens, fields)

    def find_alias(self, name):
        t = self.toks
        for i in range(len(t) - 3):
            if is_id(t[i], "type") and is_id(t[i + 1], name) and is_p(t[i + 2], "=") and not self.in_macro(i):
                p = P4(t, i + 3)
                return p.type_()
        return None

    def attrs_before(self, i):
        """texts of the attributes directly in front of the item whose `fn` token is at i (over `pub`, `unsafe`, …)"""
        t = self.toks
        j = i - 1
        while j >= 0 and (is_id(t[j]) and t[j].s in ("pub", "unsafe", "const", "extern")) or (j >= 0 and is_p(t[j], ")")):
            if is_p(t[j], ")"):
                d = 0
                while j >= 0:
                    if is_p(t[j], ")"):
                        d += 1
                    elif is_p(t[j], "("):
                        d -= 1
                        if d == 0:
                            break
                    j -= 1
            j -= 1
        out = []
        while j >= 0 and is_p(t[j], "]"):
            d, k = 0, j
            while k >= 0:
                if is_p(t[k], "]"):
                    d += 1
                elif is_p(t[k], "["):
                    d -= 1
                    if d == 0:
                        break
                k -= 1
            if k >= 1 and is_p(t[k - 1], "#"):
                out.append("".join(x.s for x in t[k - 1:j + 1]))
                j = k - 2
            else:
                break
        return list(reversed(out))


# =========================================================================== TRUSTED tables

VEC = {"u128x1": 128, "u128x2": 256, "vec128_storage": 128, "__m128i": 128}
INTS = {"u8": 8, "u16": 16, "u32": 32, "u64": 64, "i64": 64, "usize": 64, "i32": 32}
V = "BitVec 128"
# x86 intrinsics ↦ functions of lean/CC/Groestl/Intrin.lean; argument kinds: v = __m128i, q = i64 (BitVec 64),
# imm = literal immediate (Nat), p = pointer to __m128i (the bytes from the pointer's offset on)
INTRIN = {
    "_mm_xor_si128": ("mm_xor_si128", "vv"), "_mm_and_si128": ("mm_and_si128", "vv"),
    "_mm_cmpgt_epi8": ("mm_cmpgt_epi8", "vv"), "_mm_add_epi8": ("mm_add_epi8", "vv"),
    "_mm_shuffle_epi8": ("mm_shuffle_epi8", "vv"), "_mm_aesenclast_si128": ("mm_aesenclast_si128", "vv"),
    "_mm_unpacklo_epi16": ("mm_unpacklo_epi16", "vv"), "_mm_unpackhi_epi16": ("mm_unpackhi_epi16", "vv"),
    "_mm_unpacklo_epi32": ("mm_unpacklo_epi32", "vv"), "_mm_unpackhi_epi32": ("mm_unpackhi_epi32", "vv"),
    "_mm_unpacklo_epi64": ("mm_unpacklo_epi64", "vv"), "_mm_unpackhi_epi64": ("mm_unpackhi_epi64", "vv"),
    "_mm_shuffle_epi32": ("mm_shuffle_epi32", "vi"),
    "_mm_set_epi64x": ("mm_set_epi64x", "qq"), "_mm_set1_epi64x": ("mm_set1_epi64x", "q"),
    "_mm_cvtsi64_si128": ("mm_cvtsi64_si128", "q"), "_mm_loadu_si128": ("mm_loadu_si128", "p"),
}
MACH_BIN = {(128, "^"): "M.xor128 {0} {1}", (256, "^"): "M.xor256 {0} {1}", (256, "&"): "M.and256 {0} {1}",
            (256, "|"): "M.or256 {0} {1}"}
U64_BIN = {"^": "{0} ^^^ {1}", "&": "{0} &&& {1}", "|": "{0} ||| {1}", "*": "{0} * {1}", "+": "{0} + {1}", "-": "{0} - {1}"}
IDENT_METHODS = ("clone", "into", "as_slice", "as_mut_slice", "as_ref", "as_mut")


def trusted_lines():
    L = ["    types: M::u128x1, vec128_storage, __m128i ↦ BitVec 128;  M::u128x2 ↦ BitVec 256;  u64 / i64 ↦ BitVec 64;",
         "      [u8; n], GenericArray<u8, Un>, `*const u8` ↦ List (BitVec 8);  [u64; n] ↦ List (BitVec 64);  tuple structs and arrays",
         "      of vectors ↦ their components (flattened into parameters / result tuples, in declaration order);",
         "      a union ↦ its byte image (little endian target): a field write stores the bytes of the value, a field read",
         "      re-packs them: u128x1 / __m128i at byte offset o ↦ CC.ofLeBytes 128 ((b.drop o).take 16), u128x2 ↦ CC.ofLeBytes 256 …,",
         "      u64 at o ↦ CC.read64le (b.drop o);  bytes of a value: BitVec 128 ↦ CC.toLeBytes x 16, BitVec 64 ↦ CC.toLe64 x, aggregates ↦ ++",
         "      re-packing the little-endian bytes of a value at its own width gives the value (ofLe ∘ toLe = id, used when a union /",
         "      transmute round-trips a component); two u64 images side by side read as a vector ↦ hi ++ lo, a vector read as u64s ↦ qword",
         "    references, `*x`, `.clone()`, `.into()`, `.as_slice()`, `mach.unpack(x)` ↦ the value; `&mut` parameters are threaded",
         "      (result = returned value, then the final values of the `&mut` parameters in order); Rust's `&mut` exclusivity assumed",
         "    `p as *const T` ↦ the same bytes, element size size_of::<T>();  p.offset(k) / p.add(k) ↦ byte offset + k·size_of::<T>();",
         "      ptr::read_unaligned(p) ↦ the little-endian re-packing of size_of::<T>() bytes at p's offset;  x.as_ptr() ↦ offset 0 of x",
         "    transmute!(x) (zerocopy) ↦ byte image of x re-packed at the expected type; [u64; 2k] ↦ k×__m128i: w[2i+1] ++ w[2i];",
         "      __m128i ↦ 2×u64: qword x 0, qword x 1",
         "    `match c { lit => e, .. }`, `if c` on a constant ↦ the selected arm;  unrollN!(j, body) / local macro_rules ↦ expanded;",
         "      `M::u128x1::swapN` as a function value, applied ↦ M.swap128 N x;  closures / fn items as values ↦ applied (inlined)",
         "    a ^ b on M::u128x1 ↦ M.xor128 a b; on M::u128x2: ^ & | ↦ M.xor256 / M.and256 / M.or256; on u64 / i64: ^ & | * + - ↦ ^^^ &&& ||| * + -",
         "      (wrapping; an overflow check of i64 `*` is not modelled — the operands are round indices);  `x as i64` / `as u64` ↦ x",
         "    `for x in TABLE.chunks_exact(n)` ↦ List.foldl <generated body> init (chunksExact n TABLE); row[j] of a `[[u8; r]; _]` table",
         "      rendered as big-endian numbers ↦ CC.toBeBytes (row.getD j 0) r (j < n checked statically);",
         "      loops over local arrays / zips of static length ↦ unrolled",
         "    calls of functions that are generated definitions stay calls; `dispatch!(m, M, { fn f .. })` ↦ f with the machine M",
         "    x86 intrinsics ↦ CC.Groestl.Intrin (i64 arguments ↦ BitVec 64 literals, immediates ↦ Nat):"]
    for k in sorted(INTRIN):
        L.append("      %-22s %s ↦ %s" % (k, INTRIN[k][1], INTRIN[k][0]))
    return L


# =========================================================================== values / environments

def is_node(v):
    return isinstance(v, tuple) and len(v) == 2 and v[0] == "n"


def has_nodes(v):
    if is_node(v):
        return True
    if isinstance(v, tuple):
        if v and v[0] in ("closure", "mref"):
            return v[0] == "mref"
        return any(has_nodes(x) for x in v[1:])
    if isinstance(v, list):
        return any(has_nodes(x) for x in v)
    return False


class Env(object):
    def __init__(self, parent=None, barrier=False):
        self.d, self.parent, self.barrier, self.macros = {}, parent, barrier, {}

    def find(self, name):
        e, crossed = self, False
        while e is not None:
            if name in e.d:
                if crossed and has_nodes(e.d[name]):
                    raise TErr("the loop body reads the outer variable `%s` (captures are outside the language)" % name)
                return e
            if e.barrier:
                crossed = True
            e = e.parent
        return None

    def macro(self, name):
        e = self
        while e is not None:
            if name in e.macros:
                return e.macros[name]
            e = e.parent
        return None


class Ctx(object):
    def __init__(self, file, generics, selfname=None, selfg=None, machvar=None):
        self.file, self.generics, self.selfname, self.selfg, self.machvar = file, generics, selfname, selfg or {}, machvar


def projs(n):
    if n == 1:
        return [""]
    return [".2" * i + ".1" for i in range(n - 1)] + [".2" * (n - 1)]


# =========================================================================== the evaluator

class Ev(object):
    def __init__(self, files, keep, tables, subst=None):
        self.files, self.keep, self.tables, self.subst = files, keep, tables, subst or {}
        self.alias_fns = {}
        self.dag = K.Dag()
        self.blen = {}            # node id -> static length of a list-valued node
        self.usesM = False
        self.loops = []           # texts of loop-body definitions
        self.loopname = "loop"
        self.depth = 0

    # ---- nodes
    def leaf(self, name, ty, n=None):
        v = self.dag.leaf(name, ty)
        if n is not None:
            self.blen[v[1]] = n
        return v

    def app(self, tpl, args, ty, n=None):
        if "M." in tpl or " M " in tpl:
            self.usesM = True
        v = self.dag.app(tpl, args, ty)
        if n is not None:
            self.blen[v[1]] = n
        return v

    def ty(self, v):
        return self.dag.ty(v)

    def lit64(self, x):
        if not (0 <= x < 1 << 64):
            x &= (1 << 64) - 1
        return self.app("0x%016x#64" % x, [], "BitVec 64")

    def width(self, v):
        m = re.match(r"BitVec (\d+)$", self.ty(v)) if is_node(v) else None
        return int(m.group(1)) if m else None

    def is_bytes(self, v):
        return is_node(v) and self.ty(v) == "List (BitVec 8)"

    # ---- types
    def adt(self, name):
        for f in self.files:
            a = f.find_adt(name)
            if a is not None:
                return a
        return None

    def alias(self, name):
        for f in self.files:
            a = f.find_alias(name)
            if a is not None:
                return a
        return None

    def num(self, T):
        if T[0] != "num":
            raise TErr("a type-level number was expected, found %s" % (T,))
        return T[1]

    def rtype(self, ty, ctx):
        k = ty[0]
        if k == "ref":
            return ("ref", ty[1], self.rtype(ty[2], ctx))
        if k == "ptr":
            return ("ptr", self.rtype(ty[1], ctx))
        if k == "tuple":
            return ("tup", [self.rtype(x, ctx) for x in ty[1]]) if ty[1] else ("unit",)
        if k == "array" and ty[2] is None:
            return ("slice", self.rtype(ty[1], ctx))
        if k == "array":
            n = self.ev(ty[2], Env(), ctx)
            if not (isinstance(n, tuple) and n[0] == "int"):
                raise TErr("array length is not a constant")
            return ("arr", self.rtype(ty[1], ctx), n[1])
        if k == "opaque":
            m = re.match(r"<(\w+)asPartialDiv<U(\d+)>>::Output$", ty[1])
            if m:
                b = ctx.generics.get(m.group(1))
                if b is None or b[0] != "num" or b[1] % int(m.group(2)):
                    raise TErr("type %s: the parameter is not bound to a multiple" % ty[1])
                return ("num", b[1] // int(m.group(2)))
            raise TErr("type %s not understood" % ty[1])
        if k != "path":
            raise TErr("type form %s not understood" % k)
        segs, args = ty[1], ty[2]
        if segs[0] in ctx.generics:
            b = ctx.generics[segs[0]]
            if b[0] == "mach":
                if len(segs) == 1:
                    return ("mach",)
                if len(segs) == 2 and segs[1] in VEC:
                    return ("vec", segs[1])
                raise TErr("associated type %s of the machine has no carrier" % "::".join(segs))
            if len(segs) == 1:
                return b
            return ("any",)
        name = segs[-1]
        if segs[0] == "Self":
            if len(segs) > 1:
                return ("any",)
            if ctx.selfname is None:
                raise TErr("`Self` outside an impl")
            return self.adt_type(ctx.selfname, None, ctx, ctx.selfg)
        if name in INTS:
            return ("int", name)
        if name == "bool":
            return ("bool",)
        if name in VEC:
            return ("vec", name)
        m = re.match(r"U(\d+)$", name)
        if m and not args:
            return ("num", int(m.group(1)))
        if name in ("GenericArray", "BBGenericArray", "DGenericArray") and len(args) == 2:
            return ("arr", self.rtype(args[0], ctx), self.num(self.rtype(args[1], ctx)))
        al = self.alias(name)
        if al is not None:
            return self.rtype(al, ctx)
        if self.adt(name) is not None:
            return self.adt_type(name, [self.rtype(a, ctx) for a in args] if args else None, ctx)
        raise TErr("type %s not understood" % "::".join(segs))

    def adt_type(self, name, targs, ctx, gbind=None):
        kind, gens, fields = self.adt(name)
        gens = [g for g in gens if not g[0].startswith("'")]
        g = {}
        if gbind is not None:
            g = dict(gbind)
        elif targs is not None:
            if len(targs) != len(gens):
                raise TErr("%s: %d type arguments for %d parameters" % (name, len(targs), len(gens)))
            for (gn, _b), a in zip(gens, targs):
                g[gn] = a
        else:
            for gn, b in gens:
                g[gn] = ctx.generics.get(gn, ("mach",) if "Machine" in b else ("any",))
        c2 = Ctx(ctx.file, g)
        return ("adt", kind, name, [(f, self.rtype(t, c2)) for f, t in fields], g)

    def sizeof(self, T):
        k = T[0]
        if k == "vec":
            return VEC[T[1]] // 8
        if k == "int":
            return INTS[T[1]] // 8
        if k == "arr":
            return T[2] * self.sizeof(T[1])
        if k == "adt":
            szs = [self.sizeof(t) for _, t in T[3]]
            if T[1] == "union":
                if len(set(szs)) != 1:
                    raise TErr("union %s: fields of different sizes %s" % (T[2], szs))
                return szs[0]
            return sum(szs)
        raise TErr("size of type %s unknown" % (T,))

    def lty(self, T):
        k = T[0]
        if k == "vec":
            return "BitVec %d" % VEC[T[1]]
        if k == "int":
            return "Nat" if T[1] == "usize" else "BitVec %d" % INTS[T[1]]
        if k == "arr" and T[1][0] == "int":
            return "List (%s)" % self.lty(T[1])
        raise TErr("no carrier for type %s" % (T,))

    # ---- fresh parameter values
    def fresh(self, T, name, leaves):
        k = T[0]
        if k == "ref":
            return self.fresh(T[2], name, leaves)
        if k == "mach":
            return ("mach",)
        if k in ("vec", "int"):
            leaves.append((name, self.lty(T)))
            return self.leaf(name, self.lty(T))
        if k == "arr" and T[1] == ("int", "u8"):
            leaves.append((name, "List (BitVec 8)"))
            return self.leaf(name, "List (BitVec 8)", T[2])
        if k == "arr" and T[1][0] == "int":
            leaves.append((name, self.lty(T)))
            l = self.leaf(name, self.lty(T), T[2])
            return ("arr", [self.app("{0}.getD %d 0" % i, [l], self.lty(T[1])) for i in range(T[2])])
        if k == "arr":
            return ("arr", [self.fresh(T[1], "%s_%d" % (name, i), leaves) for i in range(T[2])])
        if k == "tup":
            return ("tup", [self.fresh(t, "%s_%d" % (name, i), leaves) for i, t in enumerate(T[1])])
        if k == "ptr":
            leaves.append((name, "List (BitVec 8)"))
            return ("ptr", self.leaf(name, "List (BitVec 8)"), self.sizeof(T[1]), 0)
        if k == "adt" and T[1] == "struct":
            return ("rec", T[2], [(f, self.fresh(t, "%s_%s" % (name, f), leaves)) for f, t in T[3]], T[4])
        if k == "adt" and T[1] == "union":
            leaves.append((name, "List (BitVec 8)"))
            return ("union", T, self.leaf(name, "List (BitVec 8)", self.sizeof(T)))
        raise TErr("parameter %s: type %s has no representation" % (name, T))

    # ---- byte images
    def slice(self, b, off, n):
        if off == 0 and self.blen.get(b[1]) == n:
            return b
        return self.app("({0}.drop %d).take %d" % (off, n), [b], "List (BitVec 8)", n)

    def drop(self, b, off):
        return b if off == 0 else self.app("{0}.drop %d" % off, [b], "List (BitVec 8)")

    def concat(self, parts):
        parts = [p for p in parts if self.blen.get(p[1]) != 0]
        if len(parts) == 1:
            return parts[0]
        n = sum(self.blen[p[1]] for p in parts)
        return self.app(" ++ ".join("{%d}" % i for i in range(len(parts))), parts, "List (BitVec 8)", n)

    def bytes_of(self, v):
        v = self.val(v)
        if is_node(v):
            w = self.width(v)
            if self.is_bytes(v):
                if v[1] not in self.blen:
                    raise TErr("byte image of a buffer of unknown length")
                return v
            if w == 64:
                return self.app("CC.toLe64 {0}", [v], "List (BitVec 8)", 8)
            if w in (128, 256):
                return self.app("CC.toLeBytes {0} %d" % (w // 8), [v], "List (BitVec 8)", w // 8)
            if w == 8:
                return self.app("[{0}]", [v], "List (BitVec 8)", 1)
            raise TErr("byte image of a %s" % self.ty(v))
        if v[0] == "union":
            return v[2]
        if v[0] in ("arr", "tup"):
            return self.concat([self.bytes_of(x) for x in v[1]])
        if v[0] == "rec":
            return self.concat([self.bytes_of(x) for _, x in v[2]])
        raise TErr("byte image of a %s value" % v[0])

    def concat_part(self, b, off, n):
        """b = p0 ++ p1 ++ …: the part that starts at byte `off` and has n bytes, if there is one"""
        nd = self.dag.nodes[b[1]]
        if nd[0] != "app" or not re.match(r"^\{0\}( \+\+ \{\d+\})+$", nd[1]):
            return None
        o = 0
        for a in nd[2]:
            ln = self.blen.get(a)
            if ln is None:
                return None
            if o == off and ln == n:
                return ("n", a)
            o += ln
        return None

    def from_bytes(self, b, off, T):
        k = T[0]
        if k in ("vec", "int"):
            # little-endian round trip: re-packing the bytes of a value of the same width gives the value
            part = self.concat_part(b, off, self.sizeof(T))
            if part is None and off == 0 and self.blen.get(b[1]) == self.sizeof(T):
                part = b
            if part is not None:
                nd = self.dag.nodes[part[1]]
                if nd[0] == "app" and nd[1] in ("CC.toLe64 {0}", "CC.toLeBytes {0} %d" % self.sizeof(T)) \
                        and self.dag.nodes[nd[2][0]][-1] == self.lty(T):
                    return ("n", nd[2][0])
                b, off = part, 0
        if k == "vec":
            w = VEC[T[1]]
            return self.app("CC.ofLeBytes %d {0}" % w, [self.slice(b, off, w // 8)], "BitVec %d" % w)
        if k == "int" and T[1] in ("u64", "i64"):
            return self.app("CC.read64le {0}", [self.drop(b, off)], "BitVec 64")
        if k == "int" and T[1] == "u8":
            return self.app("{0}.getD %d 0" % off, [b], "BitVec 8")
        if k == "arr" and T[1] == ("int", "u8"):
            return self.slice(b, off, T[2])
        if k == "arr":
            s = self.sizeof(T[1])
            return ("arr", [self.from_bytes(b, off + i * s, T[1]) for i in range(T[2])])
        if k == "adt" and T[1] == "struct":
            out, o = [], off
            for f, t in T[3]:
                out.append((f, self.from_bytes(b, o, t)))
                o += self.sizeof(t)
            return ("rec", T[2], out, T[4])
        if k == "adt" and T[1] == "union":
            return ("union", T, self.slice(b, off, self.sizeof(T)))
        raise TErr("re-packing bytes as %s is outside the language" % (T,))

    def atoms(self, v, out):
        v = self.val(v)
        if is_node(v):
            out.append(v)
        elif v[0] in ("arr", "tup"):
            for x in v[1]:
                self.atoms(x, out)
        elif v[0] == "rec":
            for _, x in v[2]:
                self.atoms(x, out)
        elif v[0] == "union":
            out.append(v[2])
        else:
            raise TErr("a %s value inside a transmuted value" % v[0])
        return out

    def tatoms(self, T, out):
        k = T[0]
        if k in ("vec", "int"):
            out.append(self.lty(T))
        elif k == "arr" and T[1] == ("int", "u8"):
            out.append("bytes")
        elif k == "arr":
            for _ in range(T[2]):
                self.tatoms(T[1], out)
        elif k == "adt" and T[1] == "struct":
            for _, t in T[3]:
                self.tatoms(t, out)
        else:
            out.append("other")
        return out

    def build(self, T, it):
        """value of type T from an iterator of component nodes (same order as tatoms)"""
        k = T[0]
        if k in ("vec", "int"):
            return next(it)
        if k == "arr":
            return ("arr", [self.build(T[1], it) for _ in range(T[2])])
        if k == "adt":
            return ("rec", T[2], [(f, self.build(t, it)) for f, t in T[3]], T[4])
        raise TErr("cannot build a %s" % (T,))

    def unconcat(self, b):
        """the values whose byte images make up b (b = toLe64 x0 ++ toLeBytes x1 16 ++ …), or None"""
        nd = self.dag.nodes[b[1]]
        if nd[0] != "app":
            return None
        parts = [("n", a) for a in nd[2]] if re.match(r"^\{0\}( \+\+ \{\d+\})+$", nd[1]) else [b]
        out = []
        for p in parts:
            pn = self.dag.nodes[p[1]]
            if pn[0] == "app" and pn[1] in ("CC.toLe64 {0}", "CC.toLeBytes {0} 16"):
                out.append(("n", pn[2][0]))
            else:
                return None
        return out

    def repack(self, src, T):
        """fast paths of a re-packing between 64-bit words and 128-bit vectors; None when they do not apply"""
        dst = self.tatoms(T, [])
        st = [self.ty(x) for x in src]
        if st and all(s == "BitVec 64" for s in st) and all(d == V for d in dst) and len(st) == 2 * len(dst):
            parts = [self.app("{0} ++ {1}", [src[2 * i + 1], src[2 * i]], V) for i in range(len(dst))]
            return self.build(T, iter(parts))
        if st and all(s == V for s in st) and all(d == "BitVec 64" for d in dst) and len(dst) == 2 * len(st):
            parts = []
            for x in src:
                parts += [self.app("qword {0} 0", [x], "BitVec 64"), self.app("qword {0} 1", [x], "BitVec 64")]
            return self.build(T, iter(parts))
        return None

    def transmute(self, v, T):
        if T[0] == "ref":
            T = T[2]
        if T[0] == "any":
            raise TErr("transmute!: the expected type is not known here")
        src, dst = self.atoms(v, []), self.tatoms(T, [])
        st = [self.ty(x) for x in src]
        if st and all(s == "BitVec 64" for s in st) and all(d == V for d in dst) and len(st) == 2 * len(dst):
            parts = [self.app("{0} ++ {1}", [src[2 * i + 1], src[2 * i]], V) for i in range(len(dst))]
            return self.build(T, iter(parts))
        if st and all(s == V for s in st) and all(d == "BitVec 64" for d in dst) and len(dst) == 2 * len(st):
            parts = []
            for x in src:
                parts += [self.app("qword {0} 0", [x], "BitVec 64"), self.app("qword {0} 1", [x], "BitVec 64")]
            return self.build(T, iter(parts))
        b = self.bytes_of(v)
        if self.blen[b[1]] != self.sizeof(T):
            raise TErr("transmute! between types of different sizes (%d, %d)" % (self.blen[b[1]], self.sizeof(T)))
        return self.from_bytes(b, 0, T)

    # ---- places (lvalues)
    def val(self, v):
        while isinstance(v, tuple) and v and v[0] == "mref":
            v = self.load(v[1])
        return v

    def load(self, place):
        env, name, path = place
        v = env.d[name]
        for el in path:
            v = self.get_elem(self.val(v), el)
        return v

    def store(self, place, new):
        env, name, path = place
        cur = env.d[name]
        if isinstance(cur, tuple) and cur and cur[0] == "mref":
            return self.store((cur[1][0], cur[1][1], cur[1][2] + tuple(path)), new)
        env.d[name] = self.set_path(cur, path, new)

    def set_path(self, v, path, new):
        if not path:
            return new
        if isinstance(v, tuple) and v and v[0] == "mref":
            self.store((v[1][0], v[1][1], v[1][2] + tuple(path)), new)
            return v
        child = self.set_path(self.get_elem(v, path[0]), path[1:], new)
        return self.set_elem(v, path[0], child)

    def get_elem(self, v, el):
        kind, key = el
        if v[0] == "rec":
            d = dict(v[2])
            if str(key) not in d:
                raise TErr("no field %s in %s" % (key, v[1]))
            return d[str(key)]
        if v[0] == "union":
            d = dict(v[1][3])
            if str(key) not in d:
                raise TErr("no field %s in union %s" % (key, v[1][2]))
            src = self.unconcat(v[2])
            if src is not None:
                r = self.repack(src, d[str(key)])
                if r is not None:
                    return r
            return self.from_bytes(v[2], 0, d[str(key)])
        if v[0] in ("tup", "arr"):
            i = int(key)
            if not 0 <= i < len(v[1]):
                raise TErr("index %d outside a sequence of %d" % (i, len(v[1])))
            return v[1][i]
        if v[0] == "rows" and kind == "i":
            _, node, n, rb = v
            if not 0 <= key < n:
                raise TErr("index %d outside a chunk of %d rows" % (key, n))
            e = self.app("{0}.getD %d 0" % key, [node], "BitVec %d" % (8 * rb))
            return self.app("CC.toBeBytes {0} %d" % rb, [e], "List (BitVec 8)", rb)
        if is_node(v) and kind == "i" and self.ty(v).startswith("List ("):
            n = self.blen.get(v[1])
            if n is None or not 0 <= key < n:
                raise TErr("index %d is not provably inside the list" % key)
            return self.app("{0}.getD %d 0" % key, [v], self.ty(v)[6:-1])
        raise TErr("component %s of a %s value" % (key, v[0] if not is_node(v) else self.ty(v)))

    def set_elem(self, v, el, new):
        kind, key = el
        if v[0] == "rec":
            if str(key) not in dict(v[2]):
                raise TErr("no field %s in %s" % (key, v[1]))
            return ("rec", v[1], [(f, new if f == str(key) else x) for f, x in v[2]], v[3])
        if v[0] == "union":
            d = dict(v[1][3])
            if str(key) not in d:
                raise TErr("no field %s in union %s" % (key, v[1][2]))
            b = self.bytes_of(new)
            if self.blen[b[1]] != self.sizeof(v[1]):
                raise TErr("union %s: a field of another size is written" % v[1][2])
            return ("union", v[1], b)
        if v[0] in ("tup", "arr"):
            i = int(key)
            if not 0 <= i < len(v[1]):
                raise TErr("index %d outside a sequence of %d" % (i, len(v[1])))
            return (v[0], [new if j == i else x for j, x in enumerate(v[1])])
        raise TErr("assignment to a component of a %s value" % (v[0] if not is_node(v) else self.ty(v)))

    def place_of(self, e, env, ctx):
        k = e[0]
        if k == "paren":
            return self.place_of(e[1], env, ctx)
        if k == "path" and len(e[1]) == 1:
            en = env.find(e[1][0])
            if en is None:
                raise TErr("unknown variable %s" % e[1][0])
            v = en.d[e[1][0]]
            if isinstance(v, tuple) and v and v[0] == "mref":
                return v[1]
            return (en, e[1][0], ())
        if k == "deref":
            return self.place_of(e[1], env, ctx)
        if k == "addr":
            return self.place_of(e[2], env, ctx)
        if k in ("field", "tfield"):
            p = self.place_of(e[1], env, ctx)
            return (p[0], p[1], p[2] + (("f", str(e[2])),))
        if k == "index":
            p = self.place_of(e[1], env, ctx)
            i = self.ev(e[2], env, ctx)
            if not (isinstance(i, tuple) and i[0] == "int"):
                raise TErr("assignment through a non-constant index")
            return (p[0], p[1], p[2] + (("i", i[1]),))
        if k == "mcall":
            v = self.ev(e, env, ctx)
            if isinstance(v, tuple) and v and v[0] == "mref":
                return v[1]
        raise TErr("not an assignable place: %s" % K.fmt_expr(e))

    # ---- operators
    def coerce64(self, v):
        if isinstance(v, tuple) and v[0] == "int":
            return self.lit64(v[1])
        return v

    def binop(self, op, a, b, ctx):
        a, b = self.val(a), self.val(b)
        if a[0] == "int" and b[0] == "int":
            x, y = a[1], b[1]
            fns = {"+": lambda: x + y, "-": lambda: x - y, "*": lambda: x * y, "^": lambda: x ^ y, "&": lambda: x & y,
                   "|": lambda: x | y, "<<": lambda: x << y if 0 <= y < 64 else None,
                   ">>": lambda: x >> y if 0 <= y < 64 else None, "/": lambda: x // y if y else None,
                   "%": lambda: x % y if y else None}
            r = fns[op]() if op in fns else None
            if r is None or r < 0 or r >= 1 << 64:
                raise TErr("constant arithmetic %d %s %d leaves the u64 range" % (x, op, y))
            return ("int", r)
        if (is_node(a) and self.width(a) == 64) or (is_node(b) and self.width(b) == 64):
            a, b = self.coerce64(a), self.coerce64(b)
            if not (is_node(a) and is_node(b) and self.width(a) == 64 and self.width(b) == 64) or op not in U64_BIN:
                raise TErr("operator `%s` on these 64-bit operands is outside the language" % op)
            return self.app(U64_BIN[op], [a, b], "BitVec 64")
        if is_node(a) and is_node(b) and self.width(a) == self.width(b) and (self.width(a), op) in MACH_BIN:
            if not any(g[0] == "mach" for g in ctx.generics.values()):
                raise TErr("vector operator `%s` outside a `Machine` context" % op)
            return self.app(MACH_BIN[(self.width(a), op)], [a, b], self.ty(a))
        if not is_node(a) and a[0] in ("rec", "tup", "union") and op == "^":
            f = self.find_method(a, "bitxor")
            return self.call_fn(f, [("val", a), ("val", b)], None, ctx, recv=a)
        raise TErr("operator `%s` on %s, %s is not in the trusted table" % (op, self.describe(a), self.describe(b)))

    def describe(self, v):
        return self.ty(v) if is_node(v) else (v[0] if isinstance(v, tuple) and v else str(v))

    def typetext(self, v):
        if is_node(v):
            return None
        if v[0] == "rec":
            return v[1]
        if v[0] == "union":
            return v[1][2]
        if v[0] == "tup":
            return "(" + ",".join(str(self.typetext(self.val(x))) for x in v[1]) + ")"
        return None

    def find_method(self, v, name, optional=False):
        tt = self.typetext(v)
        hits = []
        for f in self.files:
            for fn in f.fns:
                if fn.name == name and fn.impl is not None and tt is not None \
                        and re.sub(r"<.*>$", "", fn.impl[4]) == tt:
                    hits.append(fn)
        if not hits and optional:
            return None
        if len(hits) != 1:
            raise TErr("method %s on %s: %d definitions" % (name, tt, len(hits)))
        if hits[0].err is not None:
            raise hits[0].err
        return hits[0]

    def find_fn(self, name, owner=None, optional=False):
        hits = []
        for f in self.files:
            for fn in f.fns:
                if fn.name != name:
                    continue
                if owner is None and fn.impl is None and not fn.mods:
                    hits.append(fn)
                elif owner is not None and fn.impl is not None and re.sub(r"<.*>$", "", fn.impl[4]) == owner:
                    hits.append(fn)
        if not hits and optional:
            return None
        if len(hits) != 1:
            raise TErr("fn %s%s: %d definitions" % (owner + "::" if owner else "", name, len(hits)))
        if hits[0].err is not None:
            raise hits[0].err
        return hits[0]

    # ---- expressions
    def const_int(self, e, env, ctx):
        v = self.val(self.ev(e, env, ctx))
        if not (isinstance(v, tuple) and v[0] == "int"):
            raise TErr("a compile-time constant was expected: %s" % K.fmt_expr(e))
        return v[1]

    def ev(self, e, env, ctx, want=None):
        k = e[0]
        if k == "int":
            return ("int", e[1])
        if k == "paren":
            return self.ev(e[1], env, ctx, want)
        if k == "path":
            return self.ev_path(e[1], env, ctx)
        if k == "bin":
            return self.binop(e[1], self.ev(e[2], env, ctx), self.ev(e[3], env, ctx), ctx)
        if k == "un":
            a = self.val(self.ev(e[2], env, ctx))
            if e[1] == "!" and is_node(a) and self.width(a) == 256:
                return self.app("M.not256 {0}", [a], self.ty(a))
            raise TErr("unary `%s` on %s is not in the trusted table" % (e[1], self.describe(a)))
        if k == "cast":
            v = self.val(self.ev(e[1], env, ctx))
            T = self.rtype(e[2], ctx)
            if v[0] == "ptr" and T[0] == "ptr":
                return ("ptr", v[1], self.sizeof(T[1]), v[3])
            if T[0] == "int" and INTS[T[1]] == 64 and T[1] != "usize":
                if v[0] == "int":
                    return ("int", v[1] & ((1 << 64) - 1))
                if is_node(v) and self.width(v) == 64:
                    return v
            raise TErr("cast of %s to %s is outside the language" % (self.describe(v), T))
        if k == "addr":
            if e[1]:
                return ("mref", self.place_of(e[2], env, ctx))
            return self.ev(e[2], env, ctx, want)
        if k == "deref":
            return self.val(self.ev(e[1], env, ctx))
        if k in ("field", "tfield"):
            return self.get_elem(self.val(self.ev(e[1], env, ctx)), ("f", str(e[2])))
        if k == "index":
            return self.get_elem(self.val(self.ev(e[1], env, ctx)), ("i", self.const_int(e[2], env, ctx)))
        if k == "tuple":
            return ("tup", [self.ev(x, env, ctx) for x in e[1]]) if e[1] else ("unit",)
        if k == "array":
            wt = want[1] if want is not None and want[0] == "arr" else None
            return ("arr", [self.val(self.ev(x, env, ctx, wt)) for x in e[1]])
        if k == "repeat":
            return ("arr", [self.val(self.ev(e[1], env, ctx))] * self.const_int(e[2], env, ctx))
        if k == "structlit":
            return self.ev_structlit(e, env, ctx)
        if k == "call":
            return self.ev_call(e, env, ctx, want)
        if k == "mcall":
            return self.ev_mcall(e, env, ctx, want)
        if k == "macro":
            return self.ev_macro(e, env, ctx, want)
        if k == "block":
            return self.exec_block(e, env, ctx, want)
        if k == "closure":
            return ("closure", e[1], e[2], env, ctx)
        if k == "range":
            lo = self.const_int(e[1], env, ctx) if e[1] is not None else 0
            hi = self.const_int(e[2], env, ctx) + (1 if e[3] else 0) if e[2] is not None else None
            return ("range", lo, hi)
        if k == "match":
            c = self.const_int(e[1], env, ctx)
            for pat, arm in e[2]:
                if pat[0] == "wild" or pat[1] == c:
                    return self.ev(arm, env, ctx, want)
            raise TErr("match: no arm for the constant %d" % c)
        if k == "if":
            raise TErr("`if` on a non-constant condition is outside the language")
        raise TErr("expression form `%s` is outside the language: %s" % (k, K.fmt_expr(e)))

    def ev_path(self, segs, env, ctx):
        if len(segs) == 1:
            en = env.find(segs[0])
            if en is not None:
                return en.d[segs[0]]
            if segs[0] in self.tables:
                return self.table(segs[0])
            c = self.file_const(segs[0], ctx)
            if c is not None:
                return c
            f = self.find_fn(segs[0], None, optional=True)
            if f is not None:
                return ("fnref", "item", f)
            raise TErr("unknown name %s" % segs[0])
        if segs[0] in ctx.generics and ctx.generics[segs[0]][0] == "mach" and len(segs) == 3 and segs[1] in VEC:
            return ("fnref", "vec", segs[1], segs[2])
        raise TErr("path %s not understood" % "::".join(segs))

    def file_const(self, name, ctx):
        for f in self.files:
            key = ("consts", f.rel)
            if not hasattr(f, "_consts"):
                src = K.Source.__new__(K.Source)
                src.rel, src.toks = f.rel, f.toks
                src._index()
                f._consts = K.Consts(src)
            if name in f._consts.items:
                v = f._consts.value(name)
                if isinstance(v, int):
                    return ("int", v)
                raise TErr("constant %s is not an integer (tables must be registered)" % name)
        return None

    def table(self, name):
        lean, rel = self.tables[name]
        for f in self.files:
            if f.rel != rel:
                continue
            src = K.Source.__new__(K.Source)
            src.rel, src.toks = f.rel, f.toks
            src._index()
            defs = src.consts().get(name)
            if not defs or len(defs) != 1:
                raise TErr("table %s: %d definitions" % (name, len(defs or [])))
            T = self.rtype(P4(defs[0][0]).type_(), Ctx(f, {}))
            if not (T[0] == "arr" and T[1][0] == "arr" and T[1][1] == ("int", "u8")):
                raise TErr("table %s has type %s, expected [[u8; r]; n]" % (name, T))
            return ("table", lean, T[2], T[1][2])
        raise TErr("table %s: file %s is not part of this unit" % (name, rel))

    def ev_structlit(self, e, env, ctx):
        name = e[1][-1] if e[1] != ["Self"] else ctx.selfname
        a = self.adt(name)
        if a is None:
            raise TErr("struct literal of unknown type %s" % name)
        T = self.adt_type(name, None, ctx, ctx.selfg if name == ctx.selfname else None)
        ft = dict(T[3])
        if a[0] == "union":
            if len(e[2]) != 1 or e[2][0][0] not in ft:
                raise TErr("union literal %s must name exactly one declared field" % name)
            v = self.val(self.ev(e[2][0][1], env, ctx, ft[e[2][0][0]]))
            b = self.bytes_of(v)
            if self.blen[b[1]] != self.sizeof(T):
                raise TErr("union literal %s: the value has %d bytes, the union %d" % (name, self.blen[b[1]], self.sizeof(T)))
            return ("union", T, b)
        given = dict((f, self.val(self.ev(x, env, ctx, ft.get(f)))) for f, x in e[2])
        if sorted(given) != sorted(ft):
            raise TErr("struct literal %s: fields %s given, %s declared" % (name, sorted(given), sorted(ft)))
        return ("rec", name, [(f, given[f]) for f, _ in T[3]], T[4])

    def default_of(self, T):
        if T is None or T[0] == "any":
            raise TErr("default() of an unknown type")
        if T[0] == "arr" and T[1] == ("int", "u8"):
            return self.app("List.replicate %d 0#8" % T[2], [], "List (BitVec 8)", T[2])
        if T[0] == "arr":
            return ("arr", [self.default_of(T[1]) for _ in range(T[2])])
        if T[0] == "int" and INTS[T[1]] == 64:
            return self.lit64(0)
        raise TErr("default() of %s" % (T,))

    def ev_macro(self, e, env, ctx, want):
        name, toks = e[1], e[2]
        if name == "transmute":
            v = self.ev(P4(toks).expr(), env, ctx)
            if want is None:
                raise TErr("transmute!: the expected type is not known here")
            return self.transmute(v, want)
        if name in ("unreachable", "panic"):
            return ("never",)
        md = env.macro(name) or ctx.file.macros.get(name)
        if md is None:
            raise TErr("macro %s! is not defined in this file" % name)
        if isinstance(md, TErr):
            raise md
        body = md.expand(KC.split_args(toks))
        stmts, tail = P4(body).block_body()
        return self.exec_stmts(stmts, tail, env, ctx, want)

    # ---- calls
    def ev_call(self, e, env, ctx, want):
        segs, argx = e[1], e[2]
        if len(segs) == 1:
            en = env.find(segs[0])
            if en is not None:
                return self.apply(en.d[segs[0]], [self.ev(a, env, ctx) for a in argx], ctx)
            if segs[0] in INTRIN:
                return self.intrinsic(segs[0], [self.val(self.ev(a, env, ctx)) for a in argx])
            a = self.adt(segs[0])
            if a is not None:
                T = self.adt_type(segs[0], None, ctx)
                if len(T[3]) != len(argx) or any(not f.isdigit() for f, _ in T[3]):
                    raise TErr("constructor %s: %d arguments for %d fields" % (segs[0], len(argx), len(T[3])))
                return ("rec", segs[0], [(f, self.val(self.ev(x, env, ctx, t))) for (f, t), x in zip(T[3], argx)], T[4])
            return self.call_fn(self.find_fn(self.alias_fns.get(segs[0], segs[0])), [("expr", a) for a in argx], env, ctx)
        if segs[-2:] == ["ptr", "read_unaligned"] and len(argx) == 1:
            p = self.val(self.ev(argx[0], env, ctx))
            if p[0] != "ptr":
                raise TErr("read_unaligned of a value that is not a pointer")
            return self.ptr_load(p)
        if segs[-1] == "default" and len(argx) == 0 and segs[0] in ("GenericArray", "Default"):
            return self.default_of(want)
        if len(segs) == 2:
            owner = ctx.selfname if segs[0] == "Self" else segs[0]
            f = self.find_fn(segs[1], owner)
            return self.call_fn(f, [("expr", a) for a in argx], env, ctx)
        raise TErr("call of %s not understood" % "::".join(segs))

    def ptr_load(self, p):
        _, b, es, off = p
        if es == 16:
            return self.app("CC.ofLeBytes 128 {0}", [self.slice(b, off, 16)], V)
        raise TErr("read through a pointer to elements of %d bytes" % es)

    def intrinsic(self, name, args):
        lean, kinds = INTRIN[name]
        if len(args) != len(kinds):
            raise TErr("%s: %d arguments for %d" % (name, len(args), len(kinds)))
        out = []
        for a, kd in zip(args, kinds):
            if kd == "v":
                if not (is_node(a) and self.ty(a) == V):
                    raise TErr("%s: a __m128i argument expected, found %s" % (name, self.describe(a)))
                out.append(a)
            elif kd == "q":
                a = self.coerce64(a)
                if not (is_node(a) and self.width(a) == 64):
                    raise TErr("%s: an i64 argument expected" % name)
                out.append(a)
            elif kd == "i":
                if a[0] != "int" or not 0 <= a[1] < 256:
                    raise TErr("%s: the immediate must be a literal" % name)
                out.append(str(a[1]))
            else:
                if a[0] != "ptr" or a[2] != 16:
                    raise TErr("%s: a `*const __m128i` expected" % name)
                out.append(self.drop(a[1], a[3]))
        return self.app(lean + "".join(" {%d}" % i for i in range(len(out))), out, V)

    def apply(self, fv, args, ctx):
        fv = self.val(fv)
        if fv[0] == "closure":
            _, params, body, cenv, cctx = fv
            if len(params) != len(args):
                raise TErr("closure of %d parameters applied to %d arguments" % (len(params), len(args)))
            sc = Env(cenv)
            for p, a in zip(params, args):
                self.bind(p, a, sc)
            return self.ev(body, sc, cctx)
        if fv[0] == "fnref" and fv[1] == "item":
            return self.call_fn(fv[2], [("val", a) for a in args], None, ctx)
        if fv[0] == "fnref" and fv[1] == "vec":
            m = re.match(r"swap(1|2|4|8|16|32|64)$", fv[3])
            a = self.val(args[0]) if len(args) == 1 else None
            if m and fv[2] == "u128x1" and a is not None and is_node(a) and self.ty(a) == V:
                return self.app("M.swap128 %s {0}" % m.group(1), [a], V)
            raise TErr("function value %s::%s is not in the trusted table" % (fv[2], fv[3]))
        raise TErr("call of a value that is not a function (%s)" % self.describe(fv))

    def bind(self, pat, v, env):
        if pat[0] == "pid":
            if pat[1] != "_":
                env.d[pat[1]] = v
            return
        v = self.val(v)
        if pat[0] == "ptuple":
            if not (v[0] == "tup" and len(v[1]) == len(pat[1])):
                raise TErr("tuple pattern of %d against %s" % (len(pat[1]), self.describe(v)))
            for p, x in zip(pat[1], v[1]):
                self.bind(p, x, env)
            return
        if pat[0] == "pstruct":
            if not (v[0] == "rec" and v[1] == pat[1] and len(v[2]) == len(pat[2])):
                raise TErr("pattern %s(..) against %s" % (pat[1], self.describe(v)))
            for p, (_, x) in zip(pat[2], v[2]):
                self.bind(p, x, env)
            return
        raise TErr("pattern form %s" % pat[0])

    def fn_ctx(self, f, recv=None):
        g = {}
        gl = list(f.impl[2]) + list(f.generics) if f.impl is not None else list(f.generics)
        rg = {}
        if recv is not None and not is_node(recv):
            if recv[0] == "rec":
                rg = recv[3]
            elif recv[0] == "union":
                rg = recv[1][4]
        for name, b in gl:
            if name.startswith("'"):
                continue
            if "Machine" in b:
                g[name] = ("mach",)
            elif name in rg:
                g[name] = rg[name]
            elif name in self.subst:
                g[name] = self.subst[name]
            else:
                g[name] = ("any",)
        machvar = None
        if f.dispatch is not None:
            g[f.dispatch[2]] = ("mach",)
            machvar = f.dispatch[1]
        selfname = re.sub(r"<.*>$", "", f.impl[4]) if f.impl is not None else None
        selfg = dict((k, v) for k, v in g.items()) if selfname and self.adt(selfname) else None
        return Ctx(f.file, g, selfname if selfname and self.adt(selfname) else None, selfg, machvar)

    def fn_key(self, f):
        return (re.sub(r"<.*>$", "", f.impl[4]) + "::" if f.impl is not None else "") + f.name

    def call_fn(self, f, args, env, ctx, recv=None):
        """args: [("expr", e) | ("val", v)] incl. the receiver first for methods"""
        if f.err is not None:
            raise f.err
        key = self.fn_key(f)
        if key in self.keep and self.keep[key] is not None:
            return self.kept_call(self.keep[key], f, args, env, ctx)
        self.depth += 1
        if self.depth > 24:
            raise TErr("call depth exceeded in fn %s" % f.name)
        if len(args) != len(f.params):
            raise TErr("fn %s called with %d arguments for %d parameters" % (f.name, len(args), len(f.params)))
        if recv is None and f.params and f.params[0][0][0] == "self":
            a0 = args[0]
            recv = self.val(a0[1] if a0[0] == "val" else self.ev(a0[1], env, ctx))
        fctx = self.fn_ctx(f, recv)
        fenv = Env()
        if fctx.machvar:
            fenv.d[fctx.machvar] = ("mach",)
        for (pat, ty), a in zip(f.params, args):
            mut = False
            T = None
            if pat[0] == "self":
                mut = pat[1] == "mut"
            else:
                T = self.rtype(ty, fctx)
                mut = T[0] == "ref" and T[1]
            if mut:
                if a[0] == "val":
                    v = a[1]
                    if not (isinstance(v, tuple) and v and v[0] == "mref"):
                        tmp = Env()
                        tmp.d["tmp"] = v
                        v = ("mref", (tmp, "tmp", ()))
                else:
                    ex = a[1]
                    v = ("mref", self.place_of(ex, env, ctx))
            else:
                v = a[1] if a[0] == "val" else self.ev(a[1], env, ctx, T)
                v = self.val(v) if not (isinstance(v, tuple) and v and v[0] in ("closure", "fnref")) else v
            if pat[0] == "self":
                fenv.d["self"] = v
            else:
                self.bind(pat, v, fenv)
        stmts, tail = P4(f.file.toks, f.body[0], f.body[1]).block_body()
        want = self.rtype(f.ret, fctx) if f.ret is not None else None
        r = self.exec_stmts(stmts, tail, fenv, fctx, want)
        self.depth -= 1
        return r

    def flat(self, v, out):
        v = self.val(v)
        if is_node(v):
            out.append(v)
        elif v[0] in ("arr", "tup"):
            for x in v[1]:
                self.flat(x, out)
        elif v[0] == "rec":
            for _, x in v[2]:
                self.flat(x, out)
        elif v[0] == "union":
            out.append(v[2])
        elif v[0] == "ptr":
            if v[3] != 0:
                raise TErr("a pointer with a non-zero offset is passed to a translated function")
            out.append(v[1])
        elif v[0] in ("mach", "unit"):
            pass
        elif v[0] == "int":
            raise TErr("an untyped constant is passed where a value is needed")
        else:
            raise TErr("a %s value cannot be flattened" % v[0])
        return out

    def skeleton(self, v):
        v = self.val(v)
        if is_node(v):
            return ("leaf", self.ty(v), self.blen.get(v[1]))
        if v[0] in ("arr", "tup"):
            return (v[0], [self.skeleton(x) for x in v[1]])
        if v[0] == "rec":
            return ("rec", v[1], [(f, self.skeleton(x)) for f, x in v[2]], v[3])
        if v[0] == "union":
            return ("union", v[1], self.skeleton(v[2]))
        if v[0] == "unit":
            return v
        raise TErr("a %s value in a result" % v[0])

    def unskeleton(self, s, it):
        if s[0] == "leaf":
            return next(it)
        if s[0] in ("arr", "tup"):
            return (s[0], [self.unskeleton(x, it) for x in s[1]])
        if s[0] == "rec":
            return ("rec", s[1], [(f, self.unskeleton(x, it)) for f, x in s[2]], s[3])
        if s[0] == "union":
            return ("union", s[1], self.unskeleton(s[2], it))
        return s

    def skel_leaves(self, s, out):
        if s[0] == "leaf":
            out.append(s)
        elif s[0] in ("arr", "tup"):
            for x in s[1]:
                self.skel_leaves(x, out)
        elif s[0] == "rec":
            for _, x in s[2]:
                self.skel_leaves(x, out)
        elif s[0] == "union":
            self.skel_leaves(s[2], out)
        return out

    def kept_call(self, entry, f, args, env, ctx):
        if len(args) != len(f.params):
            raise TErr("fn %s called with %d arguments for %d parameters" % (f.name, len(args), len(f.params)))
        fctx = self.fn_ctx(f)
        flat, places = [], []
        for idx, ((pat, ty), a) in enumerate(zip(f.params, args)):
            T = self.rtype(ty, fctx) if pat[0] != "self" else None
            mut = (pat[0] == "self" and pat[1] == "mut") or (T is not None and T[0] == "ref" and T[1])
            if mut:
                if a[0] != "expr":
                    raise TErr("fn %s: a `&mut` argument must be a place" % f.name)
                pl = self.place_of(a[1], env, ctx)
                places.append(pl)
                v = self.load(pl)
            else:
                v = a[1] if a[0] == "val" else self.ev(a[1], env, ctx, T)
            v = self.val(v)
            if isinstance(v, tuple) and v[0] == "int":
                v = self.coerce64(v)
            self.flat(v, flat)
        leaves = []
        for s in entry["outs"]:
            self.skel_leaves(s, leaves)
        rty = " × ".join(l[1] for l in leaves)
        tpl = entry["lean"] + (" M" if entry["usesM"] else "") + "".join(" {%d}" % i for i in range(len(flat)))
        node = self.app(tpl, flat, rty)
        if entry["usesM"]:
            self.usesM = True
        comps = [self.app("{0}" + p, [node], l[1], l[2]) if p else node for p, l in zip(projs(len(leaves)), leaves)]
        it = iter(comps)
        vals = [self.unskeleton(s, it) for s in entry["outs"]]
        nret = 1 if entry["ret"] else 0
        if len(vals) - nret != len(places):
            raise TErr("fn %s: %d `&mut` results for %d `&mut` arguments" % (f.name, len(vals) - nret, len(places)))
        for pl, v in zip(places, vals[nret:]):
            self.store(pl, v)
        return vals[0] if nret else ("unit",)

    def ev_mcall(self, e, env, ctx, want):
        rx, name, argx = e[1], e[2], e[3]
        raw = self.ev(rx, env, ctx)
        v = self.val(raw)
        if v[0] == "mach":
            if name == "unpack" and len(argx) == 1:
                return self.val(self.ev(argx[0], env, ctx))
            raise TErr("machine method %s is not in the trusted table" % name)
        if not is_node(v) and v[0] in ("rec", "tup", "union"):
            f = self.find_method(v, name, optional=True)
            if f is not None:
                first = ("val", v)
                if f.params and f.params[0][0] == ("self", "mut"):
                    try:
                        self.place_of(rx, env, ctx)
                        first = ("expr", rx)
                    except TErr:
                        first = ("val", v)
                return self.call_fn(f, [first] + [("expr", a) for a in argx], env, ctx, recv=v)
        if name in IDENT_METHODS and not argx:
            return raw if name in ("as_mut", "as_mut_slice") else v
        if v[0] == "ptr" and name in ("offset", "add") and len(argx) == 1:
            return ("ptr", v[1], v[2], v[3] + v[2] * self.const_int(argx[0], env, ctx))
        if self.is_bytes(v) and name == "as_ptr" and not argx:
            return ("ptr", v, 1, 0)
        if v[0] == "table" and name == "chunks_exact" and len(argx) == 1:
            return ("tabchunks", v, self.const_int(argx[0], env, ctx))
        if v[0] == "arr":
            if name == "len" and not argx:
                return ("int", len(v[1]))
            if name in ("iter", "iter_mut", "into_iter") and not argx:
                if name == "iter_mut" and isinstance(raw, tuple) and raw[0] == "mref":
                    p = raw[1]
                    return ("arr", [("mref", (p[0], p[1], p[2] + (("i", i),))) for i in range(len(v[1]))])
                if name == "iter_mut":
                    p = self.place_of(rx, env, ctx)
                    return ("arr", [("mref", (p[0], p[1], p[2] + (("i", i),))) for i in range(len(v[1]))])
                return v
            if name == "chunks_exact" and len(argx) == 1:
                n = self.const_int(argx[0], env, ctx)
                if n <= 0:
                    raise TErr("chunks_exact(0)")
                return ("arr", [("arr", v[1][i * n:(i + 1) * n]) for i in range(len(v[1]) // n)])
            if name == "zip" and len(argx) == 1:
                o = self.items_of(self.ev(argx[0], env, ctx))
                if o is None:
                    raise TErr("zip with an unbounded iterator on the right")
                return ("arr", [("tup", [a, b]) for a, b in zip(v[1], o)])
        if v[0] == "range" and name == "zip" and len(argx) == 1:
            o = self.items_of(self.ev(argx[0], env, ctx))
            idx = range(v[1], v[1] + len(o)) if v[2] is None else range(v[1], v[2])
            return ("arr", [("tup", [("int", i), b]) for i, b in zip(idx, o)])
        raise TErr("method `%s` on %s is not in the trusted table" % (name, self.describe(v)))

    def items_of(self, raw):
        if isinstance(raw, tuple) and raw and raw[0] == "mref":
            v = self.val(raw)
            if v[0] == "arr":
                p = raw[1]
                return [("mref", (p[0], p[1], p[2] + (("i", i),))) for i in range(len(v[1]))]
        v = self.val(raw)
        if v[0] == "arr":
            return list(v[1])
        if v[0] == "range" and v[2] is not None:
            return [("int", i) for i in range(v[1], v[2])]
        raise TErr("iteration over %s is outside the language" % self.describe(v))

    # ---- statements
    def exec_block(self, blk, env, ctx, want=None):
        return self.exec_stmts(blk[1], blk[2], Env(env), ctx, want)

    def exec_stmts(self, stmts, tail, env, ctx, want=None):
        for st in stmts:
            k = st[0]
            if k == "let":
                T = self.rtype(st[2], ctx) if st[2] is not None else None
                if st[3] is None:
                    raise TErr("`let` without an initialiser")
                self.bind(st[1], self.ev(st[3], env, ctx, T), env)
            elif k == "const":
                env.d[st[1]] = self.ev(st[3], env, ctx)
            elif k == "macrodef":
                env.macros[st[1]] = KC.MacroDef(st[1], st[2])
            elif k == "for":
                self.exec_for(st, env, ctx)
            elif k == "expr":
                self.ev(st[1], env, ctx)
            elif k == "assign":
                pl = self.place_of(st[1], env, ctx)
                new = self.ev(st[3], env, ctx)
                new = self.val(new)
                if st[2] is not None:
                    new = self.binop(st[2], self.load(pl), new, ctx)
                self.store(pl, new)
            else:
                raise TErr("statement form %s" % k)
        if tail is None:
            return ("unit",)
        return self.ev(tail, env, ctx, want)

    def exec_for(self, st, env, ctx):
        pat, it, body = st[1], st[2], st[3]
        raw = self.ev(it, env, ctx)
        v = self.val(raw)
        if v[0] == "tabchunks":
            return self.table_loop(pat, v, body, env, ctx)
        for item in self.items_of(raw):
            sc = Env(env)
            self.bind(pat, item, sc)
            self.exec_stmts(body[1], body[2], sc, ctx)

    def assigned_roots(self, stmts, ctx, env, out, declared, tail=None):
        if tail is not None:
            stmts = list(stmts) + [("expr", tail)]
        for st in stmts:
            if st[0] == "let":
                self.pat_names(st[1], declared)
            elif st[0] == "const":
                declared.add(st[1])
            elif st[0] == "assign":
                e = st[1]
                while e[0] in ("field", "tfield", "index", "deref", "paren"):
                    e = e[1]
                if e[0] == "path" and len(e[1]) == 1 and e[1][0] not in declared and e[1][0] not in out:
                    out.append(e[1][0])
            elif st[0] == "for":
                self.assigned_roots(st[3][1], ctx, env, out, set(declared), st[3][2])
            elif st[0] == "expr":
                e = st[1]
                if e[0] == "block":
                    self.assigned_roots(e[1], ctx, env, out, set(declared), e[2])
                elif e[0] == "macro" and e[1] not in ("transmute", "unreachable", "panic"):
                    md = env.macro(e[1]) or ctx.file.macros.get(e[1])
                    if md is None or isinstance(md, TErr):
                        raise TErr("macro %s! is not defined in this file" % e[1])
                    stmts2, tail2 = P4(md.expand(KC.split_args(e[2]))).block_body()
                    self.assigned_roots(stmts2, ctx, env, out, set(declared), tail2)
        return out

    def pat_names(self, pat, out):
        if pat[0] == "pid":
            out.add(pat[1])
        else:
            for p in pat[-1]:
                self.pat_names(p, out)

    def table_loop(self, pat, tc, body, env, ctx):
        """`for rows in TABLE.chunks_exact(n) { body }` ↦ List.foldl <body definition> init (chunksExact n TABLE)"""
        _, table, n = tc
        _, tlean, nrows, rowbytes = table
        if n <= 0:
            raise TErr("chunks_exact(0)")
        if pat[0] != "pid":
            raise TErr("loop pattern over table chunks must be a name")
        names = self.assigned_roots(body[1], ctx, env, [], set(), body[2])
        places = [self.place_of(("path", [x]), env, ctx) for x in names]
        init = [self.load(p) for p in places]
        skels = [self.skeleton(v) for v in init]
        flat_init = []
        for v in init:
            self.flat(v, flat_init)
        leaves = []
        for s in skels:
            self.skel_leaves(s, leaves)
        sty = " × ".join(l[1] for l in leaves)
        # ---- the body, over fresh leaves, in its own graph
        saved = (self.dag, self.blen, self.usesM)
        self.dag, self.blen, self.usesM = K.Dag(), {}, False
        try:
            comps = [self.leaf("s" + p, l[1], l[2]) for p, l in zip(projs(len(leaves)), leaves)]
            it = iter(comps)
            sc = Env(env, barrier=True)
            for nm, s in zip(names, skels):
                sc.d[nm] = self.unskeleton(s, it)
            rowty = "BitVec %d" % (8 * rowbytes)
            item = self.leaf(pat[1], "List (%s)" % rowty, n)
            sc.d[pat[1]] = ("rows", item, n, rowbytes)
            inner = Env(sc)
            self.exec_stmts(body[1], body[2], inner, ctx)
            outs = []
            for nm in names:
                self.flat(sc.d[nm], outs)
            if [self.ty(o) for o in outs] != [l[1] for l in leaves]:
                raise TErr("the loop body changes the shape of its state")
            lname = "%s_loop%d" % (self.loopname, len(self.loops) + 1)
            lines = self.body_lines(outs)
            usesM = self.usesM
            text = "def %s %s(s : %s) (%s : List (%s)) :\n    %s :=\n%s" % (
                lname, "(M : Mach) " if usesM else "", sty, pat[1], rowty, sty, "\n".join(lines))
            self.loops.append(text)
        finally:
            self.dag, self.blen, self.usesM = saved
        initn = self.app("(" + ", ".join("{%d}" % i for i in range(len(flat_init))) + ")", flat_init, sty) \
            if len(flat_init) > 1 else flat_init[0]
        loop = self.app("List.foldl (%s%s) {0} (chunksExact %d %s)" % (lname, " M" if usesM else "", n, tlean), [initn], sty)
        if usesM:
            self.usesM = True
        comps = [self.app("{0}" + p, [loop], l[1], l[2]) if p else loop for p, l in zip(projs(len(leaves)), leaves)]
        it = iter(comps)
        for pl, s in zip(places, skels):
            self.store(pl, self.unskeleton(s, it))

    # ---- printing
    def body_lines(self, outs):
        order, seen = [], set()
        nodes = self.dag.nodes

        def visit(i):
            stack = [(i, False)]
            while stack:
                j, done = stack.pop()
                if done:
                    order.append(j)
                    continue
                if j in seen:
                    continue
                seen.add(j)
                nd = nodes[j]
                if nd[0] == "app":
                    stack.append((j, True))
                    for a in reversed(nd[2]):
                        if isinstance(a, int) and a not in seen:
                            stack.append((a, False))
        for o in outs:
            visit(o[1])
        tname = {}
        for i in order:
            tname[i] = "t%d" % (len(tname) + 1)

        def ref(a):
            if isinstance(a, str):
                return a
            nd = nodes[a]
            return nd[1] if nd[0] == "leaf" else tname[a]
        L = []
        for i in order:
            nd = nodes[i]
            L.append("  let %s := %s" % (tname[i], nd[1].format(*[ref(a) for a in nd[2]])))
        res = ", ".join(ref(o[1]) for o in outs)
        L.append("  (%s)" % res if len(outs) != 1 else "  %s" % res)
        return L


# =========================================================================== one definition

def leaf_skel(ty, n=None):
    return ("leaf", ty, n)


def translate(files, spec, registry):
    keep = dict((k, v) for k, v in registry.items() if k not in spec.get("inline", ()))
    keep.update(spec.get("ext", {}))
    ev = Ev(files, keep, spec.get("tables", {}), spec.get("subst"))
    ev.loopname = spec["lean"]
    ev.alias_fns = spec.get("alias", {})
    f = ev.find_fn(spec["fn"], spec.get("owner"))
    keep.pop(ev.fn_key(f), None)
    ctx = ev.fn_ctx(f)
    env = Env()
    if ctx.machvar:
        env.d[ctx.machvar] = ("mach",)
    leaves, muts = [], []
    for idx, (pat, ty) in enumerate(f.params):
        if pat[0] == "self":
            if ctx.selfname is None:
                raise TErr("fn %s: `self` of a type that is not declared in this file" % f.name)
            T = ev.adt_type(ctx.selfname, None, ctx, ctx.selfg)
            env.d["self"] = ev.fresh(T, "self", leaves)
            if pat[1] == "mut":
                muts.append("self")
            continue
        T = ev.rtype(ty, ctx)
        name = pat[1] if pat[0] == "pid" else "arg%d" % idx
        v = ev.fresh(T, name, leaves)
        if pat[0] == "pid":
            env.d[name] = v
        else:
            ev.bind(pat, v, env)
        if T[0] == "ref" and T[1]:
            if pat[0] != "pid":
                raise TErr("fn %s: a `&mut` parameter bound by a pattern" % f.name)
            muts.append(name)
    if len(set(n for n, _ in leaves)) != len(leaves):
        raise TErr("fn %s: parameter component names clash" % f.name)
    stmts, tail = P4(f.file.toks, f.body[0], f.body[1]).block_body()
    want = ev.rtype(f.ret, ctx) if f.ret is not None else None
    r = ev.val(ev.exec_stmts(stmts, tail, env, ctx, want))
    vals = ([] if r[0] == "unit" else [r]) + [ev.val(env.d[m]) for m in muts]
    if not vals:
        raise TErr("fn %s has no result" % f.name)
    skels = [ev.skeleton(v) for v in vals]
    outs = []
    for v in vals:
        ev.flat(v, outs)
    rty = " × ".join(ev.ty(o) for o in outs)
    # list-valued results of statically known length are printed as they are
    lines = ev.body_lines(outs)
    params, cur = [], None
    for n, t in leaves:
        if cur is not None and cur[1] == t:
            cur[0].append(n)
        else:
            cur = ([n], t)
            params.append(cur)
    sig = " ".join("(%s : %s)" % (" ".join(ns), t) for ns, t in params)
    what = "%s: fn %s%s" % (f.file.rel, (spec["owner"] + "::") if spec.get("owner") else "", f.name)
    if spec.get("subst"):
        what += " [%s]" % ", ".join("%s = %s" % (k, v[1]) for k, v in sorted(spec["subst"].items()))
    res = "result: " + ", ".join((["returned value"] if r[0] != "unit" else []) + ["*%s" % m for m in muts])
    text = "".join(t + "\n\n" for t in ev.loops)
    text += "/-- %s — %s -/\ndef %s %s%s :\n    %s :=\n%s" % (
        what, res, spec["lean"], "(M : Mach) " if ev.usesM else "", sig, rty, "\n".join(lines))
    registry[ev.fn_key(f)] = dict(lean=spec["lean"], usesM=ev.usesM, outs=skels, ret=r[0] != "unit")
    return text


# =========================================================================== what is translated

JH_COMP = "hashes/jh/src/compressor.rs"
SKEIN_LIB = "hashes/skein/src/lib.rs"
GR_COMP = "hashes/groestl/src/compressor.rs"
GR_LIB = "hashes/groestl/src/lib.rs"

_X8JH = ("rec", "X8", [(str(i), leaf_skel(V)) for i in range(8)], {"M": ("mach",)})
JH_EXT = {
    # `ss`, `l` are generated (and tied) by tools/inventory_kernels.py: calls of them stay calls
    "ss": dict(lean="CC.Gen.Kernels.jh_ss", usesM=True, outs=[_X8JH], ret=True),
    "l": dict(lean="CC.Gen.Kernels.jh_l", usesM=True, outs=[_X8JH], ret=True),
}
JH_TABLES = {"E8_BITSLICE_ROUNDCONSTANT": ("CC.Gen.Kernels.jh_E8_BITSLICE_ROUNDCONSTANT", JH_COMP)}

FAMILIES = [
    dict(fam="jh", files=[JH_COMP], specs=[
        dict(lean="jh_f8_impl", fn="f8_impl", ext=JH_EXT, tables=JH_TABLES),
        dict(lean="jh_f8", fn="f8"),
        dict(lean="jh_compressor_new", fn="new", owner="Compressor"),
        dict(lean="jh_compressor_input", fn="input", owner="Compressor"),
        dict(lean="jh_compressor_finalize", fn="finalize", owner="Compressor"),
    ]),
]


def _skein_block(nb):
    tag = "skein_block%d" % (8 * nb)
    sub = {"N": ("num", nb)}
    inl = ("Block::as_byte_array", "Block::as_byte_array_mut", "Block::as_word_array", "Block::as_word_array_mut",
           "Block::bytes", "Block::from_byte_array", "Block::default", "Block::bitxor")
    mk = lambda fn: dict(lean="%s_%s" % (tag, fn), fn=fn, owner="Block", subst=sub, inline=inl)
    return [mk(f) for f in ("as_byte_array", "as_byte_array_mut", "as_word_array", "as_word_array_mut", "bytes",
                            "from_byte_array", "default", "bitxor")]


FAMILIES.append(dict(fam="skein", files=[SKEIN_LIB], specs=_skein_block(32) + _skein_block(64) + _skein_block(128)))


GR_ALIAS = {"init512": "init512_impl", "tf512": "tf512_impl", "of512": "of512_impl",
            "init1024": "init1024_impl", "tf1024": "tf1024_impl", "of1024": "of1024_impl"}
_gr = lambda fn, **kw: dict(lean="groestl_" + fn, fn=fn, **kw)
_grc = lambda n, fn: dict(lean="groestl_compressor%d_%s" % (n, fn), fn=fn, owner="Compressor%d" % n, alias=GR_ALIAS)
FAMILIES.append(dict(fam="groestl", files=[GR_COMP, GR_LIB], specs=[
    _gr("mul2"), _gr("submix"), _gr("transpose_a"), _gr("transpose_b"), _gr("transpose_b_inv"), _gr("transpose_o_b"),
    _gr("transpose_o_b_inv"), _gr("round"), _gr("rounds_p_q"), _gr("tf512_impl"), _gr("of512_impl"), _gr("init512_impl"),
    _gr("transpose"), _gr("transpose_inv"), _gr("rounds_p"), _gr("rounds_q"), _gr("init1024_impl"), _gr("tf1024_impl"),
    _gr("of1024_impl"),
    _grc(512, "new"), _grc(512, "input"), _grc(512, "finalize_dirty"),
    _grc(1024, "new"), _grc(1024, "input"), _grc(1024, "finalize_dirty"),
    dict(lean="groestl_wrappers", kind="wrappers", file=GR_COMP, mods=("aes", "ssse3", "sse2", "autodetect")),
]))


def wrappers_inventory(files, spec):
    """the functions of the dispatch modules: (module, fn, body text) — each must be nothing but a call of `<fn>_impl`"""
    f = [x for x in files if x.rel == spec["file"]][0]
    rows = []
    for fn in f.fns:
        if fn.err is None and fn.mods and fn.mods[-1] in spec["mods"] and fn.impl is None:
            body = " ".join(x.s for x in f.toks[fn.body[0]:fn.body[1]])
            rows.append("(%s, %s, %s)" % (K._lean_str("::".join(fn.mods)), K._lean_str(fn.name), K._lean_str(body)))
    return "/-- %s: the functions of the modules %s (module, fn, body) -/\ndef %s : List (String × String × String) := [\n  %s]" % (
        spec["file"], ", ".join(spec["mods"]), spec["lean"], ",\n  ".join(rows))


def hashc_inventory(repo="/repo"):
    out = []
    for fam in FAMILIES:
        errors, defs = [], []
        try:
            files = [File(repo, rel) for rel in fam["files"]]
        except TErr as e:
            files = None
            errors.append(str(e))
        registry = {}
        for spec in fam["specs"]:
            try:
                if files is None:
                    raise TErr("source file missing")
                if spec.get("kind") == "wrappers":
                    defs.append((spec["lean"], wrappers_inventory(files, spec)))
                else:
                    defs.append((spec["lean"], translate(files, spec, registry)))
            except TErr as e:
                msg = "%s: %s" % (spec["lean"], e)
                errors.append(msg)
                defs.append((spec["lean"], "/-- TRANSLATION ERROR -/\ndef %s : String := %s" % (spec["lean"], K._lean_str(msg))))
            except RecursionError:
                msg = "%s: recursion limit" % spec["lean"]
                errors.append(msg)
                defs.append((spec["lean"], "def %s : String := %s" % (spec["lean"], K._lean_str(msg))))
        out.append((fam["fam"], errors, defs))
    return out


def render_lean(inv):
    L = ["/-",
         "  GENERATED by tools/inventory_hashc.py — do not edit.  Regenerated on every run (tools/regen) from the repository",
         "  under verification: the hash compressors that used to be hand transcriptions (JH `f8_impl` / `Compressor`, the Skein",
         "  `Block` union, the Grøstl AES-NI compressor), translated statement by statement into SSA form (canonical order:",
         "  post-order from the results; renamed locals, reordered independent statements, temporaries do not change the text).",
         "  No line numbers.  Obligations: lean/CC/JH/SrcCompressor.lean, lean/CC/Skein/SrcBlock.lean, lean/CC/Groestl/SrcDataflow.lean",
         "  (`CC.Src.src_*`), collected as CC.Thm.C06.source_compressor_match, CC.Thm.C05.source_block_match,",
         "  CC.Thm.C07.source_dataflow_match.  A definition that could not be translated is a `String` with the reason and is",
         "  listed in `<family>_hashc_errors`.",
         "",
         "  TRUSTED reading table (Rust form ↦ Lean term):"]
    L += trusted_lines()
    L += ["-/",
          "import CC.Prim", "import CC.Simd.Mach", "import CC.Groestl.Intrin", "import CC.Gen.Kernels",
          "namespace CC.Gen.HashCSrc", "open CC CC.Simd CC.Groestl.Intrin", "",
          "/-- `l.chunks_exact(n)` -/",
          "def chunksExact {α : Type} (n : Nat) (l : List α) : List (List α) :=",
          "  (List.range (l.length / n)).map fun i => (l.drop (n * i)).take n", ""]
    for fam, errors, defs in inv:
        L.append("/-! ## %s -/" % fam)
        L.append("")
        L.append("def %s_hashc_errors : List String := [%s]" % (fam, ", ".join(K._lean_str(e) for e in errors)))
        L.append("")
        for _name, text in defs:
            L.append(text)
            L.append("")
    L.append("end CC.Gen.HashCSrc")
    return "\n".join(L) + "\n"


def hashc_regenerate(repo="/repo", out=None):
    text = render_lean(hashc_inventory(repo))
    out = out or DEFAULT_OUT
    old = open(out, encoding="utf-8").read() if os.path.exists(out) else None
    if old != text:
        with open(out, "w", encoding="utf-8") as fh:
            fh.write(text)
    return text


def main(argv):
    repo, out, pr = "/repo", None, False
    i = 1
    while i < len(argv):
        if argv[i] == "--repo":
            repo, i = argv[i + 1], i + 2
        elif argv[i] == "--out":
            out, i = argv[i + 1], i + 2
        elif argv[i] == "--print":
            pr, i = True, i + 1
        else:
            raise SystemExit("usage: inventory_hashc.py [--repo DIR] [--out FILE | --print]")
    if pr:
        sys.stdout.write(render_lean(hashc_inventory(repo)))
    else:
        hashc_regenerate(repo, out)


if __name__ == "__main__":
    main(sys.argv)
