"""Per-property configuration for tools/check."""
import gens


def g(name):
    def f(rng, tier, cfg):
        return gens.GENS[name](rng, tier, cfg)
    return f


STD2 = ["std-debug", "std-release"]
ALL4 = ["std-debug", "std-release", "nosimd-debug", "nosimd-release"]

PROPS = {
    "C01": dict(
        theorems=["core_eq_spec", "block_conforms", "keystream_conforms", "apply_exact", "source_kernels_match", "source_code_match"],
        gen=g("C01"),
        cfgs_quick=["std-debug", "std-release", "nosimd-debug"],
        cfgs_thorough=ALL4,
    ),
    "C02": dict(
        theorems=["new_at_zero", "history_refines", "history_from_new", "profile_independent",
                  "output_depends_on_position_only", "apply_bytewise", "rechunk", "apply_twice_restores"],
        gen=g("C02"),
        cfgs_quick=["std-debug", "std-release", "nosimd-debug"],
        cfgs_thorough=ALL4,
    ),
    "C11": dict(
        theorems=["limits", "exhaustion_atomic", "usable_after_error", "seek_total",
                  "no_exhaustion_below_2_64", "no_reuse", "nonce_words_fixed"],
        gen=g("C11"),
        cfgs_quick=["std-debug", "std-release", "nosimd-debug"],
        cfgs_thorough=ALL4,
    ),
    "C14": dict(
        theorems=["refill4_eq", "refill_counter", "refill4_counter", "refill_block"],
        gen=g("C14"),
        cfgs_quick=["std-debug", "std-release", "nosimd-debug"],
        cfgs_thorough=ALL4,
    ),
    "C15": dict(
        theorems=["get_set", "set_isolated", "bad_param", "bad_param_small", "param_high_bit_ignored", "set_is_direct", "stream64_eq_iff",
                  "stream32_eq_iff", "stream64_eq_refill"],
        gen=g("C15"),
        cfgs_quick=["std-debug", "std-release", "nosimd-debug"],
        cfgs_thorough=ALL4,
    ),
    "C19": dict(
        theorems=[
            "u128x1_new", "u128x1_clone", "u128x1_into_inner", "u128x1_rotate_right_total",
            "u128x1_rotate_right", "u128x1_load", "u128x1_load_debug_panic", "u128x1_load_release",
            "u128x1_load_release_panic", "u128x1_xor_store", "u128x1_xor_store_debug_panic",
            "u128x1_xor_store_release", "u128x1_xor_store_release_panic", "u128x1_swap1", "u128x1_swap2",
            "u128x1_swap4", "u128x1_swap8", "u128x1_swap16", "u128x1_swap32", "u128x1_swap64",
            "u128x1_andnot", "u128x1_extract", "u128x1_extract_debug_panic", "u128x1_extract_release",
            "u128x1_add_assign", "u128x1_bitxor_assign", "u128x1_bitxor", "u128x1_bitand", "u128x1_not",
            "u128x2_new", "u128x2_clone", "u128x2_rotate_right_total", "u128x2_rotate_right", "u128x2_load",
            "u128x2_load_debug_panic", "u128x2_load_release", "u128x2_load_release_panic",
            "u128x2_xor_store", "u128x2_xor_store_debug_panic", "u128x2_xor_store_release",
            "u128x2_xor_store_release_panic", "u128x2_extract", "u128x2_extract_panic", "u128x2_andnot",
            "u128x2_add_assign", "u128x2_bitxor_assign", "u128x2_bitand", "u128x2_bitor", "u128x2_not",
            "u32x4_new", "u32x4_clone", "u32x4_splat", "u32x4_rotr_lane", "u32x4_rotate_right_total",
            "u32x4_rotate_right", "u32x4_from_slice_unaligned", "u32x4_from_slice_unaligned_debug_panic",
            "u32x4_from_slice_unaligned_release", "u32x4_from_slice_unaligned_release_panic",
            "u32x4_write_to_slice_unaligned", "u32x4_write_to_slice_unaligned_debug_panic",
            "u32x4_write_to_slice_unaligned_release", "u32x4_write_to_slice_unaligned_release_panic",
            "u32x4_extract", "u32x4_extract_panic", "u32x4_replace", "u32x4_replace_panic",
            "u32x4_add_assign", "u32x4_bitxor_assign", "u32x4_add", "u32x4_bitxor", "u32x4_bitor",
            "u32x4_bitand", "u32x4_rotate_words_right", "u32x4_rotate_words_right_debug_panic",
            "u32x4_rotate_words_right_release", "u32x4_splat_rotate_right",
            "u32x4_splat_rotate_right_debug_panic", "u32x4_splat_rotate_right_release", "u64x4_new",
            "u64x4_clone", "u64x4_splat", "u64x4_rotr_lane", "u64x4_rotate_right_total",
            "u64x4_rotate_right", "u64x4_from_slice_unaligned", "u64x4_from_slice_unaligned_debug_panic",
            "u64x4_from_slice_unaligned_release", "u64x4_from_slice_unaligned_release_panic",
            "u64x4_write_to_slice_unaligned", "u64x4_write_to_slice_unaligned_debug_panic",
            "u64x4_write_to_slice_unaligned_release", "u64x4_write_to_slice_unaligned_release_panic",
            "u64x4_extract", "u64x4_extract_panic", "u64x4_replace", "u64x4_replace_panic",
            "u64x4_add_assign", "u64x4_bitxor_assign", "u64x4_add", "u64x4_bitxor", "u64x4_bitor",
            "u64x4_bitand", "u64x4_rotate_words_right", "u64x4_rotate_words_right_debug_panic",
            "u64x4_rotate_words_right_release", "u64x4_splat_rotate_right",
            "u64x4_splat_rotate_right_debug_panic", "u64x4_splat_rotate_right_release", "u32x4x4_from",
            "u32x4x4_splat", "u32x4x4_into_parts", "u32x4x4_clone", "u32x4x4_bitxor", "u32x4x4_bitor",
            "u32x4x4_bitand", "u32x4x4_add", "u32x4x4_bitxor_assign", "u32x4x4_add_assign",
            "u32x4x4_rotate_words_right", "u32x4x4_rotate_words_right_debug_panic",
            "u32x4x4_rotate_words_right_release", "u32x4x4_splat_rotate_right",
            "u32x4x4_splat_rotate_right_debug_panic", "u32x4x4_splat_rotate_right_release",
        ],
        gen=g("C19"),
        cfgs_quick=["std-debug", "std-release"],
        cfgs_thorough=["std-debug", "std-release"],
    ),
    "C05": dict(
        theorems=["skein_conforms", "process_block_is_ubi_step", "default_is_config_ubi", "output_loop_is_output", "source_kernels_match"],
        gen=g("C05"),
        cfgs_quick=STD2,
        cfgs_thorough=STD2 + ["nounroll-release"],
    ),
    "C09": dict(
        theorems=["threefish_conforms", "unroll_eq_loop", "P_tables", "source_kernels_match", "source_code_match"],
        gen=g("C09"),
        cfgs_quick=["std-debug", "std-release", "nounroll-release", "nounroll-debug"],
        cfgs_thorough=["std-debug", "std-release", "nounroll-release", "nounroll-debug"],
    ),
    "C10": dict(
        theorems=["dec_enc", "enc_dec", "mix_inverse"],
        gen=g("C10"),
        cfgs_quick=["std-debug", "std-release", "nounroll-release", "nounroll-debug"],
        cfgs_thorough=["std-debug", "std-release", "nounroll-release", "nounroll-debug"],
    ),
    "C04": dict(
        theorems=["put_block_eq_compress32", "put_block_eq_compress64", "finalize_conforms",
                  "blake_conforms", "counter_exact", "streaming_conforms", "increase_count_exact", "source_kernels_match", "source_code_match"],
        gen=g("C04"),
        cfgs_quick=["std-debug", "std-release", "nosimd-debug"],
        cfgs_thorough=ALL4,
    ),
    "C12": dict(
        theorems=["leaf", "required_provided", "leafTable_complete"],
        gen=g("C12"),
        cfgs_quick=["std-release", "nosimd-release", "nosimd-debug", "std-debug"],
        cfgs_thorough=ALL4,
    ),
    "C13": dict(
        theorems=["lanes_roundtrip", "extract_insert", "transpose4_is_transpose", "to_scalars_order",
                  "bytes_le_roundtrip", "bytes_be_roundtrip", "storage_views"],
        gen=g("C13"),
        cfgs_quick=["std-release", "nosimd-release", "nosimd-debug", "std-debug"],
        cfgs_thorough=ALL4,
    ),
    "C03": dict(
        theorems=["backend_eq_ref", "dispatch_total", "dispatch_sound"],
        gen=g("C03"),
        cfgs_quick=["std-release", "nosimd-release", "nosimd-debug"],
        cfgs_thorough=ALL4,
    ),
    "C06": dict(
        theorems=["jh_conforms", "f8_conforms", "round_refines", "constants_conform", "h0_conforms",
                  "ss_is_sbox", "l_is_L", "swap_is_xor", "jh_conforms_partial",
                  "jh_datalen_exact", "jh_datalen_overflow_debug", "jh_bitlen_check", "source_kernels_match"],
        gen=g("C06"),
        cfgs_quick=["std-debug", "std-release", "nosimd-debug"],
        cfgs_thorough=ALL4,
    ),
    "C07": dict(
        theorems=["groestl_conforms", "tf512_is_f", "of512_is_omega", "tf1024_is_f", "of1024_is_omega",
                  "counter_exact", "final_count_exact", "source_kernels_match", "source_literals_match"],
        gen=g("C07"),
        cfgs_quick=["std-debug", "std-release"],
        cfgs_thorough=["std-debug", "std-release"],
    ),
}


# ---- plug-ins: tools/prop_<ID>.py may define PROP (dict for PROPS[<ID>]) and GENS (dict of generators)
import glob as _glob, importlib.util as _ilu, os as _os
_PLUG = {}
for _f in sorted(_glob.glob(_os.path.join(_os.path.dirname(_os.path.abspath(__file__)), "prop_*.py"))):
    _spec = _ilu.spec_from_file_location(_os.path.basename(_f)[:-3], _f)
    _m = _ilu.module_from_spec(_spec)
    _spec.loader.exec_module(_m)
    if hasattr(_m, "GENS"):
        gens.GENS.update(_m.GENS)
    if hasattr(_m, "PROP"):
        PROPS[_os.path.basename(_f)[5:-3]] = _m.PROP
    _PLUG[_os.path.basename(_f)[5:-3]] = _m


# ---- C04/C05/C06/C07 also run the "one huge update call" job of C17 for their family (a message is a
#      message, however it is fed): one slice of more than 2^29 bytes in a single `update` vs the same bytes
#      in 1 MiB calls, exact counter.  The slice is 2^29 + 4096 + 5 bytes so that the run of whole blocks
#      handed to the compression loop exceeds 2^29 bytes whatever the buffered prefix is (a seeded change
#      whose bulk byte count overflowed only above 2^29 was missed with 2^29 + 5).
def _single_extra(family):
    def extra(pid, tier, seed):
        import cclib
        m = _PLUG["C17"]
        out = {"coverage": {"single_update_jobs": 0}, "violations": [], "evaluations": 0}
        if family == "blake":
            variants = [(str(bits), b, w) for (bits, w, b) in m.BLAKE]
        elif family == "jh":
            variants = [(str(n), 64, 0) for n in m.JH]
        elif family == "skein":
            variants = [(v, nb, 0) for (v, nb) in m.SKEIN[:3]]
        else:
            variants = [(str(bits), b, 0) for (bits, b) in m.GROESTL]
        if tier != "thorough":
            variants = [variants[(seed + 1) % len(variants)], variants[(seed + 3) % len(variants)]] if family == "blake" else variants[1:2]
        for cfg in (["std-release", "std-debug"] if tier == "thorough" else ["std-release"]):
            ok, binp, hlog = cclib.harness_build(cfg)
            if not ok:
                continue
            # sizes: 2^31 + margin always; and — in the family's own check and in every thorough run — one call of more
            # than 2^32 BYTES for one variant (byte counts / block offsets held in u32 wrap only there: two seeded
            # changes of round 6 needed 4 GiB in one call)
            jobs = [(v, m.SINGLE_N) for v in variants]
            if pid != "C08" or tier == "thorough":
                # BLAKE: a variant with 32-bit counter words (the narrowest arithmetic), alternating 224 / 256 with the seed
                big = (("224", 64, 32) if seed % 2 == 0 else ("256", 64, 32)) if family == "blake" else variants[0]
                jobs.append((big, 2 ** 32 + 4096 + 5))
            for ((arg, b, w), N) in jobs:
                prefix = (seed * 13 + len(arg) * 7 + int(arg.split("-")[0])) % b
                good, what, detail, ev = m._job_single_call(family, cfg, binp, arg, b, prefix, N, seed % 1000,
                                                            m.single_expect(family, b, w, prefix + N))
                out["coverage"]["single_update_jobs"] += 1
                out["coverage"]["single_update_sizes"] = sorted(set(out["coverage"].get("single_update_sizes", []) + [N]))
                out["evaluations"] += ev
                if not good:
                    rp = cclib.write_replay(pid, seed, "single-update-%s%s-%s" % (family, arg, cfg), detail + "\n")
                    out["violations"].append((what, rp, False))
        return out
    return extra


PROPS["C04"]["extra"] = _single_extra("blake")
PROPS["C05"]["extra"] = _single_extra("skein")
PROPS["C06"]["extra"] = _single_extra("jh")
PROPS["C07"]["extra"] = _single_extra("groestl")


# ---- C01/C04/C05/C06/C07/C09: the translator tie (tools/inventory_kernels.py -> lean/CC/Gen/Kernels.lean,
#      obligations CC.Src.src_* collected in CC.Thm.Cxx.source_kernels_match)
for _pid in ("C01", "C04", "C05", "C06", "C07", "C09"):
    PROPS[_pid].setdefault("trusted_extra", [])
    PROPS[_pid]["trusted_extra"] = PROPS[_pid]["trusted_extra"] + [
        "tools/inventory_kernels.py: Rust lexer + symbolic evaluator for the straight-line kernels, literal tables and "
        "instantiating macro arguments; its table (Rust operator / ppv-lite86 trait method, vector type) -> Mach field, "
        "printed in the header of lean/CC/Gen/Kernels.lean; loops, macro bodies and control flow are NOT translated "
        "(tied by the correspondence only)"]


# ---- configurations that depend on what the sources say (tools/inventory_cfgatoms.py): static builds for every
#      target feature the sources mention beyond the known six, and a `-C target-cpu=native` build
def _dynamic_cfgs(tier):
    import cclib, inventory_cfgatoms as A
    out = []
    for feat in A.unknown_target_features():
        c = cclib.register_tf_cfg(feat)
        if c:
            out.append(c)
    return out


for _pid in ("C03", "C12", "C13", "C14", "C20", "C01", "C04", "C06"):
    PROPS[_pid]["dynamic_cfgs"] = _dynamic_cfgs
for _pid, _tiers in (("C03", ("quick", "thorough")), ("C12", ("quick", "thorough")), ("C13", ("quick", "thorough")),
                     ("C14", ("quick", "thorough")), ("C20", ("quick", "thorough")), ("C01", ("thorough",)), ("C04", ("thorough",)),
                     ("C06", ("thorough",))):
    for _t in _tiers:
        _k = "cfgs_" + _t
        if "std-native-release" not in PROPS[_pid][_k]:
            PROPS[_pid][_k] = list(PROPS[_pid][_k]) + ["std-native-release"]
PROPS["C03"]["theorems"] = list(PROPS["C03"]["theorems"]) + ["cfg_atoms_as_modelled"]
PROPS["C20"]["theorems"] = list(PROPS["C20"]["theorems"]) + ["cfg_atoms_as_modelled"]
if "nostd-avx2-release" not in PROPS["C14"]["cfgs_quick"]:
    PROPS["C14"]["cfgs_quick"] = list(PROPS["C14"]["cfgs_quick"]) + ["nostd-avx2-release"]


# ---- phase 3 of the translator tie: the glue (cipher bookkeeping, hashers' update / finalize / reset / default /
#      struct inventories, Threefish trait impls) — obligations collected in `source_glue_match`
for _pid in ("C02", "C04", "C05", "C06", "C07", "C09", "C10", "C11"):
    if "source_glue_match" not in PROPS[_pid]["theorems"]:
        PROPS[_pid]["theorems"] = list(PROPS[_pid]["theorems"]) + ["source_glue_match"]
    _te = "tools/inventory_kernels*.py (translator; see DESIGN §0.6): Rust reading table, BlockBuffer methods as named primitives mapped to CC.Buffer, extern compressor functions, struct invariants assumed in the glue obligations"
    if _te not in PROPS[_pid].get("trusted_extra", []):
        PROPS[_pid]["trusted_extra"] = list(PROPS[_pid].get("trusted_extra", [])) + [_te]


# ---- translator tie for the portable ppv-lite86 code (generic.rs, soft.rs; tools/inventory_simdport.py)
for _pid in ("C12", "C13"):
    if "source_portable_match" not in PROPS[_pid]["theorems"]:
        PROPS[_pid]["theorems"] = list(PROPS[_pid]["theorems"]) + ["source_portable_match"]
    _te = "tools/inventory_simdport.py (translator of generic.rs / soft.rs; its Rust reading table is printed in lean/CC/Gen/SimdPortSrc.lean)"
    if _te not in PROPS[_pid].get("trusted_extra", []):
        PROPS[_pid]["trusted_extra"] = list(PROPS[_pid].get("trusted_extra", [])) + [_te]
# ---- C19: the translator tie for ppv-null (tools/inventory_null.py -> lean/CC/Gen/NullSrc.lean, obligations
#      CC.Src.src_null_* in lean/CC/Null/Src.lean collected in `source_null_match`)
if "source_null_match" not in PROPS["C19"]["theorems"]:
    PROPS["C19"]["theorems"] = list(PROPS["C19"]["theorems"]) + ["source_null_match"]
    PROPS["C19"]["trusted_extra"] = list(PROPS["C19"].get("trusted_extra", [])) + [
        "tools/inventory_null.py (translator for utils-simd/ppv-null/src/lib.rs): macro expansion per invocation, the reading "
        "table Rust form -> Lean term printed in the header of lean/CC/Gen/NullSrc.lean (debug_assert* = guard in profile "
        "debug only, slice/array index = guard in every profile, << >> - overflow-checked in debug / masked or wrapping in "
        "release, closures and function paths passed to map/zipmap inlined), the vocabulary CC.Null.Vocab"]
# ---- round 6: the x86 backend of ppv-lite86 (hand transcription lean/CC/Simd/Impl/X86*.lean) is tied to the source by
#      tools/inventory_simdx86.py -> lean/CC/Gen/SimdX86Src.lean, obligations lean/CC/Simd/SrcX86.lean
for _pid in ("C12", "C13"):
    if "source_x86_match" not in PROPS[_pid]["theorems"]:
        PROPS[_pid]["theorems"] = list(PROPS[_pid]["theorems"]) + ["source_x86_match"]
    _te = ("tools/inventory_simdx86.py (translator for ppv-lite86/src/x86_64/sse2.rs, mod.rs): its reading table (intrinsic name -> CC.X86 "
           "model, wrapper structs / same-size union views / transmute = identity on the BitVec carrier, x2 / x4 = concatenation with "
           "element 0 low, impl resolution by header matching under the S3 / S4 flags, NI = NoNI), printed in the header of "
           "lean/CC/Gen/SimdX86Src.lean")
# ---- round 6 of the translator tie: code that was still hand-transcribed (tools/inventory_hashc.py ->
#      lean/CC/Gen/HashCSrc.lean): the JH compressor as a whole, the Skein `Block` union, the Grøstl intrinsic dataflow
for _pid, _thm in (("C06", "source_compressor_match"), ("C05", "source_block_match"), ("C07", "source_dataflow_match")):
    if _thm not in PROPS[_pid]["theorems"]:
        PROPS[_pid]["theorems"] = list(PROPS[_pid]["theorems"]) + [_thm]
    _te = "tools/inventory_hashc.py (translator, round 6): reading table printed in the header of lean/CC/Gen/HashCSrc.lean (raw pointers, unions, transmute!, constant match, function values, intrinsics ↦ CC.Groestl.Intrin)"
    if _te not in PROPS[_pid].get("trusted_extra", []):
        PROPS[_pid]["trusted_extra"] = list(PROPS[_pid].get("trusted_extra", [])) + [_te]


# ---- source tie of guts.rs also registered with C14 / C15 (same statement as C01's), of the counter code with C17
for _pid in ("C14", "C15"):
    if "source_code_match" not in PROPS[_pid]["theorems"]:
        PROPS[_pid]["theorems"] = list(PROPS[_pid]["theorems"]) + ["source_code_match"]
if "source_counters_match" not in PROPS["C17"]["theorems"]:
    PROPS["C17"]["theorems"] = list(PROPS["C17"]["theorems"]) + ["source_counters_match"]


# ---- C14: `refill4 = 4 x refill` at round counts the model cannot execute (impl-only self-consistency, op `guts r4eq`;
#      the theorem refill4_eq covers every count).  2^16 .. 2^24 double rounds always; 2^31 and 2^32-1 (the values at which
#      a cast of the u32 count to i32 / a +1 changes character; ~90 s each) in the thorough tier, and in the quick tier
#      only when the regenerated translation of guts.rs differs from the committed one (search directed by the source tie).
def _c14_extra(pid, tier, seed):
    import cclib
    out = {"coverage": {"huge_round_counts": {}}, "violations": [], "evaluations": 0}
    drs = [2 ** 16, 2 ** 16 + 1, 2 ** 20 + 1, 2 ** 24]
    if tier == "thorough" or cclib.gen_changed("Kernels.lean"):
        drs += [2 ** 31, 2 ** 32 - 1]
    for cfg in ["std-release"]:
        ok, binp, _ = cclib.harness_build(cfg)
        if not ok:
            continue
        ops = ["guts new 0 %s %s" % ("0f" * 32, "a5" * 8), "guts set 0 0 %d" % (2 ** 32 - 2)] + ["guts r4eq 0 %d" % d for d in drs]
        res, _ = cclib.run_lines(binp, ["cfg profile release"] + ops, timeout=3000)
        got = (res or [])[3:]
        out["coverage"]["huge_round_counts"][cfg] = dict(zip(map(str, drs), got))
        out["evaluations"] += len(got)
        for d, r in zip(drs, got + ["?"] * (len(drs) - len(got))):
            if r != "eq":
                rp = cclib.write_replay(pid, seed, "r4eq-%s-%d" % (cfg, d),
                                        "# cfg=%s\n# property=%s: refill4 and four refills from the same state disagree (%s) for %d double rounds (impl only; theorem refill4_eq)\n%s\nguts r4eq 0 %d\n"
                                        % (cfg, pid, r, d, "\n".join(ops[:2]), d))
                out["violations"].append(("refill4 differs from four refills at %d double rounds" % d, rp, False))
                break
    return out


PROPS["C14"]["extra"] = _c14_extra

# ---- the SeekNum impls of the third-party crate `cipher` (hand model CC.ChaCha.fromBlockByte / SeekTy) are tied to the crate source
#      pinned in Cargo.lock by tools/inventory_seeknum.py -> lean/CC/Gen/SeekNumSrc.lean, obligations lean/CC/ChaCha/SrcSeekNum.lean
for _pid in ("C02", "C11"):
    if "source_seeknum_match" not in PROPS[_pid]["theorems"]:
        PROPS[_pid]["theorems"] = list(PROPS[_pid]["theorems"]) + ["source_seeknum_match"]
    _te = ("tools/inventory_seeknum.py (translator for cipher's impl_seek_num! and the &mut C impl): its reading table printed in the header of "
           "lean/CC/Gen/SeekNumSrc.lean (integer values as Int with the type's range, core's integer TryFrom / TryInto = 'fits the target', "
           "`as` = wrap into the range, checked_* , unchecked + as a debug-profile guard, / % with the zero / MIN/-1 guards, usize = 64 bits)")

# ---- round 7: the EQUALITY implementations of ppv-lite86 (tools/inventory_simdeq.py -> lean/CC/Gen/SimdEqSrc.lean; lean/CC/Simd/SrcEq.lean)
for _pid, _ths in (("C13", ["eq_is_equality", "eq128_s4_is_equality", "source_eq_match"]),
                   ("C15", ["state_eq_is_equality", "rows_eq_is_equality", "source_eq_match"])):
    PROPS[_pid]["theorems"] = list(PROPS[_pid]["theorems"]) + [t for t in _ths if t not in PROPS[_pid]["theorems"]]
    _te = ("tools/inventory_simdeq.py (translator of the PartialEq impls of ppv-lite86 and the derive lists of generic.rs / guts.rs): its reading "
           "table is printed in lean/CC/Gen/SimdEqSrc.lean; ASSUMED: `#[derive(PartialEq)]` = field-wise `&&` in declaration order")
    if _te not in PROPS[_pid].get("trusted_extra", []):
        PROPS[_pid]["trusted_extra"] = list(PROPS[_pid].get("trusted_extra", [])) + [_te]

# ---- end-to-end corollaries: statements that mention ONLY regenerated definitions (CC.Gen.*) and the published-spec definitions
#      (the property theorem rewritten with the CC.Src.src_* equalities; no hand-written model in the statement)
for _pid, _ths in (("C09", ["generated_encrypt_conforms"]),
                   ("C10", ["generated_dec_enc", "generated_enc_dec"]),
                   ("C19", ["generated_matches_meaning"]),
                   ("C14", ["generated_refill4_eq"])):
    PROPS[_pid]["theorems"] = list(PROPS[_pid]["theorems"]) + [t for t in _ths if t not in PROPS[_pid]["theorems"]]
