"""Per-property configuration for tools/check."""
import gens


def g(name):
    def f(rng, tier, cfg):
        return gens.GENS[name](rng, tier, cfg)
    return f


STD2 = ["std-debug", "std-release"]
ALL4 = ["std-debug", "std-release", "nosimd-debug", "nosimd-release"]

PROPS = {
    "C01": dict(
        theorems=["core_eq_spec", "block_conforms"],
        gen=g("C01"),
        cfgs_quick=["std-debug", "std-release", "nosimd-debug"],
        cfgs_thorough=ALL4,
    ),
    "C14": dict(
        theorems=["refill4_eq", "refill_counter", "refill4_counter", "refill_block"],
        gen=g("C14"),
        cfgs_quick=["std-debug", "std-release", "nosimd-debug"],
        cfgs_thorough=ALL4,
    ),
    "C15": dict(
        theorems=["get_set", "set_isolated", "bad_param", "set_is_direct", "stream64_eq_iff",
                  "stream32_eq_iff", "stream64_eq_refill"],
        gen=g("C15"),
        cfgs_quick=["std-debug", "std-release"],
        cfgs_thorough=ALL4,
    ),
}
