"""Per-property configuration for tools/check."""
import gens


def g(name):
    def f(rng, tier, cfg):
        return gens.GENS[name](rng, tier, cfg)
    return f


STD2 = ["std-debug", "std-release"]
ALL4 = ["std-debug", "std-release", "nosimd-debug", "nosimd-release"]

PROPS = {
    "C01": dict(
        theorems=["core_eq_spec", "block_conforms"],
        gen=g("C01"),
        cfgs_quick=["std-debug", "std-release", "nosimd-debug"],
        cfgs_thorough=ALL4,
    ),
}
