"""Shared machinery for tools/check: builds, run model and implementation, diff, shrink,
known findings, evidence.  Standard library only."""
import json, os, re, subprocess, sys, time, hashlib, shutil

VERIF = os.path.dirname(os.path.dirname(os.path.abspath(__file__)))
LEAN = os.path.join(VERIF, "lean")
HARNESS = os.path.join(VERIF, "harness")
OUT = os.path.join(VERIF, "out")
EVID = os.path.join(VERIF, "evidence")
REPO = os.environ.get("VERIF_REPO", "/repo").rstrip("/") or "/repo"
if REPO != "/repo":
    # testing the machinery against a scratch copy/worktree of the repository: use a private copy of
    # the harness crate whose path dependencies point there (never used by the registered checks)
    _alt = os.path.join(OUT, "harness_alt", hashlib.sha1(REPO.encode()).hexdigest()[:10])
    if not os.path.exists(os.path.join(_alt, "Cargo.toml")):
        os.makedirs(_alt, exist_ok=True)
        for _n in ("src", ".cargo"):
            if os.path.exists(os.path.join(_alt, _n)):
                shutil.rmtree(os.path.join(_alt, _n))
            shutil.copytree(os.path.join(HARNESS, _n), os.path.join(_alt, _n))
    else:
        shutil.rmtree(os.path.join(_alt, "src"))
        shutil.copytree(os.path.join(HARNESS, "src"), os.path.join(_alt, "src"))
    open(os.path.join(_alt, "Cargo.toml"), "w").write(open(os.path.join(HARNESS, "Cargo.toml")).read().replace('"/repo/', '"%s/' % REPO))
    HARNESS = _alt
    EVID = os.path.join(OUT, "evidence_alt")     # never overwrite the real evidence
DRV = os.path.join(LEAN, ".lake", "build", "bin", "ccdrv")

ALLOWED_AXIOMS = {"propext", "Classical.choice", "Quot.sound"}
TRUSTED_BASE = [
    "Lean 4.33.0 kernel",
    "axioms propext, Classical.choice, Quot.sound",
    "one <thm>._native.bv_decide.ax_* axiom per bv_decide call (compiled LRAT checker accepted CaDiCaL's certificate)",
    "hand-written specs transcribed from the published documents (validated on official vectors)",
    "correspondence check (Rust harness, Lean driver, generator, differ): finite differential testing",
    "rustc/LLVM code generation, block-buffer/digest/cipher/generic-array/zerocopy crates: modelled, not verified",
]


def log(*a):
    print(*a, file=sys.stderr, flush=True)


def run(cmd, cwd=None, env=None, timeout=None, input_=None):
    e = dict(os.environ)
    e["CARGO_NET_OFFLINE"] = "true"
    if env:
        e.update(env)
    p = subprocess.run(cmd, cwd=cwd, env=e, stdout=subprocess.PIPE, stderr=subprocess.STDOUT,
                       timeout=timeout, input=input_, text=True, errors="replace")
    return p.returncode, p.stdout


# --------------------------------------------------------------------------- Lean side

def lean_build(targets):
    """lake build the given targets (+ driver). Returns (ok, log)."""
    rc, out = run(["lake", "build"] + targets + ["ccdrv"], cwd=LEAN, timeout=3600)
    return rc == 0, out


def lean_audit(audit_module):
    """Elaborate CC/Audit/<X>.lean (a list of `#print axioms`) and parse the result.
    Returns (ok, {thm: [axioms]}, log)."""
    path = os.path.join(LEAN, *audit_module.split(".")) + ".lean"
    rc, out = run(["lake", "env", "lean", path], cwd=LEAN, timeout=1800)
    thms = {}
    cur = None
    # "'Foo.bar' depends on axioms: [propext, Quot.sound]" possibly multi-line; or "does not depend on any axioms"
    text = out.replace("\n", " ")
    for m in re.finditer(r"'([^']+)' (depends on axioms: \[([^\]]*)\]|does not depend on any axioms)", text):
        name = m.group(1)
        axs = [a.strip() for a in (m.group(3) or "").split(",") if a.strip()]
        thms[name] = axs
    return rc == 0, thms, out


def axioms_ok(axs):
    bad = []
    for a in axs:
        if a in ALLOWED_AXIOMS:
            continue
        if "._native.bv_decide.ax_" in a:
            continue
        bad.append(a)
    return bad


FORBIDDEN = re.compile(r"\bsorry\b|\badmit\b|^\s*axiom\s|native_decide|implemented_by|^\s*unsafe\s|maxHeartbeats\s+0\b|@\[extern", re.M)


def strip_lean_comments(src):
    # remove block comments (nested) and line comments
    out = []
    i = 0
    depth = 0
    n = len(src)
    while i < n:
        if src.startswith("/-", i):
            depth += 1
            i += 2
        elif depth and src.startswith("-/", i):
            depth -= 1
            i += 2
        elif depth:
            i += 1
        elif src.startswith("--", i):
            j = src.find("\n", i)
            i = n if j < 0 else j
        else:
            out.append(src[i])
            i += 1
    return "".join(out)


def source_grep():
    """Scan every .lean file of the project (comments stripped) for forbidden constructs."""
    hits = []
    for root, _, files in os.walk(LEAN):
        if ".lake" in root:
            continue
        for f in files:
            if f.endswith(".lean"):
                p = os.path.join(root, f)
                src = strip_lean_comments(open(p, errors="replace").read())
                for m in FORBIDDEN.finditer(src):
                    hits.append((os.path.relpath(p, LEAN), m.group(0).strip()))
    return hits


# --------------------------------------------------------------------------- Rust side

# configuration name -> (cargo features, cargo profile dir, extra rustflags[, manifest variant])
HCFGS = {
    "std-debug": ([], "debug", ""),
    "std-release": ([], "release", ""),
    "nosimd-debug": (["no_simd"], "debug", ""),
    "nosimd-release": (["no_simd"], "release", ""),
    "nounroll-release": (["no_unroll"], "release", ""),
    "nounroll-debug": (["no_unroll"], "debug", ""),
    # no-std (compile-time dispatch) builds: manifest variant "nostd", one per target-feature set
    "nostd-sse2-release": (["nostd_build"], "release", "", "nostd"),
    "nostd-ssse3-release": (["nostd_build"], "release", "-C target-feature=+ssse3", "nostd"),
    "nostd-sse41-release": (["nostd_build"], "release", "-C target-feature=+sse4.1", "nostd"),
    "nostd-avx-release": (["nostd_build"], "release", "-C target-feature=+avx", "nostd"),
    "nostd-avx2-release": (["nostd_build"], "release", "-C target-feature=+avx2", "nostd"),
}
# static target features with std (run-time dispatch still decides, but every `cfg(target_feature = ..)` item and
# every intrinsic is compiled for this very CPU: AVX2, AVX-512VL, … whatever the host has)
HCFGS["std-native-release"] = ([], "release", "-C target-cpu=native")
# unoptimised build (opt-level 0): loads and stores the optimiser would delete are really executed (C16)
HCFGS["std-o0-debug"] = ([], "debug", "", None, {"CARGO_PROFILE_DEV_OPT_LEVEL": "0"})


def host_cpu_flags():
    try:
        for line in open("/proc/cpuinfo"):
            if line.startswith("flags"):
                return set(line.split(":", 1)[1].split())
    except OSError:
        pass
    return set()


def register_tf_cfg(feat):
    """a no-std (compile-time dispatch) configuration with ONE extra static target feature, for features the
    sources mention that the fixed configurations do not cover; returns its name, or None when this CPU cannot
    run such a build"""
    cpu = {"sse3": "pni", "sse4.1": "sse4_1", "sse4.2": "sse4_2"}.get(feat, feat.replace("-", "_").replace(".", "_"))
    if cpu not in host_cpu_flags():
        return None
    name = "nostd-sse2-tf_%s-release" % re.sub(r"[^A-Za-z0-9]", "_", feat)
    HCFGS[name] = (["nostd_build"], "release", "-C target-feature=+" + feat, "nostd")
    return name


NOSTD_CFGS = ["nostd-sse2-release", "nostd-ssse3-release", "nostd-sse41-release", "nostd-avx-release", "nostd-avx2-release"]

BASE_RUSTFLAGS = "--cfg zerocopy_derive_union_into_bytes --cfg cryptocorrosion_verif -Aunexpected_cfgs -Awarnings"


def _manifest_nostd(text):
    """cargo features are additive, so the no-std expansions need a manifest of their own:
    `default-features = false` on c2-chacha (keeping `rustcrypto_api`), blake-hash and jh-x86_64 (the
    dispatch macros expand in those crates, so their `std` feature selects the arms); groestl-aesni
    does not compile without `std` (finding B2) and is dropped (harness feature `nostd_build`)."""
    out, sect = [], ""
    for line in text.split("\n"):
        m = re.match(r"\s*\[([^\]]+)\]\s*$", line)
        if m:
            sect = m.group(1)
        elif sect == "dependencies":
            d = re.match(r'\s*([\w-]+)\s*=\s*\{\s*path\s*=\s*"([^"]*)"\s*\}\s*$', line)
            if d and d.group(1) == "groestl-aesni":
                continue
            if d and d.group(1) == "c2-chacha":
                line = '%s = { path = "%s", default-features = false, features = ["rustcrypto_api"] }' % d.groups()
            elif d and d.group(1) in ("blake-hash", "jh-x86_64"):
                line = '%s = { path = "%s", default-features = false }' % d.groups()
        out.append(line)
    return "\n".join(out)


MANIFEST_VARIANTS = {"nostd": _manifest_nostd}


def harness_variant(variant):
    """A private copy of the harness crate (src, .cargo, Cargo.lock) with a rewritten manifest, under out/.
    It is derived from HARNESS, so with VERIF_REPO set its path dependencies point at that repository."""
    vdir = os.path.join(OUT, "harness_" + variant) if REPO == "/repo" else HARNESS + "_" + variant
    os.makedirs(vdir, exist_ok=True)
    for n in ("src", ".cargo"):
        if os.path.exists(os.path.join(vdir, n)):
            shutil.rmtree(os.path.join(vdir, n))
        shutil.copytree(os.path.join(HARNESS, n), os.path.join(vdir, n))      # copy2: mtimes kept, no needless rebuilds
    text = MANIFEST_VARIANTS[variant](open(os.path.join(HARNESS, "Cargo.toml")).read())
    mp = os.path.join(vdir, "Cargo.toml")
    if not os.path.exists(mp) or open(mp).read() != text:
        open(mp, "w").write(text)
    return vdir


API_ONLY = {}        # cfg -> build log of the full harness, for configurations that only build with feature `api_only`
API_ONLY_DROPPED = ("blake putblock",)      # component-level ops the api_only harness cannot answer


def harness_build(cfg):
    """build the harness in configuration cfg; when it does not compile (e.g. a `pub` component function the
    component-level ops call changed its signature) retry with the harness feature `api_only` (public Digest / cipher /
    vector API only) so that the search for a failing input can go on; such configurations are recorded in API_ONLY
    and reported by tools/check as a broken correspondence."""
    ok, binp, out = _harness_build(cfg, False)
    if not ok and "nostd" not in cfg:
        ok2, binp2, out2 = _harness_build(cfg, True)
        if ok2:
            API_ONLY[cfg] = out
            return ok2, binp2, out2
    return ok, binp, out


def _harness_build(cfg, api_only):
    feats, prof, extra = HCFGS[cfg][:3]
    if api_only:
        feats = list(feats) + ["api_only"]
    variant = HCFGS[cfg][3] if len(HCFGS[cfg]) > 3 else None
    benv = HCFGS[cfg][4] if len(HCFGS[cfg]) > 4 else {}
    if variant:
        hdir = harness_variant(variant)
        tdir = os.path.join(hdir, "target", re.sub(r"-(debug|release)$", "", cfg))     # one per target-feature set
        return _cargo_build(hdir, tdir, feats, prof, extra, benv)
    if extra or benv:
        tdir = os.path.join(HARNESS, "target", re.sub(r"-(debug|release)$", "", cfg))   # own flags: own target dir
    else:
        tdir = os.path.join(HARNESS, "target", "+".join(feats) or "std")
    return _cargo_build(HARNESS, tdir, feats, prof, extra, benv)


def _cargo_build(hdir, tdir, feats, prof, extra, benv=None):
    cmd = ["cargo", "build", "--offline", "--target-dir", tdir]
    if prof == "release":
        cmd.append("--release")
    if feats:
        cmd += ["--features", ",".join(feats)]
    env = dict(benv or {})
    if extra:
        env["RUSTFLAGS"] = BASE_RUSTFLAGS + " " + extra
    lock = os.path.join(hdir, "Cargo.lock")
    if not os.path.exists(lock):
        src = os.path.join(HARNESS, "Cargo.lock") if hdir != HARNESS else os.path.join(REPO, "Cargo.lock")
        shutil.copy(src if os.path.exists(src) else "/repo/Cargo.lock", lock)
    rc, out = run(cmd, cwd=hdir, env=env, timeout=3600)
    binp = os.path.join(tdir, prof, "cch")
    return rc == 0 and os.path.exists(binp), binp, out


def profile_of(cfg):
    return HCFGS[cfg][1]


# --------------------------------------------------------------------------- run + diff

def run_lines(binary, lines, timeout=1800):
    data = "\n".join(lines) + "\n"
    try:
        p = subprocess.run([binary], input=data, stdout=subprocess.PIPE, stderr=subprocess.PIPE,
                           text=True, timeout=timeout, errors="replace")
    except subprocess.TimeoutExpired:
        return None, "timeout"
    outl = p.stdout.split("\n")
    if outl and outl[-1] == "":
        outl.pop()
    return outl, (p.returncode, p.stderr[-2000:])


def first_diff(a, b):
    n = min(len(a), len(b))
    for i in range(n):
        if a[i] != b[i]:
            return i
    if len(a) != len(b):
        return n
    return None


def disagree(impl_bin, header, ops):
    lines = header + ops
    a, ia = run_lines(impl_bin, lines)
    b, ib = run_lines(DRV, lines)
    if a is None or b is None:
        return 0, a, b
    d = first_diff(a, b)
    return d, a, b


def shrink(impl_bin, header, ops, idx, budget_s=45.0):
    """ddmin-style shrink keeping 'model and implementation disagree somewhere'.
    First cut everything after the first disagreement, then remove chunks of halving size."""
    t0 = time.time()
    ops = ops[: max(0, idx - len(header)) + 1]

    def bad(cand):
        d, a, b = disagree(impl_bin, header, cand)
        return d is not None and a is not None and b is not None

    n = max(1, len(ops) // 2)
    while n >= 1 and time.time() - t0 < budget_s:
        i = 0
        removed = False
        while i < len(ops) - 1 and time.time() - t0 < budget_s:
            cand = ops[:i] + ops[min(i + n, len(ops) - 1):]
            if len(cand) < len(ops) and bad(cand):
                ops = cand
                removed = True
            else:
                i += n
        if n == 1 and not removed:
            break
        n = n // 2 if n > 1 else (1 if removed else 0)
    return ops


# --------------------------------------------------------------------------- findings / evidence

def load_known():
    p = os.path.join(VERIF, "known_findings.json")
    if not os.path.exists(p):
        return []
    return json.load(open(p)).get("findings", [])


def match_known(pid, replay_text, cfg=None):
    """A finding with status 'known' matches when its property is pid and every regex in
    signature['all'] is found in the shrunk replay text (ops + expected/actual + cfg)."""
    for f in load_known():
        if f.get("property") != pid or f.get("status") != "known":
            continue
        sig = f.get("signature", {})
        pats = sig.get("all", [])
        if pats and all(re.search(p, replay_text, re.M) for p in pats):
            return f
    return None


def write_evidence(pid, tier, seed, coverage, wall, violations, assumptions=None, level="proof"):
    os.makedirs(EVID, exist_ok=True)
    ev = {
        "property_id": pid,
        "tier": tier,
        "seed": int(seed),
        "level": level,
        "coverage": coverage,
        "assumptions": assumptions or [],
        "wall_s": round(wall, 2),
        "violations": violations,
    }
    with open(os.path.join(EVID, pid + ".json"), "w") as f:
        json.dump(ev, f, indent=1)


def gen_changed(*names):
    """names of regenerated source inventories (lean/CC/Gen/<name>) that differ from the committed ones, i.e. the
    translated part of the repository under test is not what the committed proofs were checked against.  Used to DIRECT
    deeper (slower) searches for a failing input; on the unchanged tree it is empty.  No git / no repository: empty."""
    try:
        r = subprocess.run(["git", "-C", VERIF, "diff", "--name-only", "--", "lean/CC/Gen"], stdout=subprocess.PIPE,
                           stderr=subprocess.DEVNULL, text=True, timeout=60)
        ch = [os.path.basename(x) for x in r.stdout.split() if x]
    except Exception:
        return []
    return [c for c in ch if not names or c in names]


def write_replay(pid, seed, tag, body):
    d = os.path.join(OUT, pid)
    os.makedirs(d, exist_ok=True)
    p = os.path.join(d, "%s-%s-%s.replay" % (pid, seed, tag))
    with open(p, "w") as f:
        f.write(body)
    return p


class XorShift:
    """All random choices come from this one state (seeded by VERIF_SEED)."""
    def __init__(self, seed):
        self.s = (int(seed) * 0x9E3779B97F4A7C15 + 0x1234567) & 0xFFFFFFFFFFFFFFFF or 1

    def next(self):
        x = self.s
        x ^= (x << 13) & 0xFFFFFFFFFFFFFFFF
        x ^= x >> 7
        x ^= (x << 17) & 0xFFFFFFFFFFFFFFFF
        self.s = x
        return x

    def below(self, n):
        return self.next() % n if n > 0 else 0

    def choice(self, xs):
        return xs[self.below(len(xs))]

    def bytes(self, n):
        out = bytearray()
        while len(out) < n:
            out += self.next().to_bytes(8, "little")
        return bytes(out[:n])

    def hexbytes(self, n):
        return self.bytes(n).hex() if n else "-"
