#!/usr/bin/env python3
"""tools/inventory_simdx86_selftest.py — negative / positive tests of tools/inventory_simdx86.py: copies
utils-simd/ppv-lite86/src/x86_64/{sse2.rs, mod.rs} of /repo into a temporary tree, applies ONE mutation per case,
regenerates lean/CC/Gen/SimdX86Src.lean from it and checks that
  * N cases (breaking edits): the generated file changes AND `lake build CC.Simd.SrcX86` FAILS;
  * P cases (harmless rewrites): the generated file is byte-identical (nothing would even rebuild).
Restores the generated file from /repo at the end.  Not a registered check.
    python3 tools/inventory_simdx86_selftest.py [case id ...]"""
import os, shutil, subprocess, sys, tempfile, time
V = os.path.dirname(os.path.dirname(os.path.abspath(__file__)))
sys.path.insert(0, V + "/tools")
import inventory_simdx86 as X
S = "utils-simd/ppv-lite86/src/x86_64/sse2.rs"
M = "utils-simd/ppv-lite86/src/x86_64/mod.rs"
ROOT = os.path.join(tempfile.gettempdir(), "simdx86_selftest_%d" % os.getpid())
GEN = X.DEFAULT_OUT


def sub1(old, new, nth=0):
    def f(s):
        parts = s.split(old)
        assert len(parts) > nth + 1, old
        return old.join(parts[:nth + 1]) + new + old.join(parts[nth + 1:])
    return f


def suball(*pairs):
    def f(s):
        for a, b in pairs:
            assert a in s, a
            s = s.replace(a, b)
        return s
    return f


def swap_hdr(a, b):
    def f(s):
        assert a in s and b in s
        return s.replace(a, "\0").replace(b, a).replace("\0", b)
    return f


CASES = [
  # (id + description, harmless?, file, mutation)
  ("N01 u32x4 shuffle1230: pshufd immediate 0b1001_0011 -> 0b1001_0111", False, S, sub1("0b1001_0011", "0b1001_0111")),
  ("N02 u32x4<YesS3> rotate 8: one pshufb mask byte", False, S, sub1("0x0c0f_0e0d_080b_0a09", "0x0c0f_0e0d_080b_0a08")),
  ("N03 rotr_32!: srli -> slli", False, S, sub1("_mm_srli_epi32(self.x, $i as i32)", "_mm_slli_epi32(self.x, $i as i32)")),
  ("N04 rotr_32!: `32 - $i` -> `31 - $i`", False, S, sub1("32 - $i as i32", "31 - $i as i32")),
  ("N05 rotr_64!: srli_epi64 -> srli_epi32", False, S, sub1("_mm_srli_epi64(self.x, $i as i32)", "_mm_srli_epi32(self.x, $i as i32)")),
  ("N06 u32x4<YesS4> insert: arm 2 inserts into lane 3", False, S, sub1("2 => _mm_insert_epi32(self.x, v as i32, 2)", "2 => _mm_insert_epi32(self.x, v as i32, 3)")),
  ("N07 BSwap for u32x4: the YesS3 body under the NoS3 header and vice versa", False, S,
   swap_hdr("BSwap for u32x4_sse2<YesS3, S4, NI>", "BSwap for u32x4_sse2<NoS3, S4, NI>")),
  ("N08 u32x4<NoS3>: rotate_each_word_right24 instantiated with 25", False, S, sub1("rotr_32!(rotate_each_word_right24, 24);", "rotr_32!(rotate_each_word_right24, 25);")),
  ("N09 avx2 Not: _mm256_set1_epi8(-1) -> (-0x7f)", False, S, sub1("_mm256_set1_epi8(-1)", "_mm256_set1_epi8(-0x7f)")),
  ("N10 impl_binop!(u32x4_sse2, Add ..): _mm_add_epi32 -> _mm_add_epi64", False, S, sub1("impl_binop!(u32x4_sse2, Add, add, _mm_add_epi32)", "impl_binop!(u32x4_sse2, Add, add, _mm_add_epi64)")),
  ("N11 andnot: operands exchanged", False, S, sub1("_mm_andnot_si128(self.x, rhs.x)", "_mm_andnot_si128(rhs.x, self.x)")),
  ("N12 bswap32_s2: one statement dropped", False, S, sub1("        y = _mm_shufflehi_epi16(y, 0b0001_1011);\n", "")),
  ("N13 the macro argument of ONE type: impl_binop!(u64x2_sse2, Add ..) with _mm_add_epi32", False, S, sub1("impl_binop!(u64x2_sse2, Add, add, _mm_add_epi64)", "impl_binop!(u64x2_sse2, Add, add, _mm_add_epi32)")),
  ("N14 swap2<YesS3>: mask 0xcc -> 0xc3", False, S, sub1("swapi!(self, 2, 0xcc)", "swapi!(self, 2, 0xc3)")),
  ("N15 swap4<NoS3>: shift count 4 -> 2", False, S, sub1("swapi!(self, 4, 0xf0)", "swapi!(self, 2, 0xf0)", nth=1)),
  ("N16 u32x4<NoS4> to_lanes: pshufd 0b11101110 -> 0b11101111", False, S, sub1("0b11101110", "0b11101111")),
  ("N17 u32x4<YesS4> from_lanes: `<< 32` -> `<< 31`", False, S, sub1("(xs[1] as u64) << 32", "(xs[1] as u64) << 31")),
  ("N18 u32x4<YesS4> to_lanes: lanes 0 and 1 exchanged", False, S, sub1("[x as u32, (x >> 32) as u32, y as u32, (y >> 32) as u32]", "[(x >> 32) as u32, x as u32, y as u32, (y >> 32) as u32]")),
  ("N19 u64x2<NoS4> from_lanes: byte shift 8 -> 4", False, S, sub1("let y = _mm_slli_si128(_mm_cvtsi64_si128(xs[1] as i64), 8);", "let y = _mm_slli_si128(_mm_cvtsi64_si128(xs[1] as i64), 4);")),
  ("N20 u64x4<YesS3> shuffle3012: palignr operands exchanged in the first element", False, S, sub1("_mm_alignr_epi8(self.0[1].x, self.0[0].x, 8)", "_mm_alignr_epi8(self.0[0].x, self.0[1].x, 8)")),
  ("N21 u64x4<NoS3> shuffle3012: halves exchanged", False, S, sub1("x2::new([u64x2_sse2::new(da), u64x2_sse2::new(bc)])", "x2::new([u64x2_sse2::new(bc), u64x2_sse2::new(da)])")),
  ("N22 u64x4 extract: arm 2 reads the low half", False, S, sub1("2 => self.0[1].extract(0),\n            3 => self.0[1].extract(1),\n            _ => panic!(),\n        }\n    }\n    #[inline(always)]\n    fn insert(mut self", "2 => self.0[0].extract(0),\n            3 => self.0[1].extract(1),\n            _ => panic!(),\n        }\n    }\n    #[inline(always)]\n    fn insert(mut self")),
  ("N23 avx2 transpose4: vperm2i128 0x31 -> 0x30 (first)", False, S, sub1("0x31", "0x30")),
  ("N24 avx2 transpose4: ab10 takes b.0[0]", False, S, sub1("_mm256_permute2x128_si256(a.0[1].x, b.0[1].x, 0x20)", "_mm256_permute2x128_si256(a.0[1].x, b.0[0].x, 0x20)")),
  ("N25 u32x4x4_avx2 insert: `i - 2` -> `i - 1`", False, S, sub1("self.0[1].insert(w, i - 2)", "self.0[1].insert(w, i - 1)")),
  ("N26 shuf_lane_bytes!: ($k0, $k1, $k0, $k1) -> ($k1, $k0, $k0, $k1)", False, S, sub1("_mm256_set_epi64x($k0, $k1, $k0, $k1)", "_mm256_set_epi64x($k1, $k0, $k0, $k1)")),
  ("N27 u32x4x2_avx2 to_lanes: second lane extracted with index 0", False, S, sub1("u32x4_sse2::new(_mm256_extracti128_si256(self.x, 1)),\n                ]", "u32x4_sse2::new(_mm256_extracti128_si256(self.x, 0)),\n                ]")),
  ("N28 def_vec! write_be without the byte swap", False, S, sub1("let x = self.bswap().x;", "let x = self.x;")),
  ("N29 def_vec! write_le: asserted length 16 -> 32 (loud)", False, S, sub1("assert_eq!(out.len(), 16);", "assert_eq!(out.len(), 32);")),
  ("N30 an intrinsic without a model (loud)", False, S, sub1("impl_binop!($vec, BitXor, bitxor, _mm_xor_si128);", "impl_binop!($vec, BitXor, bitxor, _mm_sub_epi32);")),
  ("N31 u32x4<YesS4> insert: the default arm returns a value (loud)", False, S, sub1("3 => _mm_insert_epi32(self.x, v as i32, 3),\n                _ => unreachable!(),", "3 => _mm_insert_epi32(self.x, v as i32, 3),\n                _ => self.x,")),
  ("N32 mod.rs impl_into!(vec128_storage, [u64; 2] ..) reads the u32x4 view", False, M, sub1("impl_into!(vec128_storage, [u64; 2], u64x2);", "impl_into!(vec128_storage, [u64; 2], u32x4);")),
  ("N33 mod.rs Default for vec128_storage: [0] -> [1]", False, M, sub1("vec128_storage { u128x1: [0] }", "vec128_storage { u128x1: [1] }")),
  ("N34 an impl specialised on YesNI (loud)", False, S, sub1("impl<S3, S4, NI> LaneWords4 for u32x4_sse2<S3, S4, NI>", "impl<S3, S4> LaneWords4 for u32x4_sse2<S3, S4, YesNI>")),
  ("N35 rotr_128!: the half-swap pshufd 0b0100_1110 -> 0b0100_1111", False, S, sub1("0b0100_1110", "0b0100_1111")),
  ("N36 u64x2<NoS4> insert 1: _mm_move_epi64 dropped", False, S, sub1("_mm_move_epi64(self.x)", "self.x")),
  ("N37 u32x4<NoS4> insert 0: mask _mm_cvtsi32_si128(-1) -> (-2)", False, S, sub1("_mm_cvtsi32_si128(-1)", "_mm_cvtsi32_si128(-2)")),
  ("N38 u32x4 unsafe_from: xs[3] / xs[2] exchanged", False, S, sub1("xs[3] as i32,\n            xs[2] as i32,", "xs[2] as i32,\n            xs[3] as i32,")),
  ("N39 u32x4x2_avx2 from_lanes: lanes exchanged", False, S, sub1("_mm256_setr_m128i(x[0].x, x[1].x)", "_mm256_setr_m128i(x[1].x, x[0].x)")),
  ("N40 an impl under #[cfg(target_feature)] (loud)", False, S, sub1("impl<S4, NI> BSwap for u32x4_sse2<YesS3, S4, NI>", "#[cfg(target_feature = \"ssse3\")]\nimpl<S4, NI> BSwap for u32x4_sse2<YesS3, S4, NI>")),
  ("N41 u64x2<YesS3> rotate 16: rotr_64_s3! replaced by rotr_64! (macro row)", False, S, sub1("    rotr_64_s3!(\n        rotate_each_word_right16,\n        0x0908_0f0e_0d0c_0b0a,\n        0x0100_0706_0504_0302\n    );", "    rotr_64!(rotate_each_word_right16, 16);")),
  ("N42 u128x1<NoS3> swap8: slli_epi16 -> slli_epi32", False, S, sub1("_mm_or_si128(_mm_slli_epi16(self.x, 8), _mm_srli_epi16(self.x, 8))", "_mm_or_si128(_mm_slli_epi32(self.x, 8), _mm_srli_epi16(self.x, 8))")),
  ("N43 mod.rs vec256_storage::new128 built through the avx view of a wrong size (loud / type error)", False, M, sub1("pub fn new128(xs: [vec128_storage; 2]) -> Self {\n        Self { sse2: xs }", "pub fn new128(xs: [vec128_storage; 2]) -> Self {\n        Self { u128x2: xs }")),
  ("N44 u64x4 insert: arm 1 writes the high half", False, S, sub1("1 => self.0[0] = self.0[0].insert(w, 1),", "1 => self.0[1] = self.0[0].insert(w, 1),")),
  ("N45 mod.rs SseMachine: `type u64x4` is the G0 pair `u64x2x2_sse2`", False, M, sub1("type u64x4 = sse2::u64x4_sse2<S3, S4, NI>;", "type u64x4 = sse2::u64x2x2_sse2<S3, S4, NI>;")),
  ("N46 mod.rs alias SSSE3 = SseMachine<YesS3, YesS4, NoNI>", False, M, sub1("pub type SSSE3 = SseMachine<YesS3, NoS4, NoNI>;", "pub type SSSE3 = SseMachine<YesS3, YesS4, NoNI>;")),
  ("N47 mod.rs Avx2Machine: `type u32x4x2` is the SSE pair", False, M, sub1("type u32x4x2 = sse2::avx2::u32x4x2_avx2<NI>;", "type u32x4x2 = sse2::u32x4x2_sse2<YesS3, YesS4, NI>;")),
  ("N48 mod.rs Avx2Machine: `type u64x2` uses NoS4", False, M, sub1("type u64x2 = sse2::u64x2_sse2<YesS3, YesS4, NI>;", "type u64x2 = sse2::u64x2_sse2<YesS3, NoS4, NI>;")),
  # harmless rewrites: byte-identical output
  ("P01 rotr_128!: local `swapped` renamed", True, S, suball(("swapped", "sw"))),
  ("P02 bswap32_s2: the independent y / z chains reordered", True, S, sub1(
      "        let mut y = _mm_unpacklo_epi8(x, _mm_setzero_si128());\n        y = _mm_shufflehi_epi16(y, 0b0001_1011);\n        y = _mm_shufflelo_epi16(y, 0b0001_1011);\n        let mut z = _mm_unpackhi_epi8(x, _mm_setzero_si128());\n        z = _mm_shufflehi_epi16(z, 0b0001_1011);\n        z = _mm_shufflelo_epi16(z, 0b0001_1011);\n",
      "        let mut z = _mm_unpackhi_epi8(x, _mm_setzero_si128());\n        let mut y = _mm_unpacklo_epi8(x, _mm_setzero_si128());\n        z = _mm_shufflehi_epi16(z, 0b0001_1011);\n        y = _mm_shufflehi_epi16(y, 0b0001_1011);\n        y = _mm_shufflelo_epi16(y, 0b0001_1011);\n        z = _mm_shufflelo_epi16(z, 0b0001_1011);\n")),
  ("P03 u32x4<NoS4> from_lanes: an extra temporary", True, S, sub1("            Self::new(_mm_or_si128(x, y))\n", "            let r = _mm_or_si128(x, y);\n            let q = r;\n            Self::new(q)\n")),
  ("P04 literals written differently (0b0100_1110 -> 0x4e, 0xaa -> 0b1010_1010, 25 -> 0x19)", True, S, suball(("0b0100_1110", "0x4e"), ("0xaa", "0b1010_1010"), ("rotr_32!(rotate_each_word_right25, 25);", "rotr_32!(rotate_each_word_right25, 0x19);"))),
  ("P05 comments and layout", True, S, sub1("                0 => {\n                    let x = _mm_andnot_si128(_mm_cvtsi32_si128(-1), self.x);\n                    _mm_or_si128(x, _mm_cvtsi32_si128(v as i32))\n                }", "                0 => { /* clear lane 0 /* nested */ */ let x = _mm_andnot_si128(_mm_cvtsi32_si128(-1), self.x); // then or\n _mm_or_si128(x,\n _mm_cvtsi32_si128(v as i32)) }")),
  ("P06 parameter / local `xs` renamed everywhere", True, S, suball(("xs", "lanes"))),
  ("P07 macro parameters `$i` renamed", True, S, suball(("$i", "$amt"))),
  ("P08 `32 - $i as i32` parenthesised", True, S, suball(("32 - $i as i32", "32 - ($i as i32)"), ("64 - $i as i32", "(64 - ($i as i32))"))),
  ("P09 `Self::new(unsafe { e })` -> `unsafe { Self::new(e) }`", True, S, sub1("Self::new(unsafe { _mm_shuffle_epi32(self.x, 0b0100_1110) })", "unsafe { Self::new(_mm_shuffle_epi32(self.x, 0b0100_1110)) }")),
  ("P10 u64x4<NoS3> shuffle3012: independent lets reordered, locals renamed", True, S, sub1(
      "            let a = _mm_srli_si128(self.0[0].x, 8);\n            let b = _mm_slli_si128(self.0[0].x, 8);\n            let c = _mm_srli_si128(self.0[1].x, 8);\n            let d = _mm_slli_si128(self.0[1].x, 8);\n            let da = _mm_or_si128(d, a);\n            let bc = _mm_or_si128(b, c);\n            x2::new([u64x2_sse2::new(da), u64x2_sse2::new(bc)])",
      "            let d = _mm_slli_si128(self.0[1].x, 8);\n            let lo = self.0[0].x;\n            let c = _mm_srli_si128(self.0[1].x, 8);\n            let b = _mm_slli_si128(lo, 8);\n            let a = _mm_srli_si128(lo, 8);\n            let second = _mm_or_si128(b, c);\n            let first = _mm_or_si128(d, a);\n            x2::new([u64x2_sse2::new(first), u64x2_sse2::new(second)])")),
  ("P11 mod.rs impl_into!: parameter `vec` renamed", True, M, suball(("fn from(vec: $storage) -> Self {\n                unsafe { vec.$name }", "fn from(v: $storage) -> Self {\n                unsafe { v.$name }"))),
  ("P12 u32x4<YesS4> from_lanes: `let mut x; x = ..` as two lets", True, S, sub1(
      "            let mut x = _mm_cvtsi64_si128((xs[0] as u64 | ((xs[1] as u64) << 32)) as i64);\n            x = _mm_insert_epi64(x, (xs[2] as u64 | ((xs[3] as u64) << 32)) as i64, 1);\n            Self::new(x)",
      "            let hi = (xs[2] as u64 | ((xs[3] as u64) << 32)) as i64;\n            let x0 = _mm_cvtsi64_si128((xs[0] as u64 | ((xs[1] as u64) << 32)) as i64);\n            let x1 = _mm_insert_epi64(x0, hi, 1);\n            Self::new(x1)")),
  ("P13 the test module changes", True, S, sub1("let xs = [0x0f0e_0d0c, 0x0b0a_0908, 0x0706_0504, 0x0302_0100];", "let xs = [0x0f0e_0d0c, 0x0b0a_0908, 0x0706_0504, 0x0302_0101];")),
]


def run(cmd, **kw):
    return subprocess.run(cmd, stdout=subprocess.PIPE, stderr=subprocess.STDOUT, universal_newlines=True, **kw)


def main():
    only = sys.argv[1:]
    base = X.render_lean(X.simdx86_inventory("/repo"))
    results = []
    try:
        for cid, harmless, rel, mut in CASES:
            if only and cid.split()[0] not in only:
                continue
            shutil.rmtree(ROOT, ignore_errors=True)
            for f in X.FILES:
                os.makedirs(os.path.dirname(os.path.join(ROOT, f)), exist_ok=True)
                shutil.copy(os.path.join("/repo", f), os.path.join(ROOT, f))
            p = os.path.join(ROOT, rel)
            s = open(p).read()
            s2 = mut(s)
            assert s2 != s, cid
            open(p, "w").write(s2)
            inv = X.simdx86_inventory(ROOT)
            text = X.render_lean(inv)
            nerr = len(inv["errors"])
            t0 = time.time()
            if harmless:
                good = text == base
                what = "generated file %s" % ("byte-identical" if good else "CHANGED")
            else:
                open(GEN, "w").write(text)
                b = run(["lake", "build", "CC.Simd.SrcX86"], cwd=V + "/lean")
                errs = [l for l in b.stdout.splitlines() if l.startswith("error:")]
                good = text != base and b.returncode != 0
                what = "generated file %s, translator errors %d, lake build CC.Simd.SrcX86 %s (%.1fs) %s" % (
                    "changed" if text != base else "UNCHANGED", nerr, "FAILED" if b.returncode != 0 else "OK", time.time() - t0,
                    errs[0][:110] if errs else "")
            print("%-11s %s | %s" % ("as expected" if good else "UNEXPECTED", cid, what))
            sys.stdout.flush()
            results.append(good)
    finally:
        shutil.rmtree(ROOT, ignore_errors=True)
        X.simdx86_regenerate("/repo")
        open(GEN, "w").write(base)
    n = sum(1 for c in CASES if not c[1] and (not only or c[0].split()[0] in only))
    print("%s: %d cases (%d breaking, %d harmless)" % ("ALL AS EXPECTED" if all(results) else "SOME UNEXPECTED", len(results), n, len(results) - n))
    return 0 if all(results) else 1


sys.exit(main())
