#!/usr/bin/env python3
"""tools/inventory_simdport.py — source-to-Lean TRANSLATOR for the portable parts of ppv-lite86:
`utils-simd/ppv-lite86/src/generic.rs` (the storage unions, `u32x4_generic` / `u64x2_generic` / `u128x1_generic`,
the helpers `dmap` … `omap2`, every trait impl, `GenericMachine`) and `src/soft.rs` (`x2<W,G>`, `x4<W>`).

    simdport_regenerate(repo)      (CLI: python3 tools/inventory_simdport.py [--repo DIR] [--out FILE | --print])

Every fn with a body in the two files (item macros `impl_bitops!`, `fwd_binop_x2!`, `fwd_unop_x2!`, … expanded per
invocation) is evaluated SYMBOLICALLY — calls of functions of the two files and closures are inlined — into a pure
expression over the lanes of its arguments, and printed as one Lean definition `<SelfType>_<method>` in
lean/CC/Gen/SimdPortSrc.lean (sorted by name).  Because the text is the dataflow (an expression tree over the
parameters), renamed locals, reordered independent statements, extra temporaries and reformatting regenerate a
byte-identical file; a changed constant, rotate count, operand, lane index, view, helper (`dmap` for `qmap`),
`to_be` for `to_le`, macro argument … changes it.  lean/CC/Simd/SrcPort.lean proves that the hand-written model
(`CC.Simd.Impl.Generic`, `CC.Simd.Impl.Soft`) EQUALS these definitions; collected as
`CC.Thm.C12.source_portable_match` / `CC.Thm.C13.source_portable_match`.

Anything not understood is a translation ERROR: the definition becomes a `String` with the message and is listed in
`simdport_errors` (obligation `… = []`).  Never skipped silently.  Standard library only; deterministic.
"""
import os, sys

_HERE = os.path.dirname(os.path.abspath(__file__))
sys.path.insert(0, _HERE)
import inventory_kernels as K
import inventory_kernels_code as KC
from inventory_kernels import TErr, Tok, is_p, is_id, match_close, OPEN

_LEAN = os.path.join(os.path.dirname(_HERE), "lean")
DEFAULT_OUT = os.path.join(_LEAN, "CC", "Gen", "SimdPortSrc.lean")
FILES = [("generic", "utils-simd/ppv-lite86/src/generic.rs"), ("soft", "utils-simd/ppv-lite86/src/soft.rs")]


# =========================================================================== parser (P2 + unsafe blocks, closures, array patterns)

class P3(KC.P2):
    def eat_p(self, s):
        if s == ";" and self.done():
            return                      # `*self = *self & rhs` as the last thing of a block (no `;`)
        KC.P2.eat_p(self, s)

    def block(self):
        if not self.at_p("{"):
            raise TErr("`{` expected at `%s`" % self.ctx())
        e = match_close(self.t, self.i)
        q = P3(self.t, self.i + 1, e - 1)
        stmts, tail = q.block_body()
        self.i = e
        return ("block", stmts, tail)

    def pattern(self):
        if self.at_p("["):
            self.i += 1
            items = []
            while not self.at_p("]"):
                items.append(self.pattern())
                if self.at_p(","):
                    self.i += 1
            self.eat_p("]")
            return ("parr", items)
        if self.at_p("("):
            self.i += 1
            items = []
            while not self.at_p(")"):
                items.append(self.pattern())
                if self.at_p(","):
                    self.i += 1
            self.eat_p(")")
            return ("ptuple", items)
        return KC.P2.pattern(self)

    def primary(self):
        t = self.peek()
        if is_id(t, "unsafe") and self.at_p("{", 1):
            self.i += 1
            return self.block()
        if is_id(t) and t.s not in ("if", "for", "while", "match", "loop") and self.at_p("{", 1) \
                and is_id(self.peek(2)) and is_p(self.peek(3), ":"):
            # struct / union literal of a lower-case type name (`vec128_storage { d: .. }`)
            self.i += 2
            fields = []
            while not self.at_p("}"):
                f = self.eat_id()
                self.eat_p(":")
                fields.append((f, self.expr()))
                if self.at_p(","):
                    self.i += 1
                elif not self.at_p("}"):
                    raise TErr("`,` or `}` expected in a struct literal at `%s`" % self.ctx())
            self.eat_p("}")
            return ("structlit", [t.s], fields)
        if t is not None and t.k == "p" and t.s in ("|", "||"):
            params = []
            self.i += 1
            if t.s == "|":
                while not self.at_p("|"):
                    params.append(self.pattern())
                    if self.at_p(":"):
                        self.i += 1
                        self.type_()
                    if self.at_p(","):
                        self.i += 1
                self.eat_p("|")
            return ("closure", params, self.expr())
        return KC.P2.primary(self)


# =========================================================================== items

class Fn(object):
    def __init__(self, name, generics, selfkind, params, ret, body, impl):
        # selfkind: None | "val" | "ref" | "mut";  params: [(pattern, type)];  body: ("block", stmts, tail)
        self.name, self.generics, self.selfkind, self.params, self.ret, self.body, self.impl = \
            name, generics, selfkind, params, ret, body, impl
        self.err = None


class Impl(object):
    def __init__(self, generics, trait, selfty, file):
        self.generics, self.trait, self.selfty, self.file = generics, trait, selfty, file
        self.fns, self.assoc = [], []


def ty_text(t):
    if t is None:
        return "()"
    k = t[0]
    if k == "path":
        s = "::".join(t[1])
        return s + ("<%s>" % ", ".join(ty_text(a) for a in t[2]) if t[2] else "")
    if k == "array":
        return "[%s%s]" % (ty_text(t[1]), "" if t[2] is None else "; %s" % K.fmt_expr(t[2]))
    if k == "ref":
        return "&%s%s" % ("mut " if t[1] else "", ty_text(t[2]))
    if k == "tuple":
        return "(%s)" % ", ".join(ty_text(a) for a in t[1])
    return "<%s>" % k


def expand_macros(toks):
    """expand every invocation `name!(args);` of a single-arm `macro_rules! name` of the same file, in place
    (repeatedly; invocations inside macro_rules bodies are expanded when the enclosing macro is)"""
    for _round in range(8):
        spans, defs = [], {}
        i, n = 0, len(toks)
        while i < n:
            if is_id(toks[i], "macro_rules") and i + 3 < n and is_p(toks[i + 1], "!") and is_id(toks[i + 2]) \
                    and toks[i + 3].k == "p" and toks[i + 3].s in OPEN:
                e = match_close(toks, i + 3)
                spans.append((i, e))
                try:
                    defs[toks[i + 2].s] = KC.MacroDef(toks[i + 2].s, toks[i + 4:e - 1])
                except TErr as ex:
                    defs[toks[i + 2].s] = ex
                i = e
                continue
            i += 1
        out, i, changed = [], 0, False
        while i < n:
            sp = [s for s in spans if s[0] == i]
            if sp:
                out.extend(toks[i:sp[0][1]])
                i = sp[0][1]
                continue
            if is_id(toks[i]) and toks[i].s in defs and i + 2 < n and is_p(toks[i + 1], "!") and is_p(toks[i + 2], "(") \
                    and not (i > 0 and is_p(toks[i - 1], "::")):
                md = defs[toks[i].s]
                if isinstance(md, TErr):
                    # macros with repetitions (`dispatch!`) are never invoked in these files; if one is: error item
                    raise TErr("macro %s! is invoked but not understood: %s" % (toks[i].s, md))
                e = match_close(toks, i + 2)
                out.extend(md.expand(KC.split_args(toks[i + 3:e - 1])))
                i = e + 1 if e < n and is_p(toks[e], ";") else e
                changed = True
                continue
            out.append(toks[i])
            i += 1
        toks = out
        if not changed:
            return toks
    raise TErr("macro expansion does not terminate")


class File(object):
    def __init__(self, repo, tag, rel):
        self.tag, self.rel = tag, rel
        path = os.path.join(repo, rel)
        if not os.path.exists(path):
            raise TErr("source file %s not found" % rel)
        toks = K.drop_cfg_test(K.lex(open(path, encoding="utf-8", errors="replace").read()))
        toks = expand_macros(toks)
        # `>>` closing two generic argument lists (never followed by an operand) is split once, here
        out = []
        for j, x in enumerate(toks):
            nx = toks[j + 1] if j + 1 < len(toks) else None
            if is_p(x, ">>") and nx is not None and ((nx.k == "p" and nx.s in "{,);>=") or is_id(nx, "for") or is_id(nx, "where")):
                out += [Tok("p", ">"), Tok("p", ">")]
            else:
                out.append(x)
        self.toks = out
        self.structs, self.aliases, self.impls, self.fns, self.decls, self.errors = {}, {}, [], [], [], []
        self.items(0, len(self.toks))

    def attrs(self, i, end):
        t, out = self.toks, []
        while i < end and is_p(t[i], "#"):
            e = K.skip_attr(t, i)
            out.append("".join(x.s for x in t[i:e]))
            i = e
        return i, out

    def items(self, i, end, impl=None):
        t = self.toks
        while i < end:
            if is_p(t[i], ";"):
                i += 1
                continue
            i, attrs = self.attrs(i, end)
            if i >= end:
                break
            if "#[test]" in attrs:
                i = K.item_end(t, i)
                continue
            if is_id(t[i], "pub"):
                i += 1
                if is_p(t[i], "("):
                    i = match_close(t, i)
            unsafe = False
            if is_id(t[i], "unsafe") and (is_id(t[i + 1], "fn") or is_id(t[i + 1], "impl")):
                unsafe = True
                i += 1
            x = t[i]
            if is_id(x, "use"):
                i = K.item_end(t, i)
            elif is_id(x, "macro_rules"):
                i = match_close(t, i + 3)
            elif is_id(x, "fn"):
                i = self.fn_item(i, impl)
            elif impl is not None and is_id(x, "type"):
                e = K.item_end(t, i)
                impl.assoc.append(" ".join(y.s for y in t[i:e - 1]))
                i = e
            elif impl is not None:
                raise TErr("%s: item `%s` inside an impl is not understood" % (self.rel, x.s))
            elif is_id(x, "struct") or is_id(x, "union"):
                i = self.struct_item(i, attrs)
            elif is_id(x, "type"):
                p = P3(t, i + 1)
                name = p.eat_id()
                p.eat_p("=")
                ty = p.type_()
                p.eat_p(";")
                self.aliases[name] = ty
                self.decls.append((name, "type = " + ty_text(ty)))
                i = p.i
            elif is_id(x, "impl"):
                i = self.impl_item(i)
            elif is_id(x) and any(is_p(t[j], "!") for j in range(i + 1, min(end, i + 6))) :
                # `path::name! { items }`
                j = i
                while not is_p(t[j], "!"):
                    j += 1
                name = t[j - 1].s
                if name != "cryptocorrosion_derive_traits" or not is_p(t[j + 1], "{"):
                    raise TErr("%s: item macro %s! is not understood" % (self.rel, name))
                e = match_close(t, j + 1)
                self.items(j + 2, e - 1)
                i = e
            else:
                raise TErr("%s: item starting at `%s` is not understood" % (self.rel, " ".join(y.s for y in t[i:i + 6])))

    def struct_item(self, i, attrs):
        t = self.toks
        kind = t[i].s
        p = P3(t, i + 1)
        name = p.eat_id()
        gens = p.generics()
        fields = []
        if p.at_p(";"):
            p.i += 1
        else:
            tup = p.at_p("(")
            e = match_close(t, p.i)
            q = P3(t, p.i + 1, e - 1)
            k = 0
            while not q.done():
                while q.at_p("#"):
                    q.i = K.skip_attr(t, q.i)
                if q.at_id("pub"):
                    q.i += 1
                    if q.at_p("("):
                        q.i = match_close(t, q.i)
                if tup:
                    fields.append((str(k), q.type_()))
                else:
                    f = q.eat_id()
                    q.eat_p(":")
                    fields.append((f, q.type_()))
                k += 1
                if q.at_p(","):
                    q.i += 1
            p.i = e
            if p.at_p(";"):
                p.i += 1
        self.structs[name] = (kind, [g[0] for g in gens], fields)
        keep = sorted(a for a in attrs if a.startswith("#[repr"))
        self.decls.append((name, "%s%s%s { %s }" % ("".join(a + " " for a in keep), kind,
                                                    "<%s>" % ", ".join(g[0] for g in gens) if gens else "",
                                                    ", ".join("%s: %s" % (f, ty_text(ty)) for f, ty in fields))))
        return p.i

    def impl_item(self, i):
        t = self.toks
        p = P3(t, i + 1)
        gens = p.generics()
        first = p.type_()
        trait, selfty = None, first
        if p.at_id("for"):
            p.i += 1
            trait, selfty = first, p.type_()
        while not p.at_p("{"):
            p.i += 1                       # where-clause
        e = match_close(t, p.i)
        im = Impl([g[0] for g in gens], trait, selfty, self)
        self.impls.append(im)
        self.items(p.i + 1, e - 1, im)
        return e

    def fn_item(self, i, impl):
        t = self.toks
        p = P3(t, i + 1)
        name = p.eat_id()
        gens = [g[0] for g in p.generics()]
        p.eat_p("(")
        selfkind, params = None, []
        while not p.at_p(")"):
            if p.at_p("&") and (p.at_id("self", 1) or (p.at_id("mut", 1) and p.at_id("self", 2))):
                selfkind = "mut" if p.at_id("mut", 1) else "ref"
                p.i += 3 if selfkind == "mut" else 2
            elif p.at_id("self") or (p.at_id("mut") and p.at_id("self", 1)):
                selfkind = "val"
                p.i += 2 if p.at_id("mut") else 1
            else:
                pat = p.pattern()
                p.eat_p(":")
                params.append((pat, p.type_()))
            if p.at_p(","):
                p.i += 1
        p.eat_p(")")
        ret = None
        if p.at_p("->"):
            p.i += 1
            ret = p.type_()
        while not p.at_p("{") and not p.at_p(";"):
            p.i += 1
        if p.at_p(";"):
            return p.i + 1
        e = match_close(t, p.i)
        f = Fn(name, gens, selfkind, params, ret, None, impl)
        try:
            f.body = p.block()
        except TErr as ex:
            f.err = str(ex)
        (impl.fns if impl is not None else self.fns).append(f)
        return e


# =========================================================================== symbolic values, terms

def atomic(s):
    if " " not in s:
        return True
    if s[0] in "([" and s[-1] in ")]":
        d = 0
        for i, c in enumerate(s):
            if c in "([":
                d += 1
            elif c in ")]":
                d -= 1
                if d == 0 and i != len(s) - 1:
                    return False
        return True
    return False


def par(s):
    return s if atomic(s) else "(" + s + ")"


def ap(f, *args):
    return f + "".join(" " + par(a) for a in args)


INTS = {"u8": 8, "u16": 16, "u32": 32, "u64": 64, "u128": 128}
ANY = ("any",)
UNIT = ("unit",)
PANIC_MACROS = ("unimplemented", "panic", "unreachable", "todo")


class PanicBody(Exception):
    pass


class Buf(object):
    """a `&mut [u8]` parameter: the writes made to it, as (lo bound, hi bound, new content)"""

    def __init__(self, term):
        self.term, self.writes = term, []


class Env(object):
    def __init__(self, parent=None):
        self.v, self.parent = {}, parent

    def find(self, n):
        e = self
        while e is not None:
            if n in e.v:
                return e
            e = e.parent
        return None

    def get(self, n):
        e = self.find(n)
        return None if e is None else e.v[n]

    def set(self, n, val):
        e = self.find(n)
        if e is None:
            raise TErr("assignment to unknown variable `%s`" % n)
        e.v[n] = val


class State(object):
    """per generated definition: the panic guards met, the generic-element context (x2 / x4 / none)"""

    def __init__(self, kind):
        self.kind, self.guards, self.depth = kind, [], 0
        self.ww = "n" if kind == "x2" else 128 if kind == "x4" else None

    def guard(self, cond, msg):
        if (cond, msg) not in self.guards:
            self.guards.append((cond, msg))


class Ctx(object):
    def __init__(self, tyenv, S):
        self.tyenv, self.S = tyenv, S


def wmul(w, k):
    if isinstance(w, int):
        return w * k
    if w == "n" and k == 2:
        return "n2"
    raise TErr("width %s × %d has no carrier" % (w, k))


class World(object):
    def __init__(self, repo):
        self.files = [File(repo, tag, rel) for tag, rel in FILES]

    def struct(self, name):
        for f in self.files:
            if name in f.structs:
                return f.structs[name]
        return None

    def alias(self, name):
        for f in self.files:
            if name in f.aliases:
                return f.aliases[name]
        return None

    def impls(self):
        for f in self.files:
            for im in f.impls:
                yield im

    def free_fn(self, name):
        hits = [g for f in self.files for g in f.fns if g.name == name]
        if len(hits) > 1:
            raise TErr("fn %s is defined %d times" % (name, len(hits)))
        return hits[0] if hits else None

    # ------------------------------------------------------------------ types
    def rtype(self, ty, tyenv):
        if ty is None:
            return UNIT
        k = ty[0]
        if k == "ref":
            inner = ty[2]
            if inner[0] == "array" and inner[2] is None:
                if self.rtype(inner[1], tyenv) != ("int", 8):
                    raise TErr("slice of non-bytes `%s`" % ty_text(ty))
                return ("bytes", ty[1])
            return self.rtype(inner, tyenv)
        if k == "tuple":
            return ("tuple", [self.rtype(x, tyenv) for x in ty[1]]) if ty[1] else UNIT
        if k == "array":
            n = ty[2]
            if n is None or n[0] != "int":
                raise TErr("array length of `%s` is not a literal" % ty_text(ty))
            return ("arr", self.rtype(ty[1], tyenv), n[1])
        if k != "path":
            raise TErr("type `%s` is not understood" % ty_text(ty))
        segs, args = ty[1], ty[2]
        if len(segs) == 2 and segs[1] == "Output":
            return self.rtype(("path", [segs[0]], []), tyenv)      # TRUSTED: `type Output = Self` in every op impl
        name = segs[-1]
        if len(segs) == 1 and name in tyenv:
            return tyenv[name]
        if name in INTS:
            return ("int", INTS[name])
        if name == "usize":
            return ("nat",)
        if name == "bool":
            return ("bool",)
        if name == "PhantomData":
            return UNIT
        al = self.alias(name)
        if al is not None:
            return self.rtype(al, {})
        st = self.struct(name)
        if st is not None:
            return ("adt", name, [self.rtype(a, tyenv) for a in args])
        raise TErr("type `%s` is not known" % ty_text(ty))

    def width(self, rt, S):
        k = rt[0]
        if k == "int":
            return rt[1]
        if k == "arr":
            return wmul(self.width(rt[1], S), rt[2])
        if k == "param":
            if rt[1] == "W" and S.ww is not None:
                return S.ww
            return 0
        if k == "unit":
            return 0
        if k == "adt":
            kind, gens, fields = self.struct(rt[1])
            te = dict(zip(gens, rt[2]))
            ws = [self.width(self.rtype(ft, te), S) for _, ft in fields]
            ws = [w for w in ws if w != 0]
            if kind == "union":
                if S.ww == "n":
                    return "n"         # inside `x2<W,G>` code the 128-bit storage is the carrier of `W`
                if len(set(ws)) != 1:
                    raise TErr("union %s: views of different sizes" % rt[1])
                return ws[0]
            if not ws:
                return 0
            if len(set(ws)) == 1:
                return ws[0] if len(ws) == 1 else wmul(ws[0], len(ws))
            return sum(ws)
        raise TErr("type %s has no carrier" % (rt,))

    def lean_ty(self, rt, S):
        k = rt[0]
        if k == "int":
            return "BitVec %d" % rt[1]
        if k == "nat":
            return "Nat"
        if k == "bool":
            return "Bool"
        if k == "unit":
            return "Unit"
        if k == "bytes":
            return "List (BitVec 8)"
        if k == "arr":
            return "List (%s)" % self.lean_ty(rt[1], S)
        if k == "tuple":
            return " × ".join(par(self.lean_ty(x, S)) for x in rt[1])
        if k in ("adt", "param"):
            w = self.width(rt, S)
            return "Unit" if w == 0 else "BitVec %s" % w
        raise TErr("no Lean type for %s" % (rt,))

    # ------------------------------------------------------------------ carriers (TRUSTED layout: element / field 0 in the low bits)
    def split(self, term, total, parts):
        """terms of the consecutive pieces (widths `parts`) of a carrier `term` of width `total`"""
        if len(parts) == 1 and parts[0] == total:
            return [term]
        if total == "n2" and parts == ["n", "n"]:
            return [ap("lo", term), ap("hi", term)]
        if all(isinstance(p, int) for p in parts) and isinstance(total, int) and sum(parts) == total:
            voc = {(128, 32): "lane32", (128, 64): "lane64", (512, 128): "q128"}
            if len(set(parts)) == 1 and (total, parts[0]) in voc:
                return [ap(voc[(total, parts[0])], term, str(i)) for i in range(len(parts))]
            if total == 256 and parts == [128, 128]:
                return [ap("lo128", term), ap("hi128", term)]
            out, off = [], 0
            for p in parts:
                out.append(ap("BitVec.extractLsb'", str(off), str(p), term))
                off += p
            return out
        raise TErr("cannot split a %s-bit carrier into %s" % (total, parts))

    def join(self, terms, parts):
        if len(terms) == 1:
            return terms[0], parts[0]
        if parts == ["n", "n"]:
            return ap("pack", *terms), "n2"
        if all(isinstance(p, int) for p in parts):
            voc = {(4, 32): "pack32", (2, 64): "pack64", (2, 128): "pack256", (4, 128): "pack512"}
            if len(set(parts)) == 1 and (len(parts), parts[0]) in voc:
                return ap(voc[(len(parts), parts[0])], *terms), sum(parts)
            return " ++ ".join(par(t) for t in reversed(terms)), sum(parts)
        raise TErr("cannot join carriers of widths %s" % parts)

    def fresh(self, rt, term, S):
        """the symbolic value of type `rt` whose carrier / Lean value is `term`"""
        k = rt[0]
        if k == "int":
            return ("bv", rt[1], term)
        if k == "nat":
            return ("nat", term, None, None)
        if k == "bool":
            return ("bool", term)
        if k == "unit":
            return UNIT
        if k == "param":
            return ("w", term) if rt[1] == "W" else UNIT
        if k == "bytes":
            return ("mslice", Buf(term), None, "END") if rt[1] else ("bytes", term)
        if k == "arr":
            ws = [self.width(rt[1], S)] * rt[2]
            return ("arr", [self.fresh(rt[1], t, S) for t in self.split(term, wmul(ws[0], rt[2]) if rt[2] > 1 else ws[0], ws)])
        if k == "adt":
            kind, gens, fields = self.struct(rt[1])
            te = dict(zip(gens, rt[2]))
            if kind == "union":
                return ("union", rt[1], None, term)
            frts = [(f, self.rtype(ft, te)) for f, ft in fields]
            ws = [(f, r, self.width(r, S)) for f, r in frts]
            live = [x for x in ws if x[2] != 0]
            terms = self.split(term, self.width(rt, S), [x[2] for x in live]) if live else []
            vals = {}
            for f, r, w in ws:
                vals[f] = self.fresh(r, terms.pop(0), S) if w != 0 else UNIT
            return ("adt", rt[1], list(rt[2]), vals)
        raise TErr("cannot make a symbolic value of type %s" % (rt,))

    def fresh_list(self, rt, term, S):
        """an array PARAMETER `[T; n]` is a Lean list; element k is `List.getD xs k 0`"""
        return ("arr", [self.fresh(rt[1], ap("List.getD", term, str(i), "0"), S) for i in range(rt[2])])

    def car(self, v, S):
        """(carrier term, width) of a vector / storage / scalar value"""
        k = v[0]
        if k == "bv":
            return v[2], v[1]
        if k == "w":
            return v[1], S.ww
        if k == "union":
            if v[2] is None:
                return v[3], (S.ww if S.ww == "n" else 128)
            return self.car(v[3], S)
        if k == "arr":
            cs = [self.car(x, S) for x in v[1]]
            return self.join([c[0] for c in cs], [c[1] for c in cs])
        if k == "adt":
            cs = [self.car(x, S) for x in v[3].values() if x != UNIT]
            if not cs:
                return "()", 0
            return self.join([c[0] for c in cs], [c[1] for c in cs])
        raise TErr("value of kind %s has no carrier" % k)

    def typeof(self, v, S):
        k = v[0]
        if k == "bv":
            return ("int", v[1])
        if k == "nat":
            return ("nat",)
        if k == "w":
            return ("param", "W")
        if k == "union":
            return ("adt", v[1], [])
        if k == "adt":
            return ("adt", v[1], v[2])
        if k == "arr":
            return ("arr", self.typeof(v[1][0], S) if v[1] else ANY, len(v[1]))
        if k == "tup":
            return ("tuple", [self.typeof(x, S) for x in v[1]])
        if k in ("bytes", "mslice"):
            return ("bytes", k == "mslice")
        if k == "unit":
            return UNIT
        if k == "bool":
            return ("bool",)
        return ANY

    def compat(self, a, b):
        if a == ANY or b == ANY or a is None or b is None:
            return True
        if a[0] != b[0]:
            return False
        if a[0] == "arr":
            return a[2] == b[2] and self.compat(a[1], b[1])
        if a[0] == "adt":
            return a[1] == b[1] and all(self.compat(x, y) for x, y in zip(a[2], b[2]))
        if a[0] == "tuple":
            return len(a[1]) == len(b[1]) and all(self.compat(x, y) for x, y in zip(a[1], b[1]))
        if a[0] == "int":
            return a[1] == b[1]
        return True

    def match_ty(self, ty, gens, rt, bind):
        """does the type syntax `ty` (generic parameters `gens`) denote `rt`? (binds generics in `bind`)"""
        if rt == ANY:
            return True
        if ty[0] == "ref":
            return self.match_ty(ty[2], gens, rt, bind)
        if ty[0] == "array":
            return rt[0] == "arr" and ty[2] is not None and ty[2][0] == "int" and ty[2][1] == rt[2] \
                and self.match_ty(ty[1], gens, rt[1], bind)
        if ty[0] != "path":
            return False
        name = ty[1][-1]
        if len(ty[1]) == 1 and name in gens:
            if name in bind:
                return self.compat(bind[name], rt)
            bind[name] = rt
            return True
        if name in INTS:
            return rt == ("int", INTS[name])
        al = self.alias(name)
        if al is not None:
            return self.match_ty(al, gens, rt, bind)
        if self.struct(name) is not None:
            if rt[0] != "adt" or rt[1] != name:
                return False
            for a, r in zip(ty[2], rt[2]):
                if not self.match_ty(a, gens, r, bind):
                    return False
            return True
        return False


# =========================================================================== TRUSTED reading tables

W_BIN = {"bitand": "and", "bitor": "or", "bitxor": "xor", "andnot": "andnot", "add": "add"}
W_ASSIGN = {"bitand_assign": "and", "bitor_assign": "or", "bitxor_assign": "xor", "add_assign": "add"}
W_UN = {"not": "not", "bswap": "bswap"}
W_NUM = [("rotate_each_word_right", "rotr"), ("shuffle_lane_words", "shuffleLane"), ("swap", "swap")]
W_READ = {"unsafe_read_le": "readLe", "unsafe_read_be": "readBe"}
W_WRITE = {"write_le": "writeLe", "write_be": "writeBe"}
OP_TRAIT = {"&": "bitand", "|": "bitor", "^": "bitxor", "+": "add"}
BV_BIN = {"&": "&&&", "|": "|||", "^": "^^^"}
SWAP_BYTES = {32: "bswap32 {0}", 64: "bswap64 {0}",
              128: "bswap64 (BitVec.extractLsb' 0 64 {0}) ++ bswap64 (BitVec.extractLsb' 64 64 {0})"}
READ_LE = {32: "read32le", 64: "read64le"}
TO_LE = {32: "toLe32", 64: "toLe64"}


def trusted_table_lines():
    return """\
    target_endian = "little"; references, `*x`, `unsafe { .. }`, `#[inline]`, `Copy` are transparent; calls of fns of the
      two files, closures and the item macros (`impl_bitops!`, `fwd_*!`) are inlined / expanded per invocation
    carriers: u32/u64/u128 ↦ BitVec 32/64/128; a struct / array is the concatenation of its fields / elements, the
      FIRST in the LOW bits (`repr(transparent)` / `repr(C)` on a little-endian host):
      u32x4_generic, u64x2_generic, u128x1_generic, vec128_storage ↦ BitVec 128 (`lane32 v i`, `lane64 v i`, `v`;
      `pack32`, `pack64`), vec256_storage ↦ BitVec 256 (`lo128`/`hi128`/`pack256`), vec512_storage ↦ BitVec 512
      (`q128 v i`/`pack512`), x4<W> ↦ BitVec 512 over a 128-bit W, x2<W,G> ↦ BitVec n2 split by the parameters
      `lo hi pack` (the hand-written model instantiates them with lo128/hi128/pack256 and lo256/hi256/pack512w)
    union vec128_storage { d, q }: writing one view and reading THE OTHER re-packs through the carrier, little-endian:
      `{d: [a,b,c,d]}.q[i]` ↦ lane64 (pack32 a b c d) i,  `{q: [a,b]}.d[i]` ↦ lane32 (pack64 a b) i
    an array PARAMETER `[T; n]` ↦ a Lean list `xs` (element k = List.getD xs k 0); an array RESULT ↦ a list literal
    the `i: u32` index parameter of `extract` / `insert` ↦ Nat (`as usize`, `/ k`, `% k` are the Nat operations)
    `a[i]` with a symbolic index ↦ `if i = 0 then a0 else if i = 1 then a1 … else a(n-1)`, `a[i] = v` ↦ element k
      becomes `if i = k then v else ak`; both under the guard `i < n` (the definition then returns `Out`, `.panic` outside)
    scalars: `!x` ↦ ~~~x; `& | ^` ↦ &&& ||| ^^^; `x << k`, `x >> k` (literal k below the width) ↦ <<< >>>;
      x.wrapping_add(y) ↦ x + y; x.rotate_right(k) / rotate_left(k) ↦ BitVec.rotateRight / rotateLeft x k;
      x.swap_bytes() ↦ bswap32 / bswap64 (u128: the two halves swapped and each byte-reversed); x.to_le() ↦ x;
      x.to_be() ↦ x.swap_bytes(); `x as u64` ↦ BitVec.setWidth 64 x; u128::from(x) ↦ BitVec.setWidth 128 x;
      an unsuffixed literal takes the width of the other operand
    element type W of x2 / x4 ↦ the record `W : VOps _ _`: a.bitand(b) / bitor / bitxor / andnot / add ↦ W.and / or / xor /
      andnot / add a b; a.op_assign(b) ↦ a := W.op a b; a.not() ↦ W.not a; a.bswap() ↦ W.bswap a;
      a.rotate_each_word_right<k>() ↦ W.rotr k a; a.swap<k>() ↦ W.swap k a; a.shuffle_lane_words<c>() ↦ W.shuffleLane c a;
      W::unsafe_read_le(s) / _be ↦ W.readLe s / W.readBe s; a.write_le(s) / _be ↦ the whole slice s := W.writeLe a / W.writeBe a;
      W::unpack(p), a.into() between W and its 128-bit storage ↦ the carrier itself; `type Output = Self`
    byte slices ↦ List (BitVec 8): s.len() ↦ s.length; s.split_at(k) ↦ (s.take k, s.drop k); with n = s.len() / c and
      0 ≤ a ≤ b ≤ c: &s[..b·n] ↦ s.take (n*b), &s[a·n..b·n] ↦ (s.drop (n*a)).take (n*(b-a)), &s[a·n..] ↦ s.drop (n*a)
      (in range because c·(len / c) ≤ len); a `&mut [u8]` parameter is threaded: the result is its final content, the
      concatenation of what was written to the pieces (an unwritten piece keeps its old bytes)
    zerocopy: T::read_from_bytes(s).unwrap() ↦ guard s.length = size_of T, element k = read32le / read64le (s.drop (k·size));
      x.write_to(s).unwrap() ↦ guard s.length = size_of T, s := toLe32 / toLe64 of the elements in order
    `unimplemented!()` / `panic!` / `unreachable!` / `todo!` ↦ the whole definition is `Out.panic`""".split("\n")


# =========================================================================== evaluator

def natp(base, k):
    return base if k == 1 else "(%s * %d)" % (base, k)


class Eval(object):
    def __init__(self, world):
        self.w = world

    # ------------------------------------------------------------------ helpers
    def lit_to(self, v, w):
        if v[0] == "lit":
            if v[1] >= (1 << w):
                raise TErr("literal %d does not fit %d bits" % (v[1], w))
            return ("bv", w, ("0x%x#%d" % (v[1], w)) if v[1] > 255 else "%d#%d" % (v[1], w))
        return v

    def as_nat(self, v):
        if v[0] == "lit":
            return ("nat", str(v[1]), None, v[1] + 1)
        if v[0] == "nat":
            return v
        raise TErr("index / length expected, got a %s" % v[0])

    def ite(self, c, a, b, S):
        if a == b:
            return a
        k = a[0]
        if k != b[0]:
            raise TErr("branches of different shape")
        if k == "bv":
            return ("bv", a[1], "if %s then %s else %s" % (c, a[2], b[2]))
        if k == "w":
            return ("w", "if %s then %s else %s" % (c, a[1], b[1]))
        if k == "arr" and len(a[1]) == len(b[1]):
            return ("arr", [self.ite(c, x, y, S) for x, y in zip(a[1], b[1])])
        if k == "adt" and a[1] == b[1]:
            return ("adt", a[1], a[2], dict((f, self.ite(c, a[3][f], b[3][f], S)) for f in a[3]))
        if k == "union":
            ca, wa = self.w.car(a, S)
            cb, wb = self.w.car(b, S)
            return ("union", a[1], None, "if %s then %s else %s" % (c, ca, cb))
        raise TErr("cannot merge values of kind %s" % k)

    def select(self, elems, idx, S):
        """a[idx] for a symbolic idx (guarded by the caller)"""
        out = elems[-1]
        for k in range(len(elems) - 2, -1, -1):
            out = self.ite("%s = %d" % (idx, k), elems[k], out, S)
        return out

    def index_guard(self, idx, n, S):
        if idx[3] is not None and idx[3] <= n:
            return
        S.guard("%s < %d" % (idx[1], n), "index out of bounds")

    def view(self, u, name, S):
        """read view `name` of a vec128_storage value"""
        kind, gens, fields = self.w.struct(u[1])
        ft = dict(fields).get(name)
        if ft is None:
            raise TErr("union %s has no view `%s`" % (u[1], name))
        if u[2] == name:
            return u[3]
        rt = self.w.rtype(ft, {})
        term, w = self.w.car(u, S)
        if w != self.w.width(rt, S):
            raise TErr("view %s of %s: size mismatch" % (name, u[1]))
        return self.w.fresh(rt, term, S)

    # ------------------------------------------------------------------ places
    def place(self, e, env, C):
        k = e[0]
        if k in ("paren",):
            return self.place(e[1], env, C)
        if k == "deref":
            return self.place(e[1], env, C)
        if k == "addr":
            return self.place(e[2], env, C)
        if k == "path" and len(e[1]) == 1:
            return e[1][0], []
        if k == "tfield":
            r, acc = self.place(e[1], env, C)
            return r, acc + [("f", str(e[2]))]
        if k == "field":
            r, acc = self.place(e[1], env, C)
            return r, acc + [("f", e[2])]
        if k == "index":
            r, acc = self.place(e[1], env, C)
            if e[2][0] == "range":
                return r, acc + [("r", e[2])]
            return r, acc + [("i", self.as_nat(self.ev(e[2], env, C, ("nat",))))]
        raise TErr("not a place expression: %s" % K.fmt_expr(e))

    def update(self, val, acc, new, env, C):
        S = C.S
        if not acc:
            return new
        a, rest = acc[0], acc[1:]
        if a[0] == "f":
            if val[0] == "adt":
                if a[1] not in val[3]:
                    raise TErr("no field %s" % a[1])
                f2 = dict(val[3])
                f2[a[1]] = self.update(val[3][a[1]], rest, new, env, C)
                return ("adt", val[1], val[2], f2)
            if val[0] == "tup":
                xs = list(val[1])
                xs[int(a[1])] = self.update(xs[int(a[1])], rest, new, env, C)
                return ("tup", xs)
            raise TErr("field store into a %s" % val[0])
        if a[0] == "i" and val[0] == "arr":
            idx, xs = a[1], list(val[1])
            if idx[1].isdigit():
                j = int(idx[1])
                if j >= len(xs):
                    raise TErr("constant index %d out of range" % j)
                xs[j] = self.update(xs[j], rest, new, env, C)
                return ("arr", xs)
            self.index_guard(idx, len(xs), S)
            tgt = self.update(self.select(xs, idx[1], S), rest, new, env, C) if rest else new
            return ("arr", [self.ite("%s = %d" % (idx[1], k), tgt, xs[k], S) for k in range(len(xs))])
        raise TErr("store through this place is not understood")

    def assign(self, lv, val, env, C):
        root, acc = self.place(lv, env, C)
        old = env.get(root)
        if old is None:
            raise TErr("assignment to unknown `%s`" % root)
        if old[0] in ("mslice",) or (acc and acc[-1][0] == "r"):
            raise TErr("direct store into a byte slice")
        env.set(root, self.update(old, acc, val, env, C))

    # ------------------------------------------------------------------ byte slices
    def bound_key(self, b):
        if b is None:
            return (0, 0)
        if b == "END":
            return (2, 0)
        return (1, b[2][1])

    def slice_bounds(self, rng, base_term, env, C):
        """range expr -> (lo, hi) with None = 0, "END" = len, else a nat value with a linear form k·(len/c), k ≤ c"""
        out = []
        for x, dflt in ((rng[1], None), (rng[2], "END")):
            if x is None:
                out.append(dflt)
                continue
            v = self.as_nat(self.ev(x, env, C, ("nat",)))
            if v[2] is None or len(v[2]) != 4 or v[2][0] != base_term or v[2][1] > v[2][2]:
                raise TErr("slice bound `%s` is not k·(len / c) with k ≤ c" % v[1])
            out.append(v)
        if rng[3]:
            raise TErr("inclusive range")
        if self.bound_key(out[0]) > self.bound_key(out[1]):
            raise TErr("slice bounds out of order")
        return out[0], out[1]

    def slice_term(self, term, lo, hi):
        t = term
        if lo is not None:
            t = ap("List.drop", natp(lo[2][3], lo[2][1]), t)
        if hi != "END":
            k = hi[2][1] - (lo[2][1] if lo is not None else 0)
            t = ap("List.take", natp(hi[2][3], k), t)
        return t

    def len_of(self, v):
        if v[0] == "bytes":
            t = v[1]
        elif v[0] == "mslice" and v[2] is None and v[3] == "END":
            t = v[1].term
        else:
            raise TErr("len() of this slice")
        return ("nat", ap("List.length", t), ("len", t), None)

    def write(self, ms, content):
        if ms[0] != "mslice":
            raise TErr("write into a value that is not a `&mut [u8]`")
        ms[1].writes.append((ms[2], ms[3], content))

    def buf_final(self, buf):
        ws = sorted(buf.writes, key=lambda w: self.bound_key(w[0]))
        parts, cur = [], None
        for lo, hi, c in ws:
            if self.bound_key(lo) < self.bound_key(cur):
                raise TErr("overlapping writes into a byte slice")
            if self.bound_key(lo) != self.bound_key(cur):
                parts.append(self.slice_term(buf.term, cur, lo))
            parts.append(c)
            cur = hi
        if cur != "END":
            parts.append(self.slice_term(buf.term, cur, "END") if cur is not None else buf.term)
        return " ++ ".join(par(p) for p in parts)

    # ------------------------------------------------------------------ expressions
    def ev(self, e, env, C, want=None):
        S, k = C.S, e[0]
        if k == "int":
            if e[2] is not None:
                if e[2] == "usize":
                    return ("nat", str(e[1]), None, e[1] + 1)
                return self.lit_to(("lit", e[1]), INTS[e[2]])
            if want is not None and want[0] == "int":
                return self.lit_to(("lit", e[1]), want[1])
            return ("lit", e[1])
        if k == "paren":
            return self.ev(e[1], env, C, want)
        if k in ("addr",):
            return self.ev(e[2], env, C, want)
        if k == "deref":
            return self.ev(e[1], env, C, want)
        if k == "path":
            if len(e[1]) == 1:
                v = env.get(e[1][0])
                if v is not None:
                    return v
                if e[1][0] == "PhantomData":
                    return UNIT
                rt = self.w.rtype(("path", e[1], []), C.tyenv)
                if rt[0] == "adt" and not self.w.struct(rt[1])[2]:
                    return ("adt", rt[1], rt[2], {})
            raise TErr("unknown name `%s`" % "::".join(e[1]))
        if k == "block":
            return self.block(e, Env(env), C, want)
        if k == "closure":
            return ("closure", e[1], e[2], env, C)
        if k == "tuple":
            ws = want[1] if want is not None and want[0] == "tuple" and len(want[1]) == len(e[1]) else [None] * len(e[1])
            return ("tup", [self.ev(x, env, C, w) for x, w in zip(e[1], ws)])
        if k == "array":
            w = want[1] if want is not None and want[0] == "arr" else None
            return ("arr", [self.ev(x, env, C, w) for x in e[1]])
        if k == "repeat":
            n = self.ev(e[2], env, C, None)
            if n[0] != "lit":
                raise TErr("array repeat count is not a literal")
            w = want[1] if want is not None and want[0] == "arr" else None
            return ("arr", [self.ev(e[1], env, C, w)] * n[1])
        if k == "un":
            v = self.ev(e[2], env, C, want)
            if e[1] != "!":
                raise TErr("unary `%s`" % e[1])
            if v[0] == "bv":
                return ("bv", v[1], "~~~" + par(v[2]))
            if v[0] in ("adt", "w"):
                return self.method(v, "not", [], [], env, C, want, None)
            raise TErr("`!` on a %s" % v[0])
        if k == "bin":
            return self.binop(e, env, C, want)
        if k == "cast":
            v = self.ev(e[1], env, C, None)
            rt = self.w.rtype(e[2], C.tyenv)
            if rt[0] == "nat":
                return self.as_nat(v)
            if rt[0] == "int":
                if v[0] == "lit":
                    return self.lit_to(v, rt[1])
                if v[0] == "bv":
                    return v if v[1] == rt[1] else ("bv", rt[1], ap("BitVec.setWidth", str(rt[1]), v[2]))
            raise TErr("cast of a %s to %s" % (v[0], ty_text(e[2])))
        if k == "field":
            v = self.ev(e[1], env, C, None)
            if v[0] == "union":
                return self.view(v, e[2], S)
            if v[0] == "adt" and e[2] in v[3]:
                return v[3][e[2]]
            raise TErr("field `%s` of a %s" % (e[2], v[0]))
        if k == "tfield":
            v = self.ev(e[1], env, C, None)
            if v[0] == "tup" and e[2] < len(v[1]):
                return v[1][e[2]]
            if v[0] == "adt" and str(e[2]) in v[3]:
                return v[3][str(e[2])]
            raise TErr("field .%d of a %s" % (e[2], v[0]))
        if k == "index":
            return self.index(e, env, C)
        if k == "structlit":
            rt = self.w.rtype(("path", e[1], []), C.tyenv)
            if rt[0] != "adt":
                raise TErr("struct literal of `%s`" % "::".join(e[1]))
            kind, gens, fields = self.w.struct(rt[1])
            te = dict(zip(gens, rt[2]))
            if kind == "union":
                if len(e[2]) != 1:
                    raise TErr("union literal with %d fields" % len(e[2]))
                f, x = e[2][0]
                ft = dict(fields).get(f)
                if ft is None:
                    raise TErr("union %s has no view `%s`" % (rt[1], f))
                frt = self.w.rtype(ft, te)
                v = self.ev(x, env, C, frt)
                if not self.w.compat(self.w.typeof(v, S), frt):
                    raise TErr("view %s of %s built from a value of another type" % (f, rt[1]))
                return ("union", rt[1], f, v)
            vals = {}
            for f, ft in fields:
                xs = [x for g, x in e[2] if g == f]
                if len(xs) != 1:
                    raise TErr("struct literal %s: field %s" % (rt[1], f))
                vals[f] = self.ev(xs[0], env, C, self.w.rtype(ft, te))
            return ("adt", rt[1], rt[2], vals)
        if k == "call":
            return self.call(e, env, C, want)
        if k == "mcall":
            recv = self.ev(e[1], env, C, None)
            return self.method(recv, e[2], e[3], None, env, C, want, e[1])
        if k == "macro":
            if e[1] in PANIC_MACROS:
                raise PanicBody(e[1])
            raise TErr("macro %s! in a body" % e[1])
        raise TErr("expression form `%s` is not understood" % k)

    def binop(self, e, env, C, want):
        S, op = C.S, e[1]
        a = self.ev(e[2], env, C, want if op not in ("==", "!=", "<<", ">>") else None)
        if op in ("<<", ">>"):
            b = self.ev(e[3], env, C, None)
            if a[0] == "lit" and want is not None and want[0] == "int":
                a = self.lit_to(a, want[1])
            if a[0] != "bv" or b[0] != "lit" or b[1] >= a[1]:
                raise TErr("shift `%s`: scalar by a literal below the width expected" % op)
            return ("bv", a[1], "%s %s %d" % (par(a[2]), "<<<" if op == "<<" else ">>>", b[1]))
        b = self.ev(e[3], env, C, self.w.typeof(a, S) if a[0] == "bv" else None if a[0] == "nat" else want if op not in ("==", "!=") else None)
        if a[0] == "lit" and b[0] == "bv":
            a = self.lit_to(a, b[1])
        if b[0] == "lit" and a[0] == "bv":
            b = self.lit_to(b, a[1])
        if a[0] == "lit" and b[0] == "lit":
            f = {"+": lambda x, y: x + y, "-": lambda x, y: x - y, "*": lambda x, y: x * y}.get(op)
            if f is None or f(a[1], b[1]) < 0:
                raise TErr("constant `%s`" % op)
            return ("lit", f(a[1], b[1]))
        if a[0] == "bv" and b[0] == "bv" and a[1] == b[1]:
            if op in BV_BIN:
                return ("bv", a[1], "%s %s %s" % (par(a[2]), BV_BIN[op], par(b[2])))
            if op == "==":
                return ("bool", "%s == %s" % (par(a[2]), par(b[2])))
            raise TErr("operator `%s` on scalars (use wrapping_* for arithmetic)" % op)
        if a[0] == "nat" or b[0] == "nat":
            a, b = self.as_nat(a), self.as_nat(b)
            lit = b[1].isdigit()
            if op == "/" and lit and int(b[1]) > 0:
                c = int(b[1])
                t = "%s / %d" % (par(a[1]), c)
                lin = (a[2][1], 1, c, "(%s)" % t) if a[2] is not None and a[2][0] == "len" else None
                return ("nat", t, lin, None if a[3] is None else (a[3] - 1) // c + 1)
            if op == "%" and lit and int(b[1]) > 0:
                return ("nat", "%s %% %s" % (par(a[1]), b[1]), None, int(b[1]))
            if op == "*" and lit and a[2] is not None and len(a[2]) == 4:
                kk = a[2][1] * int(b[1])
                return ("nat", natp(a[2][3], kk), (a[2][0], kk, a[2][2], a[2][3]), None)
            raise TErr("index arithmetic `%s` is not understood" % op)
        if a[0] in ("adt", "w") and op in OP_TRAIT:
            return self.method(a, OP_TRAIT[op], [b], [b], env, C, want, None, argvals=[b])
        if op == "==" and a[0] == "arr" and b[0] == "arr" and len(a[1]) == len(b[1]):
            cs = []
            for x, y in zip(a[1], b[1]):
                if x[0] != "bv" or y[0] != "bv":
                    raise TErr("`==` on arrays of non-scalars")
                cs.append("%s == %s" % (par(x[2]), par(y[2])))
            return ("bool", " && ".join(cs))
        raise TErr("operator `%s` on %s, %s" % (op, a[0], b[0]))

    def index(self, e, env, C):
        S = C.S
        base = self.ev(e[1], env, C, None)
        if e[2][0] == "range":
            if base[0] == "bytes":
                lo, hi = self.slice_bounds(e[2], base[1], env, C)
                return ("bytes", self.slice_term(base[1], lo, hi))
            if base[0] == "mslice" and base[2] is None and base[3] == "END":
                lo, hi = self.slice_bounds(e[2], base[1].term, env, C)
                return ("mslice", base[1], lo, hi)
            raise TErr("range index into a %s" % base[0])
        idx = self.as_nat(self.ev(e[2], env, C, ("nat",)))
        if base[0] != "arr":
            raise TErr("index into a %s" % base[0])
        if idx[1].isdigit():
            if int(idx[1]) >= len(base[1]):
                raise TErr("constant index %s out of range (the Rust would not compile / would panic)" % idx[1])
            return base[1][int(idx[1])]
        self.index_guard(idx, len(base[1]), S)
        return self.select(base[1], idx[1], S)

    # ------------------------------------------------------------------ statements
    def bind(self, pat, val, env):
        k = pat[0]
        if k == "pid":
            env.v[pat[1]] = val
        elif k == "ptuple":
            if val[0] != "tup" or len(val[1]) != len(pat[1]):
                raise TErr("tuple pattern against a %s" % val[0])
            for p, v in zip(pat[1], val[1]):
                self.bind(p, v, env)
        elif k == "parr":
            if val[0] != "arr" or len(val[1]) != len(pat[1]):
                raise TErr("array pattern of %d names against %s" % (len(pat[1]), "an array of %d" % len(val[1]) if val[0] == "arr" else "a " + val[0]))
            for p, v in zip(pat[1], val[1]):
                self.bind(p, v, env)
        else:
            raise TErr("pattern form %s" % k)

    def block(self, e, env, C, want=None):
        for st in e[1]:
            self.stmt(st, env, C)
        if e[2] is None:
            return UNIT
        if e[2][0] == "assign_tail":
            return UNIT
        return self.ev(e[2], env, C, want)

    def stmt(self, st, env, C):
        k = st[0]
        if k == "let":
            if st[3] is None:
                raise TErr("`let` without a value")
            want = self.w.rtype(st[2], C.tyenv) if st[2] is not None else None
            if want is None and st[1][0] == "parr":
                want = ("arr", ANY, len(st[1][1]))
            v = self.ev(st[3], env, C, want)
            if want is not None and v[0] == "lit" and want[0] == "int":
                v = self.lit_to(v, want[1])
            self.bind(st[1], v, env)
        elif k == "assign":
            if st[2] is None:
                v = self.ev(st[3], env, C, None)
            else:
                v = self.ev(("bin", st[2], st[1], st[3]), env, C, None)
            self.assign(st[1], v, env, C)
        elif k == "expr":
            v = self.ev(st[1], env, C, None)
            if v[0] == "res":
                raise TErr("a `Result` is dropped without `unwrap()`")
        else:
            raise TErr("statement form `%s` is not understood" % k)

    # ------------------------------------------------------------------ calls
    def apply_closure(self, c, args):
        _, params, body, cenv, cC = c
        if len(params) != len(args):
            raise TErr("closure of %d parameters applied to %d arguments" % (len(params), len(args)))
        env = Env(cenv)
        for p, a in zip(params, args):
            self.bind(p, a, env)
        return self.ev(body, env, cC, self.w.typeof(args[0], cC.S) if args and args[0][0] == "bv" else None)

    def construct(self, name, targs, args, C):
        kind, gens, fields = self.w.struct(name)
        if kind != "struct" or len(fields) != len(args) or any(not f.isdigit() for f, _ in fields):
            raise TErr("constructor %s(..) with %d arguments" % (name, len(args)))
        if not targs or any(t == ANY for t in targs):
            te, targs = {}, []
            for (f, ft), a in zip(fields, args):
                self.w.match_ty(ft, gens, self.w.typeof(a, C.S), te)
            targs = [te.get(g, ANY) for g in gens]
        te = dict(zip(gens, targs))
        for (f, ft), a in zip(fields, args):
            if a != UNIT and not self.w.match_ty(ft, gens, self.w.typeof(a, C.S), dict(te)):
                raise TErr("constructor %s: field %s gets a value of another type" % (name, f))
        return ("adt", name, targs, dict((f, a) for (f, _), a in zip(fields, args)))

    def call(self, e, env, C, want):
        S, segs = C.S, e[1]
        if len(segs) == 1:
            name = segs[0]
            v = env.get(name)
            if v is not None:
                if v[0] != "closure":
                    raise TErr("call of `%s`, which is not a closure" % name)
                return self.apply_closure(v, [self.ev(a, env, C, None) for a in e[2]])
            f = self.w.free_fn(name)
            if f is not None:
                return self.call_fn(f, {}, None, e[2], None, env, C, want)[0]
            rt = self.w.rtype(("path", segs, []), C.tyenv) if (name == "Self" or self.w.struct(name)) else None
            if rt is not None and rt[0] == "adt":
                kind, gens, fields = self.w.struct(rt[1])
                te = dict(zip(gens, rt[2]))
                args = [self.ev(a, env, C, self.w.rtype(ft, te) if rt[2] or not gens else None) for a, (f, ft) in zip(e[2], fields)]
                if len(args) != len(e[2]):
                    raise TErr("constructor %s(..): wrong number of arguments" % rt[1])
                return self.construct(rt[1], rt[2], args, C)
            raise TErr("call of unknown function `%s`" % name)
        if len(segs) != 2:
            raise TErr("call path `%s`" % "::".join(segs))
        tname, m = segs
        if tname in INTS and m == "from" and len(e[2]) == 1:
            v = self.ev(e[2][0], env, C, None)
            if v[0] != "bv" or v[1] > INTS[tname]:
                raise TErr("%s::from of a %s" % (tname, v[0]))
            return v if v[1] == INTS[tname] else ("bv", INTS[tname], ap("BitVec.setWidth", str(INTS[tname]), v[2]))
        rt = self.w.rtype(("path", [tname], []), C.tyenv) if (tname in C.tyenv or self.w.struct(tname) or self.w.alias(tname)) else None
        if rt is None:
            raise TErr("call of `%s::%s`: unknown type" % (tname, m))
        if rt == ("param", "W"):
            args = [self.ev(a, env, C, None) for a in e[2]]
            if m == "unpack" and len(args) == 1 and args[0][0] == "union":
                return ("w", self.w.car(args[0], S)[0])
            if m in W_READ and len(args) == 1 and args[0][0] == "bytes":
                return ("w", ap("W." + W_READ[m], args[0][1]))
            raise TErr("W::%s is not in the table of element operations" % m)
        if rt[0] != "adt":
            raise TErr("associated call on `%s`" % tname)
        if m == "read_from_bytes" and len(e[2]) == 1:
            return self.read_from_bytes(rt, self.ev(e[2][0], env, C, None), S)
        return self.static_call(rt, m, e[2], env, C, want)

    def candidates(self, rt, name):
        out = []
        for im in self.w.impls():
            bind = {}
            if self.w.match_ty(im.selfty, im.generics, rt, bind):
                for f in im.fns:
                    if f.name == name:
                        out.append((f, im, bind))
        return out

    def static_call(self, rt, m, argx, env, C, want):
        cands = [c for c in self.candidates(rt, m) if len(c[0].params) == len(argx)]
        if not cands:
            raise TErr("no fn `%s` for type %s with %d arguments" % (m, rt[1], len(argx)))
        args = None
        gens = self.w.struct(rt[1])[1]
        if len(rt[2]) != len(gens) and len(cands) == 1:
            # `x2::new(..)`: the type arguments come from the argument values
            f, im, bind = cands[0]
            args = [self.ev(a, env, C, None) for a in argx]
            for (pat, ty), a in zip(f.params, args):
                self.w.match_ty(ty, im.generics, self.w.typeof(a, C.S), bind)
            sb = {}
            rt = ("adt", rt[1], [ANY] * len(gens))
            if im.selfty[0] == "path":
                rt = ("adt", rt[1], [bind.get(a[1][0], ANY) if a[0] == "path" and len(a[1]) == 1 else ANY for a in im.selfty[2]])
        if len(cands) > 1:
            args = [self.ev(a, env, C, None) for a in argx]
            cands = self.filter(cands, args, want, C)
        f, im, bind = cands[0]
        return self.call_fn(f, self.impl_env(im, bind, rt), None, argx, args, env, C, want)[0]

    def impl_env(self, im, bind, rt):
        te = dict((g, bind.get(g, ("param", g))) for g in im.generics)
        te["Self"] = rt
        return te

    def filter(self, cands, args, want, C):
        keep = []
        for f, im, bind in cands:
            te = self.impl_env(im, bind, ANY)
            ok = True
            for (pat, ty), a in zip(f.params, args):
                try:
                    prt = self.w.rtype(ty, te)
                except TErr:
                    continue
                if not self.w.compat(prt, self.w.typeof(a, C.S)):
                    ok = False
            if ok and want is not None and f.ret is not None:
                try:
                    if not self.w.compat(self.w.rtype(f.ret, te), want):
                        ok = False
                except TErr:
                    pass
            if ok:
                keep.append((f, im, bind))
        if len(keep) != 1:
            raise TErr("method `%s`: %d candidate impls (%s)" % (cands[0][0].name, len(keep),
                                                              ", ".join(ty_text(c[1].selfty) for c in cands)))
        return keep

    def call_fn(self, f, tyenv, selfval, argx, argvals, env, C, want):
        """inline the call; returns (value, final self)"""
        S = C.S
        if f.err:
            raise TErr("fn %s: %s" % (f.name, f.err))
        S.depth += 1
        if S.depth > 40:
            raise TErr("call depth exceeded (recursion?) at fn %s" % f.name)
        te = dict(tyenv)
        fenv = Env()
        if argvals is None:
            argvals = []
            for (pat, ty), a in zip(f.params, argx):
                w = None
                try:
                    w = self.w.rtype(ty, te)
                    if (w[0] == "param" and w[1] in f.generics) or (w[0] == "int" and a[0] == "int" and a[2] is None):
                        w = None                 # an unsuffixed literal argument stays a literal (shift counts)
                except TErr:
                    pass
                argvals.append(self.ev(a, env, C, w))
        if len(argvals) != len(f.params):
            raise TErr("fn %s: %d arguments for %d parameters" % (f.name, len(argvals), len(f.params)))
        for (pat, ty), v in zip(f.params, argvals):
            if ty[0] == "path" and len(ty[1]) == 1 and ty[1][0] in f.generics:
                if v[0] != "closure":
                    te[ty[1][0]] = self.w.typeof(v, S)
            elif v[0] != "closure":
                prt = self.w.rtype(ty, te)
                if v[0] == "lit" and prt[0] == "int":
                    if v[1] >= (1 << prt[1]):
                        raise TErr("literal does not fit `%s`" % ty_text(ty))
                elif v[0] == "lit" and prt[0] == "nat":
                    v = self.as_nat(v)
                if v[0] != "lit" and not (v[0] == "nat" and prt == ("int", 32)) and not self.w.compat(prt, self.w.typeof(v, S)):
                    raise TErr("fn %s: argument of another type than `%s`" % (f.name, ty_text(ty)))
            self.bind(pat, v, fenv)
        if f.selfkind is not None:
            if selfval is None:
                raise TErr("fn %s needs a receiver" % f.name)
            fenv.v["self"] = selfval
        ret = None
        if f.ret is not None:
            try:
                ret = self.w.rtype(f.ret, te)
            except TErr:
                ret = None
        C2 = Ctx(te, S)
        val = self.block(f.body, fenv, C2, ret)
        if val[0] == "lit" and ret is not None and ret[0] == "int":
            val = self.lit_to(val, ret[1])
        S.depth -= 1
        return val, fenv.v.get("self"), fenv

    def into(self, v, want, C):
        S = C.S
        if want is None or want == ANY:
            raise TErr("`.into()` without a known target type")
        src = self.w.typeof(v, S)
        if src[0] == want[0] and self.w.compat(src, want) and src[0] != "param":
            return v
        if v[0] == "w" and want[0] == "adt" and self.w.struct(want[1])[0] == "union":
            return ("union", want[1], None, v[1])
        hits = []
        for im in self.w.impls():
            if im.trait is not None and im.trait[1][-1] == "From" and len(im.trait[2]) == 1:
                b = {}
                if self.w.match_ty(im.selfty, im.generics, want, b) and self.w.match_ty(im.trait[2][0], im.generics, src, b):
                    hits += [(f, im, b) for f in im.fns if f.name == "from"]
        if len(hits) != 1:
            raise TErr("`.into()`: %d `From` impls from %s to %s" % (len(hits), src, want))
        f, im, b = hits[0]
        return self.call_fn(f, self.impl_env(im, b, want), None, None, [v], None, C, want)[0]

    def read_from_bytes(self, rt, b, S):
        if b[0] != "bytes":
            raise TErr("read_from_bytes of a %s" % b[0])
        v = self.w.fresh(rt, "?", S)
        n = [0]

        def fill(x):
            if x[0] == "bv":
                if x[1] not in READ_LE:
                    raise TErr("read_from_bytes: element of %d bits" % x[1])
                off = n[0]
                n[0] += x[1] // 8
                return ("bv", x[1], ap(READ_LE[x[1]], b[1] if off == 0 else ap("List.drop", str(off), b[1])))
            if x[0] == "arr":
                return ("arr", [fill(y) for y in x[1]])
            if x[0] == "adt":
                return ("adt", x[1], x[2], dict((f, fill(y)) for f, y in x[3].items()))
            if x == UNIT:
                return x
            raise TErr("read_from_bytes into a %s" % x[0])
        v = fill(v)
        return ("res", v, "%s = %d" % (ap("List.length", b[1]), n[0]), "read_from_bytes: size mismatch")

    def write_to(self, v, ms, S):
        parts = []

        def walk(x):
            if x[0] == "bv":
                if x[1] not in TO_LE:
                    raise TErr("write_to: element of %d bits" % x[1])
                parts.append((ap(TO_LE[x[1]], x[2]), x[1] // 8))
            elif x[0] == "arr":
                for y in x[1]:
                    walk(y)
            elif x[0] == "adt":
                for y in x[3].values():
                    walk(y)
            elif x != UNIT:
                raise TErr("write_to of a %s" % x[0])
        walk(v)
        if ms[0] != "mslice" or ms[2] is not None or ms[3] != "END":
            raise TErr("write_to into something that is not a whole `&mut [u8]` parameter")
        self.write(ms, " ++ ".join(p[0] for p in parts))
        return ("res", UNIT, "%s = %d" % (ap("List.length", ms[1].term), sum(p[1] for p in parts)), "write_to: size mismatch")

    def method(self, recv, name, argx, _unused, env, C, want, recv_expr, argvals=None):
        S = C.S

        def args(wants=None):
            if argvals is not None:
                return argvals
            return [self.ev(a, env, C, (wants[i] if wants else None)) for i, a in enumerate(argx)]
        k = recv[0]
        if name == "into" and not argx:
            return self.into(recv, want, C)
        if name == "clone" and not argx:
            return recv
        if k == "res":
            if name == "unwrap" and not argx:
                S.guard(recv[2], recv[3])
                return recv[1]
            raise TErr("`.%s()` on a Result" % name)
        if k == "bv":
            a = args([("int", recv[1])] if name == "wrapping_add" else None)
            if name in ("rotate_right", "rotate_left") and len(a) == 1 and a[0][0] == "lit":
                return ("bv", recv[1], ap("BitVec.rotateRight" if name == "rotate_right" else "BitVec.rotateLeft", recv[2], str(a[0][1])))
            if name == "wrapping_add" and len(a) == 1 and a[0][0] == "bv" and a[0][1] == recv[1]:
                return ("bv", recv[1], "%s + %s" % (par(recv[2]), par(a[0][2])))
            if name == "to_le" and not a:
                return recv
            if name in ("swap_bytes", "to_be") and not a and recv[1] in SWAP_BYTES:
                return ("bv", recv[1], SWAP_BYTES[recv[1]].format(par(recv[2])))
            raise TErr("scalar method `%s` is not in the table" % name)
        if k == "w":
            a = args()
            if name in W_BIN and len(a) == 1 and a[0][0] == "w":
                return ("w", ap("W." + W_BIN[name], recv[1], a[0][1]))
            if name in W_UN and not a:
                return ("w", ap("W." + W_UN[name], recv[1]))
            for pre, fld in W_NUM:
                if name.startswith(pre) and name[len(pre):].isdigit() and not a:
                    return ("w", ap("W." + fld, name[len(pre):], recv[1]))
            if name in W_ASSIGN and len(a) == 1 and a[0][0] == "w" and recv_expr is not None:
                self.assign(recv_expr, ("w", ap("W." + W_ASSIGN[name], recv[1], a[0][1])), env, C)
                return UNIT
            if name in W_WRITE and len(a) == 1:
                self.write(a[0], ap("W." + W_WRITE[name], recv[1]))
                return UNIT
            raise TErr("method `%s` on the element type W is not in the table" % name)
        if k in ("bytes", "mslice"):
            a = args([("nat",)])
            if name == "len" and not a:
                return self.len_of(recv)
            if name in ("split_at", "split_at_mut") and len(a) == 1:
                kv = self.as_nat(a[0])
                base = recv[1] if k == "bytes" else recv[1].term
                if kv[2] is None or len(kv[2]) != 4 or kv[2][0] != base or kv[2][1] > kv[2][2]:
                    raise TErr("split point `%s` is not k·(len / c)" % kv[1])
                if k == "bytes" and name == "split_at":
                    return ("tup", [("bytes", self.slice_term(base, None, kv)), ("bytes", self.slice_term(base, kv, "END"))])
                if k == "mslice" and recv[2] is None and recv[3] == "END":
                    return ("tup", [("mslice", recv[1], None, kv), ("mslice", recv[1], kv, "END")])
            raise TErr("slice method `%s`" % name)
        if k in ("adt", "union"):
            if name == "write_to" and len(argx) == 1:
                return self.write_to(recv, args()[0], S)
            rt = self.w.typeof(recv, S)
            cands = [c for c in self.candidates(rt, name) if len(c[0].params) == len(argx) and c[0].selfkind is not None]
            if not cands:
                raise TErr("no method `%s` for %s" % (name, rt[1]))
            av = argvals
            if len(cands) > 1:
                av = args()
                cands = self.filter(cands, av, want, C)
            f, im, bind = cands[0]
            val, fself, _ = self.call_fn(f, self.impl_env(im, bind, rt), recv, argx, av, env, C, want)
            if f.selfkind == "mut":
                if recv_expr is None:
                    raise TErr("`&mut self` method %s on a temporary" % name)
                self.assign(recv_expr, fself, env, C)
            return val
        raise TErr("method `%s` on a %s" % (name, k))


# =========================================================================== one definition per fn

def san(ty):
    if ty[0] == "path":
        return ty[1][-1]
    if ty[0] == "array":
        return "arr_%s_%s" % (san(ty[1]), K.fmt_expr(ty[2]) if ty[2] is not None else "n")
    if ty[0] == "ref":
        return san(ty[2])
    raise TErr("no name for type %s" % ty_text(ty))


def def_name(im, f):
    s = san(im.selfty)
    if im.trait is not None and im.trait[1][-1] == "From" and len(im.trait[2]) == 1:
        return "%s_from_%s" % (s, san(im.trait[2][0]))
    return "%s_%s" % (s, f.name)


X2_HDR = "{n n2 m : Nat} (lo hi : BitVec n2 → BitVec n) (pack : BitVec n → BitVec n → BitVec n2) (W : VOps n m)"
X4_HDR = "{m : Nat} (W : VOps 128 m)"


class Translator(object):
    def __init__(self, repo):
        self.world = World(repo)
        self.ev = Eval(self.world)
        self.used_free = set()
        orig = self.world.free_fn

        def free_fn(name):
            f = orig(name)
            if f is not None:
                self.used_free.add(name)
            return f
        self.world.free_fn = free_fn

    def to_lean(self, v, S):
        w = self.world
        k = v[0]
        if k == "bv":
            return v[2], "BitVec %d" % v[1]
        if k == "nat":
            return v[1], "Nat"
        if k == "bool":
            return v[1], "Bool"
        if k == "bytes":
            return v[1], "List (BitVec 8)"
        if k == "unit":
            return "()", "Unit"
        if k in ("adt", "union", "w"):
            t, wd = w.car(v, S)
            return (t, "BitVec %s" % wd) if wd != 0 else ("()", "Unit")
        if k == "arr":
            xs = [self.to_lean(x, S) for x in v[1]]
            if len(set(x[1] for x in xs)) != 1:
                raise TErr("array result with elements of different types")
            return "[%s]" % ", ".join(x[0] for x in xs), "List (%s)" % xs[0][1]
        if k == "tup":
            xs = [self.to_lean(x, S) for x in v[1]]
            return "(%s)" % ", ".join(x[0] for x in xs), " × ".join(par(x[1]) for x in xs)
        if k == "lit":
            raise TErr("result is an untyped literal")
        raise TErr("a %s cannot be a result" % k)

    def translate(self, f, im):
        """-> (header params text, result type, body term)"""
        w, E = self.world, self.ev
        if f.err:
            raise TErr(f.err)
        if f.generics:
            raise TErr("generic method")
        hdr_txt = ty_text(im.selfty) + " " + (ty_text(im.trait) if im.trait else "")
        kind = None
        if "W" in im.generics:
            kind = "x2" if "x2<" in hdr_txt else "x4" if "x4<" in hdr_txt else None
            if kind is None:
                raise TErr("impl generic in W that is neither about x2 nor x4")
        S = State(kind)
        te = dict((g, ("param", g)) for g in im.generics)
        te["Self"] = w.rtype(im.selfty, te)
        env = Env()
        lean_params, bufs = [], []
        if f.selfkind is not None:
            env.v["self"] = w.fresh(te["Self"], "self", S)
            lean_params.append(("self", w.lean_ty(te["Self"], S)))
        for k, (pat, ty) in enumerate(f.params):
            rt = w.rtype(ty, te)
            nm = "a%d" % (k + 1)
            if f.name in ("extract", "insert") and rt == ("int", 32) and k == len(f.params) - 1:
                v, lt = ("nat", nm, None, None), "Nat"
            elif rt[0] == "arr":
                v, lt = w.fresh_list(rt, nm, S), w.lean_ty(rt, S)
            else:
                v, lt = w.fresh(rt, nm, S), w.lean_ty(rt, S)
            if v[0] == "mslice":
                bufs.append(v[1])
            E.bind(pat, v, env)
            lean_params.append((nm, lt))
        ret = w.rtype(f.ret, te) if f.ret is not None else UNIT
        C = Ctx(te, S)
        hdr = {"x2": X2_HDR + " ", "x4": X4_HDR + " ", None: ""}[kind] + " ".join("(%s : %s)" % p for p in lean_params)
        try:
            val = E.block(f.body, env, C, ret)
        except PanicBody as pb:
            return hdr, "Out (%s)" % w.lean_ty(ret, S), 'Out.panic "%s!"' % pb.args[0]
        if val[0] == "lit" and ret[0] == "int":
            val = E.lit_to(val, ret[1])
        if val[0] == "res":
            raise TErr("a `Result` is returned")
        results = []
        if ret != UNIT:
            if val == UNIT:
                raise TErr("no value for the declared return type")
            results.append(val)
        if f.selfkind == "mut":
            results.append(env.v["self"])
        for b in bufs:
            results.append(("bytes", E.buf_final(b)))
        if not results:
            results.append(UNIT)
        term, lty = self.to_lean(results[0] if len(results) == 1 else ("tup", results), S)
        if S.guards:
            cond = " ∧ ".join(g[0] for g in S.guards)
            msgs = []
            for g in S.guards:
                if g[1] not in msgs:
                    msgs.append(g[1])
            term = 'if %s then Out.ok %s else Out.panic "%s"' % (cond, par(term), "; ".join(msgs))
            lty = "Out (%s)" % lty
        return hdr, lty, term


def _lean_str(s):
    return '"' + s.replace("\\", "\\\\").replace('"', '\\"') + '"'


def simdport_inventory(repo="/repo"):
    """-> dict(defs=[(name, doc, text | None, err | None)], tables={name: [(a, [b..])]}, errors=[..])"""
    errors, defs, tables = [], [], {}
    try:
        T = Translator(repo)
    except TErr as ex:
        return dict(defs=[], tables={}, errors=["source not understood: %s" % ex])
    seen = {}
    for file in T.world.files:
        impls, decls = [], sorted(file.decls)
        for im in file.impls:
            head = ("%s for %s" % (ty_text(im.trait), ty_text(im.selfty))) if im.trait else ty_text(im.selfty)
            if im.generics:
                head = "<%s> %s" % (", ".join(im.generics), head)
            impls.append((head, sorted(im.assoc) + sorted("fn " + f.name for f in im.fns)))
            for f in im.fns:
                try:
                    name = def_name(im, f)
                except TErr as ex:
                    errors.append("%s: %s" % (file.rel, ex))
                    continue
                doc = "%s: impl %s :: fn %s" % (file.rel.split("/")[-1], head, f.name)
                if name in seen:
                    errors.append("two definitions would be called %s (%s; %s)" % (name, seen[name], doc))
                    continue
                seen[name] = doc
                try:
                    hdr, lty, term = T.translate(f, im)
                    defs.append((name, doc, "def %s %s : %s :=\n  %s" % (name, hdr, lty, term), None))
                except TErr as ex:
                    msg = "%s: %s" % (name, ex)
                    errors.append(msg)
                    defs.append((name, doc, None, msg))
        tables[file.tag + "_impls"] = sorted(impls)
        tables[file.tag + "_decls"] = [(a, [b]) for a, b in decls]
        tables[file.tag + "_free_fns"] = [(f.name, ["generic" if f.generics else "plain"]) for f in sorted(file.fns, key=lambda g: g.name)]
        for f in file.fns:
            if f.name not in T.used_free:
                errors.append("%s: free fn %s is used by no translated definition (it would not be tied)" % (file.rel, f.name))
    defs.sort(key=lambda d: d[0])
    return dict(defs=defs, tables=tables, errors=errors)


def render_lean(inv):
    L = ["/-",
         "  GENERATED by tools/inventory_simdport.py — do not edit.  Regenerated on every run (tools/regen) from",
         "  utils-simd/ppv-lite86/src/generic.rs and src/soft.rs of the repository under verification: every fn with a body",
         "  (item macros expanded per invocation), evaluated symbolically — helper fns and closures inlined — and printed as a",
         "  pure expression over the lanes of its parameters (`self`, then `a1`, `a2`, … in parameter order), sorted by name;",
         "  plus the inventories of impl blocks, type declarations and free fns.  No line numbers; comments, strings,",
         "  `#[cfg(test)]` items ignored.  A definition that could not be translated is a `String` with the reason and is",
         "  listed in `simdport_errors`.",
         "",
         "  Obligations: lean/CC/Simd/SrcPort.lean (`CC.Src.src_port_*`), collected as `CC.Thm.C12.source_portable_match`",
         "  (word-wise operations) and `CC.Thm.C13.source_portable_match` (data movement).",
         "",
         "  TRUSTED reading of the Rust (the translator's tables):"]
    L += trusted_table_lines()
    L += ["-/", "import CC.Simd.VOps", "set_option linter.unusedVariables false", "namespace CC.Gen.SimdPortSrc", "open CC CC.Simd", ""]
    for name, doc, text, err in inv["defs"]:
        L.append("/-- %s -/" % doc)
        if text is None:
            L.append("def %s : String := %s" % (name, _lean_str(err)))
        else:
            L.append(text)
        L.append("")
    for tname in sorted(inv["tables"]):
        L.append("def %s : List (String × List String) := [" % tname)
        rows = inv["tables"][tname]
        for i, (a, bs) in enumerate(rows):
            L.append("  (%s, [%s])%s" % (_lean_str(a), ", ".join(_lean_str(b) for b in bs), "," if i + 1 < len(rows) else ""))
        L.append("]")
        L.append("")
    L.append("def simdport_errors : List String := [")
    for i, e in enumerate(inv["errors"]):
        L.append("  %s%s" % (_lean_str(e), "," if i + 1 < len(inv["errors"]) else ""))
    L.append("]")
    L += ["", "end CC.Gen.SimdPortSrc", ""]
    return "\n".join(L)


def simdport_regenerate(repo="/repo", out=None):
    text = render_lean(simdport_inventory(repo))
    out = out or DEFAULT_OUT
    old = open(out, encoding="utf-8").read() if os.path.exists(out) else None
    if old != text:
        os.makedirs(os.path.dirname(out), exist_ok=True)
        open(out, "w", encoding="utf-8").write(text)
    return text


def main(argv):
    repo, out, pr = "/repo", None, False
    i = 0
    while i < len(argv):
        if argv[i] == "--repo":
            repo, i = argv[i + 1], i + 2
        elif argv[i] == "--out":
            out, i = argv[i + 1], i + 2
        elif argv[i] == "--print":
            pr, i = True, i + 1
        else:
            raise SystemExit("usage: inventory_simdport.py [--repo DIR] [--out FILE | --print]")
    if pr:
        sys.stdout.write(render_lean(simdport_inventory(repo)))
    else:
        simdport_regenerate(repo, out)
        inv = simdport_inventory(repo)
        print("%d definitions, %d errors" % (len(inv["defs"]), len(inv["errors"])))
        for e in inv["errors"]:
            print("  ERROR " + e)


if __name__ == "__main__":
    main(sys.argv[1:])
