"""Operation generators, one per property.  Each returns (ops, stats) where ops is a list of
protocol lines and stats a dict describing the distribution actually generated."""
from cclib import XorShift

VARIANTS = ["chacha8", "chacha12", "chacha20", "ietf", "xchacha8", "xchacha12", "xchacha20"]
NONCE = {"chacha8": 8, "chacha12": 8, "chacha20": 8, "ietf": 12, "xchacha8": 24, "xchacha12": 24, "xchacha20": 24}
SEEKTYS = {"u8": (0, 2**8 - 1), "u16": (0, 2**16 - 1), "u32": (0, 2**32 - 1), "u64": (0, 2**64 - 1),
           "u128": (0, 2**128 - 1), "usize": (0, 2**64 - 1), "i32": (-2**31, 2**31 - 1)}
LENS = [0, 1, 2, 31, 63, 64, 65, 127, 128, 129, 191, 192, 193, 255, 256, 257, 300, 319, 320, 321,
        511, 512, 513, 575, 576, 577, 1023, 1024, 1100]


def limit(v):
    return 2**38 if v == "ietf" else 2**70


def struct_bytes(rng, n):
    """structured byte strings: random, zero, ones, single bit, counting"""
    k = rng.below(10)
    if k < 5:
        return rng.bytes(n)
    if k == 5:
        return bytes(n)
    if k == 6:
        return b"\xff" * n
    if k == 7:
        b = bytearray(n)
        if n:
            bit = rng.below(8 * n)
            b[bit // 8] = 1 << (bit % 8)
        return bytes(b)
    if k == 8:
        return bytes((i * 7 + 3) & 0xff for i in range(n))
    b = bytearray(rng.bytes(n))
    # a word of all ones (carry patterns)
    if n >= 4:
        w = rng.below(n // 4)
        b[4 * w:4 * w + 4] = b"\xff\xff\xff\xff"
    return bytes(b)


def hx(b):
    return b.hex() if len(b) else "-"


def positions(rng, v, tier):
    lim = limit(v)
    base = [0, 1, 5, 63, 64, 65, 127, 128, 255, 256, 257, 1000]
    out = list(base)
    # low counter word carry: block counter around 2^32
    for r in (-257, -256, -200, -65, -64, -1, 0, 1, 63, 64, 65, 130):
        p = 2**32 * 64 + r
        if p < lim:
            out.append(p)
    if v == "ietf":
        for r in (1, 2, 63, 64, 65, 128, 255, 256, 257, 300, 513, 1100, 1101):
            out.append(2**38 - r)
        out.append(2**38)
        out.append(2**37 + 17)
    else:
        for r in (1, 2, 63, 64, 65, 256, 257, 1100, 1101, 70000):
            out.append(2**64 - r)
        out.append(2**63 + 11)
        out.append((2**32 - 3) * 64 + 7)   # wide path crosses the 2^32 block boundary
    n = 6 if tier == "quick" else 40
    for _ in range(n):
        out.append(rng.below(min(lim, 2**64)))
    return out


def backends_for(cfg, tier):
    if cfg.startswith("nosimd"):
        return ["generic"]
    if tier == "quick":
        return ["ref", "sse2"]
    return ["ref", "sse2", "ssse3", "sse41", "avx", "avx2"]


def gen_C01(rng, tier, cfg):
    backends = backends_for(cfg, tier)
    ops = []
    stats = {"variants": {}, "positions": 0, "lengths": {}, "backends": list(backends)}
    nk = 2 if tier == "quick" else 8
    slot = 0
    for be in backends:
        ops.append("cfg backend %s" % be)
        for v in VARIANTS:
            for _ in range(nk):
                key = struct_bytes(rng, 32)
                nonce = struct_bytes(rng, NONCE[v])
                ops.append("chacha new %d %s %s %s" % (slot, v, hx(key), hx(nonce)))
                ps = positions(rng, v, tier)
                if tier == "quick":
                    ps = [rng.choice(ps) for _ in range(10)] + ps[:4]
                for p in ps:
                    ln = rng.choice(LENS)
                    if p + ln > limit(v):
                        ln = max(0, limit(v) - p)
                    if p > 2**64 - 1:
                        continue
                    ops.append("chacha seek %d u64 %d" % (slot, p))
                    if rng.below(4) == 0 and ln <= 128:
                        ops.append("chacha apply %d %s" % (slot, hx(struct_bytes(rng, ln))))
                    else:
                        ops.append("chacha applypat %d %d %d" % (slot, ln, rng.below(1000)))
                    stats["positions"] += 1
                    stats["lengths"][ln] = stats["lengths"].get(ln, 0) + 1
                    stats["variants"][v] = stats["variants"].get(v, 0) + 1
    return ops, stats


GENS = {"C01": gen_C01}
