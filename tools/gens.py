"""Operation generators, one per property.  Each returns (ops, stats) where ops is a list of
protocol lines and stats a dict describing the distribution actually generated."""
from cclib import XorShift

VARIANTS = ["chacha8", "chacha12", "chacha20", "ietf", "xchacha8", "xchacha12", "xchacha20"]
NONCE = {"chacha8": 8, "chacha12": 8, "chacha20": 8, "ietf": 12, "xchacha8": 24, "xchacha12": 24, "xchacha20": 24}
SEEKTYS = {"u8": (0, 2**8 - 1), "u16": (0, 2**16 - 1), "u32": (0, 2**32 - 1), "u64": (0, 2**64 - 1),
           "u128": (0, 2**128 - 1), "usize": (0, 2**64 - 1), "i32": (-2**31, 2**31 - 1)}
LENS = [0, 1, 2, 31, 63, 64, 65, 127, 128, 129, 191, 192, 193, 255, 256, 257, 300, 319, 320, 321,
        511, 512, 513, 575, 576, 577, 1023, 1024, 1100]


def limit(v):
    return 2**38 if v == "ietf" else 2**70


def struct_bytes(rng, n):
    """structured byte strings: random, zero, ones, single bit, counting"""
    k = rng.below(10)
    if k < 5:
        return rng.bytes(n)
    if k == 5:
        return bytes(n)
    if k == 6:
        return b"\xff" * n
    if k == 7:
        b = bytearray(n)
        if n:
            bit = rng.below(8 * n)
            b[bit // 8] = 1 << (bit % 8)
        return bytes(b)
    if k == 8:
        return bytes((i * 7 + 3) & 0xff for i in range(n))
    b = bytearray(rng.bytes(n))
    # a word of all ones (carry patterns)
    if n >= 4:
        w = rng.below(n // 4)
        b[4 * w:4 * w + 4] = b"\xff\xff\xff\xff"
    return bytes(b)


def hx(b):
    return b.hex() if len(b) else "-"


def positions(rng, v, tier):
    lim = limit(v)
    base = [0, 1, 5, 63, 64, 65, 127, 128, 255, 256, 257, 1000]
    out = list(base)
    # low counter word carry: block counter around 2^32
    for r in (-257, -256, -200, -65, -64, -1, 0, 1, 63, 64, 65, 130):
        p = 2**32 * 64 + r
        if p < lim:
            out.append(p)
    if v == "ietf":
        for r in (1, 2, 63, 64, 65, 128, 255, 256, 257, 300, 513, 1100, 1101):
            out.append(2**38 - r)
        out.append(2**38)
        out.append(2**37 + 17)
    else:
        for r in (1, 2, 63, 64, 65, 256, 257, 1100, 1101, 70000):
            out.append(2**64 - r)
        out.append(2**63 + 11)
        out.append((2**32 - 3) * 64 + 7)   # wide path crosses the 2^32 block boundary
    n = 6 if tier == "quick" else 40
    for _ in range(n):
        out.append(rng.below(min(lim, 2**64)))
    return out


def backends_for(cfg, tier):
    if cfg.startswith("nosimd"):
        return ["generic"]
    if cfg.startswith("nostd-"):
        # no-std build: the dispatch macros select at compile time (`cfg!(target_feature)`), the
        # harness accepts `cfg backend` only for that backend, the model runs the same backend model
        return [cfg.split("-")[1]]
    if tier == "quick":
        return ["ref", "sse2"]
    return ["ref", "sse2", "ssse3", "sse41", "avx", "avx2"]


def boundary_feed_ops(fam, newarg, b, rng, slot=0):
    """feeding patterns around the block buffer's states (empty / partial / exactly full), including
    ZERO-LENGTH updates in each of them and updates that fill the buffer exactly or run one byte over:
    every sequence is followed by `fin`, so the model's digest of the concatenation is the reference"""
    k = 1 + rng.below(b - 1)
    seqs = [[b, 0], [b - 1, 1, 0, 0], [0, 2 * b, 0], [k, b], [k, b - k], [k, b - k, 0], [k, 2 * b - k + 1],
            [k, 0, b - k, 0, 1], [b, 0, 1], [3 * b, 0]]
    ops = []
    for sq in seqs:
        ops.append("%s new %d %s" % (fam, slot, newarg))
        for n in sq:
            if n == 0:
                ops.append("%s update %d -" % (fam, slot))
            else:
                ops.append("%s updpat %d %d %d" % (fam, slot, n, rng.below(1000)))
        ops.append("%s fin %d" % (fam, slot))
    return ops


def correlated_row_diffs(rng):
    """XOR differences of a 128-bit row (16 bytes, little-endian words) whose parts are CORRELATED: a comparison
    that folds per-part differences with xor / add / and instead of or, or compares a sum, a product or a hash of
    the parts, is wrong only on such pairs.  Halves (d0, d1) with d1 = d0, ~d0, -d0, rot32(d0); 32-bit words with
    the same mask in every pair of positions, in all four, and with w_j = -w_i."""
    M64 = 2**64 - 1
    out = []
    for d0 in (1, 2**63, 2**32, 0xffffffff, 0x8000000080000000, rng.below(2**64) | 1):
        for d1 in (d0, d0 ^ M64, (-d0) & M64, ((d0 << 32) | (d0 >> 32)) & M64):
            out.append(d0.to_bytes(8, "little") + d1.to_bytes(8, "little"))
    for m in (1, 0x80000000, 0xffffffff, rng.below(2**32) | 1):
        for i in range(4):
            for j in range(i + 1, 4):
                w = [0, 0, 0, 0]
                w[i], w[j] = m, m
                out.append(b"".join(x.to_bytes(4, "little") for x in w))
                w[j] = (-m) & 0xffffffff
                out.append(b"".join(x.to_bytes(4, "little") for x in w))
        out.append(m.to_bytes(4, "little") * 4)
    return out


def rot(seq, cfg):
    """the variants of a family in an order that depends on the configuration: each configuration is one
    process, so different configurations make a DIFFERENT variant the first one used in its process
    (anything resolved once per process by the first caller shows only for some orders)"""
    seq = list(seq)
    k = sum(map(ord, cfg)) % len(seq)
    return seq[k:] + seq[:k]



def gen_C01(rng, tier, cfg):
    backends = backends_for(cfg, tier)
    ops = []
    stats = {"variants": {}, "positions": 0, "lengths": {}, "backends": list(backends)}
    nk = 2 if tier == "quick" else 8
    slot = 0
    for be in backends:
        ops.append("cfg backend %s" % be)
        for v in rot(VARIANTS, cfg):
            for _ in range(nk):
                key = struct_bytes(rng, 32)
                nonce = struct_bytes(rng, NONCE[v])
                ops.append("chacha new %d %s %s %s" % (slot, v, hx(key), hx(nonce)))
                ps = positions(rng, v, tier)
                if tier == "quick":
                    ps = [rng.choice(ps) for _ in range(10)] + ps[:4]
                for p in ps:
                    ln = rng.choice(LENS)
                    if p + ln > limit(v):
                        ln = max(0, limit(v) - p)
                    if p > 2**64 - 1:
                        continue
                    ops.append("chacha seek %d u64 %d" % (slot, p))
                    if rng.below(4) == 0 and ln <= 128:
                        ops.append("chacha apply %d %s" % (slot, hx(struct_bytes(rng, ln))))
                    else:
                        ops.append("chacha applypat %d %d %d" % (slot, ln, rng.below(1000)))
                    stats["positions"] += 1
                    stats["lengths"][ln] = stats["lengths"].get(ln, 0) + 1
                    stats["variants"][v] = stats["variants"].get(v, 0) + 1
            # one long request per variant (more than 2^16 bytes, ~1100 blocks): length arithmetic in
            # narrower integer types would show here
            ops.append("chacha seek %d u64 %d" % (slot, rng.choice([0, 37, 64, 2**32 * 64 - 40000])))
            ops.append("chacha applypat %d %d %d" % (slot, rng.choice([65536, 70001, 65600 + 255]), rng.below(1000)))
            stats["long_requests"] = stats.get("long_requests", 0) + 1
            # the keystream after a REFUSED request: seek into the last block, ask for more than is left
            # (error, data untouched), then read elsewhere — the bytes must still be the spec's bytes for
            # this key and nonce (error-path state is part of "every position")
            lim = limit(v)
            k = 1 + rng.below(63)
            ops.append(seek_op(rng, slot, lim - k))
            ops.append("chacha applypat %d %d %d" % (slot, k + 1 + rng.below(300), rng.below(1000)))
            ops.append(seek_op(rng, slot, rng.choice([0, 64, 100, rng.below(2**20)])))
            ops.append("chacha applypat %d %d %d" % (slot, rng.choice([64, 100, 300]), rng.below(1000)))
            ops.append(seek_op(rng, slot, lim - k))
            ops.append("chacha applypat %d %d %d" % (slot, k, rng.below(1000)))
            stats["after_refused_request"] = stats.get("after_refused_request", 0) + 1
    # positions that alias each other under narrowing, visited one after the other on one instance (see alias_seek_block)
    for v in VARIANTS:
        ops += alias_seek_block(rng, v, stats)
    return ops, stats


GENS = {"C01": gen_C01}


# ----------------------------------------------------------------------------- C02 / C11

def seek_op(rng, slot, p, tyhint=None):
    """seek to p with a SeekNum type that can hold it (or the hinted one)."""
    tys = [t for t, (lo, hi) in SEEKTYS.items() if lo <= p <= hi]
    t = tyhint if tyhint in tys else rng.choice(tys)
    return "chacha seek %d %s %d" % (slot, t, p)


def history(rng, v, slot, n, near=None, stats=None):
    """random walk over {seek, apply, failed apply, pos, clone} for variant v."""
    ops = []
    lim = limit(v)
    pos = 0
    for _ in range(n):
        k = rng.below(23)
        if k >= 20:
            # seek RELATIVE to the position just reached (back into the block or batch that was just
            # produced, to its start, to the next boundary), or to a SPECIAL absolute position (0, the end of
            # the keystream and the blocks next to it, block 2^32) — from whatever state the buffer is in, and
            # sometimes twice with no read in between: a seek that tries to keep buffered bytes shows here
            special = [0, lim, lim - 1, lim - 63, lim - 64, lim - 65, lim - 256, 64 * 2**32, 64 * 2**32 - 64, 64 * 2**32 + 64]
            rel = [pos - 1, pos - (pos % 64), pos - (pos % 64) - 1, pos - 56, pos - 63, pos - 64, pos - 65, pos - 200, pos - 255,
                   pos - 256, pos + (64 - pos % 64) % 64, pos + 1, pos + 64, pos]
            for _ in range(1 + rng.below(2)):
                p = rng.choice(special if rng.below(3) == 0 else rel)
                p = max(0, min(p, min(lim, 2**64 - 1)))
                ops.append(seek_op(rng, slot, p))
                pos = p
            if stats is not None:
                stats["relative_or_special_seek"] = stats.get("relative_or_special_seek", 0) + 1
        elif k < 5:
            # seek
            c = rng.below(8)
            if near is not None and c < 5:
                p = near + rng.below(700) - 400
            elif c < 3:
                p = rng.choice([0, 1, 5, 63, 64, 65, 100, 255, 256, 257, 300])
            elif c < 6:
                p = rng.below(2**20)
            else:
                p = rng.below(min(lim, 2**64))
            p = max(0, min(p, min(lim, 2**64 - 1)))
            ops.append(seek_op(rng, slot, p))
            pos = p
            if stats is not None:
                stats["seek"] = stats.get("seek", 0) + 1
                stats["midblock_seek"] = stats.get("midblock_seek", 0) + (1 if p % 64 else 0)
        elif k < 15:
            ln = rng.choice(LENS + [3, 7, 17, 40, 60, 61, 62, 66, 100, 130, 260, 700])
            ops.append("chacha applypat %d %d %d" % (slot, ln, rng.below(1000)))
            if pos + ln <= lim:
                pos += ln
                if stats is not None:
                    stats["apply_ok"] = stats.get("apply_ok", 0) + 1
            elif stats is not None:
                stats["apply_past_end"] = stats.get("apply_past_end", 0) + 1
        elif k < 18:
            t = rng.choice(list(SEEKTYS))
            ops.append("chacha pos %d %s" % (slot, t))
            if stats is not None:
                stats["pos"] = stats.get("pos", 0) + 1
        elif k == 18:
            ops.append("chacha clone %d %d" % (slot, slot + 1))
            ops.append("chacha applypat %d %d %d" % (slot + 1, rng.choice([1, 64, 65, 300]), 7))
            ops.append("chacha pos %d u128" % (slot + 1))
        else:
            # out-of-range / odd seeks
            t = rng.choice(list(SEEKTYS))
            lo, hi = SEEKTYS[t]
            val = rng.choice([lo, hi, hi - 1, max(lo, min(hi, lim)), max(lo, min(hi, lim + 1)), max(lo, min(hi, lim - 1)),
                              max(lo, min(hi, 2**64)), max(lo, min(hi, 2**64 - 1)), max(lo, -1)])
            ops.append("chacha seek %d %s %d" % (slot, t, val))
            ops.append("chacha pos %d u128" % slot)
            if stats is not None:
                stats["odd_seek"] = stats.get("odd_seek", 0) + 1
            # resynchronise our notion of pos
            ops.append(seek_op(rng, slot, min(pos, 2**64 - 1), "u64"))
    return ops


def cast_seek_block(rng, v, stats, every=1):
    """seeks to the positions at which a cast to a narrower / signed integer type changes character (rule 20), each
    through every SeekNum type that can hold it, followed by the reported position and a short read"""
    ops = ["chacha new 0 %s %s %s" % (v, hx(struct_bytes(rng, 32)), hx(struct_bytes(rng, NONCE[v])))]
    for n, p in enumerate(cast_boundaries(rng, 128)):
        if n % every:
            continue
        tys = [t for t, (lo, hi) in SEEKTYS.items() if lo <= p <= hi]
        for t in (tys if p < 2**16 or n % 7 == 0 else [tys[n % len(tys)]]):
            ops.append("chacha seek 0 %s %d" % (t, p))
            ops.append("chacha pos 0 %s" % rng.choice(["u128", "u64", t]))
            ops.append("chacha applypat 0 %d 4" % rng.choice([1, 3, 64, 65]))
            stats["cast_boundary_seeks"] = stats.get("cast_boundary_seeks", 0) + 1
    for p in (-1, -2**31, -64, -2**31 + 1):
        ops.append("chacha seek 0 i32 %d" % p)
        ops.append("chacha pos 0 u128")
        ops.append("chacha applypat 0 5 4")
    return ops


def alias_seek_block(rng, v, stats):
    """seeks between positions that ALIAS each other under narrowing (rule 20 applied to a PAIR of positions): after a
    partly consumed block (or wide batch) at position q, seek to q' = q +- A + d with A = 2^32, 2^38 (= 2^32 blocks),
    2^44, 3*2^38 and d a few bytes ahead / behind within the block, in both directions, then read.  A "same block, keep
    the buffer" shortcut that compares a truncated block index is right for every other pair of positions."""
    lim = limit(v)
    cap = min(lim, 2**64 - 1)
    ops = ["chacha new 0 %s %s %s" % (v, hx(struct_bytes(rng, 32)), hx(struct_bytes(rng, NONCE[v])))]
    for A in (2**32, 2**38, 2**44, 3 * 2**38):
        for base, n in ((0, 10), (64 * 5 + 3, 40), (256 * 7, 70), (64 * 9 + 50, 300)):
            for lowfirst in (False, True):
                for d in (0, 10, -5, 64):
                    q = base + (0 if lowfirst else A)
                    q2 = q + n + d + (A if lowfirst else -A)
                    if not (0 <= q and q + n <= cap and 0 <= q2 and q2 + 200 <= cap):
                        continue
                    ops.append(seek_op(rng, 0, q))
                    ops.append("chacha applypat 0 %d 6" % n)
                    ops.append(seek_op(rng, 0, q2))
                    ops.append("chacha pos 0 u128")
                    ops.append("chacha applypat 0 200 8")
                    stats["alias_seeks"] = stats.get("alias_seeks", 0) + 1
    return ops


def gen_C02(rng, tier, cfg):
    backends = backends_for(cfg, tier)
    ops, stats = [], {}
    nh = 6 if tier == "quick" else 120
    hl = 25 if tier == "quick" else 40
    for be in backends[:1] if tier == "quick" else backends:
        ops.append("cfg backend %s" % be)
        for v in VARIANTS:
            for h in range(nh):
                ops.append("chacha new 0 %s %s %s" % (v, hx(struct_bytes(rng, 32)), hx(struct_bytes(rng, NONCE[v]))))
                near = None
                if h % 3 == 1:
                    near = rng.choice([2**32 * 64, 2**38] if v == "ietf" else [2**32 * 64, 2**64, 2**63])
                ops += history(rng, v, 0, hl, near, stats)
                # apply twice at one position restores the data
                p = rng.below(2**16)
                ops.append(seek_op(rng, 0, p, "u64"))
                ops.append("chacha applypat 0 %d 5" % rng.choice([1, 63, 64, 65, 300]))
            # special seek targets from a state with a buffered block (see gen_C11)
            lim = limit(v)
            cap = min(lim, 2**64 - 1)
            ops.append("chacha new 0 %s %s %s" % (v, hx(struct_bytes(rng, 32)), hx(struct_bytes(rng, NONCE[v]))))
            for start in (0, 64 * 2**32 - 64, min(lim, 2**64) - 64):
                for target in (lim, lim - 64, 0, 64 * 2**32, start):
                    if target > cap or start > cap:
                        continue
                    ops.append(seek_op(rng, 0, start))
                    ops.append("chacha applypat 0 %d 2" % (1 + rng.below(63)))
                    ops.append(seek_op(rng, 0, target))
                    ops.append("chacha pos 0 u128")
                    ops.append("chacha applypat 0 %d 3" % rng.choice([1, 64, 65]))
                    stats["special_from_buffered"] = stats.get("special_from_buffered", 0) + 1
            ops += cast_seek_block(rng, v, stats, 1 if tier != "quick" else 2)
            ops += alias_seek_block(rng, v, stats)
            # one very long request in a single call (2^24 bytes; thorough: also > 2^32 bytes), from a
            # mid-block position; both ends of the output and the position afterwards are compared
            ops.append("chacha new 0 %s %s %s" % (v, hx(struct_bytes(rng, 32)), hx(struct_bytes(rng, NONCE[v]))))
            ops.append(seek_op(rng, 0, rng.choice([0, 37, 2**32 * 64 - 2**23 - 5]), "u64"))
            ops.append("chacha bigapply 0 %d" % (2**24 + 100 + rng.below(64)))
            ops.append("chacha pos 0 u128")
            ops.append("chacha applypat 0 70 9")
            stats["big_requests"] = stats.get("big_requests", 0) + 1
            if tier == "thorough" and v in ("chacha20", "ietf", "xchacha8"):
                ops.append(seek_op(rng, 0, rng.choice([11, 2**37 - 2**31]), "u64"))
                ops.append("chacha bigapply 0 %d" % (2**32 + 100 + rng.below(64)))
                ops.append("chacha pos 0 u128")
                ops.append("chacha applypat 0 70 9")
    return ops, stats


def gen_C11(rng, tier, cfg):
    backends = backends_for(cfg, tier)
    ops, stats = [], {}
    nh = 8 if tier == "quick" else 100
    for be in backends[:1] if tier == "quick" else backends:
        ops.append("cfg backend %s" % be)
        for v in VARIANTS:
            lim = limit(v)
            for h in range(nh):
                n0 = rng.choice([bytes(NONCE[v]), b"\xff" * NONCE[v], struct_bytes(rng, NONCE[v])])
                ops.append("chacha new 0 %s %s %s" % (v, hx(struct_bytes(rng, 32)), hx(n0)))
                anchors = [2**38, 2**32 * 64, 0] if v == "ietf" else [2**64, 2**32 * 64, 0]
                a = anchors[h % len(anchors)]
                for _ in range(12):
                    p = a + rng.below(1200) - 900
                    p = max(0, min(p, min(lim, 2**64 - 1)))
                    ops.append(seek_op(rng, 0, p))
                    for _ in range(rng.below(3) + 1):
                        ln = rng.choice([0, 1, 2, 63, 64, 65, 128, 192, 255, 256, 257, 300, 512, 513, 700, 1100])
                        ops.append("chacha applypat 0 %d %d" % (ln, rng.below(100)))
                        ops.append("chacha pos 0 u128")
                    stats["near_%d" % a] = stats.get("near_%d" % a, 0) + 1
                # seeks with every type incl. out-of-range values
                for t, (lo, hi) in SEEKTYS.items():
                    for val in (lo, hi, lim, lim + 1, lim - 1, lim + 64, 2**64 - 1, 2**64, 2**70, -1):
                        if lo <= val <= hi:
                            ops.append("chacha seek 0 %s %d" % (t, val))
                            ops.append("chacha applypat 0 65 3")
                            ops.append("chacha pos 0 u128")
                # every special target from a state in which a block is buffered (1..63 bytes of it read):
                # a seek that compares block numbers modulo something, or keeps the buffer, shows here
                if h < 2:
                    cap = min(lim, 2**64 - 1)
                    for start in (0, 64 * 2**32 - 64, min(lim, 2**64) - 64):
                        for target in (lim, lim - 1, lim - 64, 0, 63, 64, 64 * 2**32, 64 * 2**32 - 1, start, start + 64):
                            if target > cap or start > cap:
                                continue
                            ops.append(seek_op(rng, 0, start))
                            ops.append("chacha applypat 0 %d 2" % (1 + rng.below(63)))
                            ops.append(seek_op(rng, 0, target))
                            ops.append("chacha pos 0 u128")
                            ops.append("chacha applypat 0 %d 3" % rng.choice([1, 64, 65]))
                            ops.append("chacha pos 0 u128")
                            stats["special_from_buffered"] = stats.get("special_from_buffered", 0) + 1
                # exact end
                if v == "ietf":
                    for back in (64, 65, 256, 300, 1):
                        ops.append("chacha seek 0 u64 %d" % (lim - back))
                        ops.append("chacha applypat 0 %d 1" % back)
                        ops.append("chacha applypat 0 1 1")
                        ops.append("chacha applypat 0 0 1")
                        ops.append("chacha seek 0 u64 0")
                        ops.append("chacha applypat 0 64 2")
    return ops, stats


# ----------------------------------------------------------------------------- C14 / C15

def gen_C14(rng, tier, cfg):
    backends = backends_for(cfg, "thorough" if tier == "thorough" else tier)
    ops, stats = [], {"counters": 0}
    reps = 3 if tier == "quick" else 30
    for be in backends:
        ops.append("cfg backend %s" % be)
        for _ in range(reps):
            for dr in range(0, 11):
                key = struct_bytes(rng, 32)
                nonce = struct_bytes(rng, 8)
                ctr = rng.choice([0, 1, 2**32 - 1, 2**32 - 2, 2**32 - 3, 2**32 - 4, 2**32 - 5, 2**32, 2**64 - 1, 2**64 - 2,
                                  2**64 - 3, 2**64 - 4, 2**64 - 5, 2**63, rng.below(2**64)])
                sid = rng.choice([0, 2**64 - 1, rng.below(2**64)])
                ops.append("guts new 0 %s %s" % (hx(key), hx(nonce)))
                ops.append("guts set 0 0 %d" % ctr)
                if rng.below(2):
                    ops.append("guts set 0 1 %d" % sid)
                ops.append("guts clone 0 1")
                ops.append("guts refill4 0 %d" % dr)
                for _ in range(4):
                    ops.append("guts refill 1 %d" % dr)
                for s in (0, 1):
                    ops.append("guts get %d 0" % s)
                    ops.append("guts get %d 1" % s)
                ops.append("guts eq64 0 1")
                ops.append("guts refill 0 0")
                ops.append("guts refill 1 0")
                stats["counters"] += 1
        # systematic (rule 20): every counter value at which a cast of the 64-bit counter or of one of its 32-bit
        # halves to a narrower / signed type changes character, and every power of two with its neighbours, minus
        # 0..4 so that the carry lands in each lane of the batch; stream id likewise (word 13 = all ones / sign bit)
        if be == backends[0] or tier != "quick":
            cb = cast_boundaries(rng, 64)
            for n, c in enumerate(cb):
                for ctr in ([c] if n % 4 else [c, (c - 1 - n % 4) % 2**64, (c - 4) % 2**64]):
                    dr = n % 3
                    ops.append("guts new 0 %s %s" % (hx(struct_bytes(rng, 32)), hx(struct_bytes(rng, 8))))
                    ops.append("guts set 0 0 %d" % ctr)
                    if n % 2:
                        ops.append("guts set 0 1 %d" % cb[(n * 7) % len(cb)])
                    ops.append("guts clone 0 1")
                    ops.append("guts refill4 0 %d" % dr)
                    for _ in range(4):
                        ops.append("guts refill 1 %d" % dr)
                    ops.append("guts get 0 0")
                    ops.append("guts get 1 0")
                    ops.append("guts get 0 1")
                    ops.append("guts eq64 0 1")
                    ops.append("guts refill4 0 0")
                    ops.append("guts refill 1 0")
                    stats["cast_boundary_counters"] = stats.get("cast_boundary_counters", 0) + 1
    return ops, stats


def gen_C15(rng, tier, cfg):
    ops, stats = [], {"pairs": 0}
    reps = 40 if tier == "quick" else 2000
    ops.append("cfg backend %s" % backends_for(cfg, tier)[0])
    # systematic: correlated differences inside each 128-bit row of the state (key row 0, key row 1, and the
    # counter/nonce row through the nonce bytes)
    xor = lambda a, b: bytes(x ^ y for x, y in zip(a, b))
    diffs = correlated_row_diffs(rng)
    for d in diffs:
        key = struct_bytes(rng, 32)
        nonce = struct_bytes(rng, 12)
        for (k2, n2) in ((xor(key[:16], d) + key[16:], nonce), (key[:16] + xor(key[16:], d), nonce),
                         (key, xor(nonce, d[4:16]))):
            ops.append("guts new 0 %s %s" % (hx(key), hx(nonce)))
            ops.append("guts new 1 %s %s" % (hx(k2), hx(n2)))
            ops.append("guts eq32 0 1")
            ops.append("guts eq64 0 1")
            stats["correlated_rows"] = stats.get("correlated_rows", 0) + 1
    for rep in range(reps):
        key = bytearray(struct_bytes(rng, 32))
        nl = rng.choice([8, 12])
        nonce = bytearray(struct_bytes(rng, nl))
        ops.append("guts new 0 %s %s" % (hx(bytes(key)), hx(bytes(nonce))))
        # second state differing in exactly one of the key/nonce words (or equal)
        k2, n2 = bytearray(key), bytearray(nonce)
        which = rng.below(20)
        nw = nl // 4
        if which < 8:
            k2[4 * which + rng.below(4)] ^= 1 << rng.below(8)
        elif which < 8 + nw:
            n2[4 * (which - 8) + rng.below(4)] ^= 1 << rng.below(8)
        elif which >= 14:
            # CORRELATED differences in several words (a comparison that folds per-word differences with
            # xor/add instead of or, or compares a sum/hash of the words, only shows on these): the same
            # xor mask in two or all nonce words, two words swapped, complement, rotate by one word,
            # the same mask in a key word and a nonce word
            mask = rng.choice([b"\x01\x00\x00\x00", b"\xff\xff\xff\xff", b"\x00\x00\x00\x80", struct_bytes(rng, 4)])
            def xw(buf, w):
                for t in range(4):
                    buf[4 * w + t] ^= mask[t]
            i, j = rng.below(nw), rng.below(nw)
            if i == j:
                j = (i + 1) % nw
            if which == 14:
                xw(n2, i); xw(n2, j)
            elif which == 15:
                for w in range(nw):
                    xw(n2, w)
            elif which == 16:
                n2[4 * i:4 * i + 4], n2[4 * j:4 * j + 4] = n2[4 * j:4 * j + 4], n2[4 * i:4 * i + 4]
            elif which == 17:
                n2 = bytearray(n2[4:] + n2[:4])
            elif which == 18:
                xw(k2, rng.below(8)); xw(n2, i)
            else:
                a, b2 = rng.below(8), rng.below(8)
                xw(k2, a); xw(k2, (b2 if b2 != a else (a + 1) % 8))
            stats["correlated"] = stats.get("correlated", 0) + 1
        ops.append("guts new 1 %s %s" % (hx(bytes(k2)), hx(bytes(n2))))
        ops.append("guts eq32 0 1")
        ops.append("guts eq64 0 1")
        for p in (0, 1):
            val = rng.choice([0, 1, 2**32 - 1, 2**32, 2**64 - 1, rng.below(2**64)])
            ops.append("guts get 0 %d" % p)
            ops.append("guts set 0 %d %d" % (p, val))
            ops.append("guts get 0 0")
            ops.append("guts get 0 1")
            ops.append("guts eq32 0 1")
            ops.append("guts eq64 0 1")
        ops.append("guts refill 0 %d" % rng.below(11))
        ops.append("guts refill 0 0")
        # "the output that follows equals that of a state created directly with those values" — through BOTH
        # output paths (single block and the 4-block batch), at counter values where a lane of the batch
        # carries: low word 2^32-4 … 2^32-1, the full 64 bits 2^64-4 … 2^64-1
        hi = rng.choice([0, 7, 2**32 - 1]) << 32
        cv = rng.choice([hi + 2**32 - 4, hi + 2**32 - 3, hi + 2**32 - 2, hi + 2**32 - 1, 2**64 - 4, 2**64 - 3, 2**64 - 2,
                         2**64 - 1, rng.below(2**64)])
        ops.append("guts set 0 0 %d" % cv)
        ops.append("guts clone 0 2")
        ops.append("guts refill4 0 %d" % rng.choice([4, 6, 10]))
        ops.append("guts get 0 0")
        ops.append("guts get 0 1")
        ops.append("guts refill 2 10")
        ops.append("guts get 2 0")
        if rep % 10 == 3:
            ops.append("guts set 0 %d 5" % rng.choice([2, 3, 7]))   # out-of-range parameter: panic
            ops.append("guts get 0 %d" % rng.choice([2, 3, 7]))
        if rep % 10 == 7:
            # `param: u32` and the index is `(param << 1) | 1`: the shift discards bit 31, so 2^31 / 2^31+1 ALIAS parameters
            # 0 / 1 (a silent write), 2^31+2 and 2^32-1 index out of bounds; observe the aliasing through both parameters
            for hp in (2147483648, 2147483649, 2147483650, 4294967295):
                ops.append("guts set 0 %d %d" % (hp, rng.choice([5, 2**32 + 7, 2**64 - 1, rng.below(2**64)])))
                ops.append("guts get 0 0")
                ops.append("guts get 0 1")
                ops.append("guts get 0 %d" % hp)
            stats["high_bit_params"] = stats.get("high_bit_params", 0) + 1
        stats["pairs"] += 1
    return ops, stats


GENS.update({"C02": gen_C02, "C11": gen_C11, "C14": gen_C14, "C15": gen_C15})


# --------------------------------------------------------------------------- C19: ppv-null

NULL_TYPES = {  # name -> (lane bits, lanes)
    "u128x1": (128, 1), "u128x2": (128, 2), "u32x4": (32, 4), "u64x4": (64, 4), "u32x4x4": (32, 16)}
NULL_KINDS = ["random", "zero", "ones", "single-bit", "byte-counting", "one", "ones-lane"]


def null_vec(rng, bits, n, kind):
    """n lanes of `bits` bits as ints, of the given structural kind"""
    m = (1 << bits) - 1
    nb = bits // 8
    if kind == "zero":
        return [0] * n
    if kind == "ones":
        return [m] * n
    if kind == "one":
        return [1] * n
    if kind == "single-bit":
        return [1 << rng.below(bits) for _ in range(n)]
    if kind == "byte-counting":
        # bytes 00 01 02 ... in memory order (little-endian lanes): every byte of the vector distinct
        base = rng.below(3) * 0x40
        return [int.from_bytes(bytes((base + k * nb + j) & 0xff for j in range(nb)), "little") for k in range(n)]
    v = [int.from_bytes(rng.bytes(nb), "little") for _ in range(n)]
    if kind == "ones-lane" and n:
        v[rng.below(n)] = m
    return v


def null_pick(rng, t):
    """kind for the t-th tuple: the fixed catalogue first, then structured random"""
    cat = ["zero", "ones", "single-bit", "byte-counting", "ones-lane"]
    if t < len(cat):
        return cat[t]
    return (["random"] * 5 + cat)[rng.below(10)]


def null_pair_kinds(rng, t):
    """kinds for a binary operation's operands"""
    cat = [("zero", "zero"), ("ones", "ones"), ("ones", "one"), ("one", "ones"), ("single-bit", "single-bit"),
           ("byte-counting", "byte-counting"), ("ones-lane", "random"), ("random", "ones")]
    if t < len(cat):
        return cat[t]
    return null_pick(rng, 99), null_pick(rng, 99)


def hw(x, bits):
    return "%0*x" % (bits // 4, x)


def hv(v, bits):
    return ",".join(hw(x, bits) for x in v) if v else "-"



def cast_boundaries(rng, width):
    """Values of a `width`-bit scalar parameter (count, amount, index, length) at which a cast to a NARROWER or SIGNED
    type inside the callee changes character: for every n in 8/16/32/64/128 <= width the low n bits are
    0, 1, 2^(n-1)-1, 2^(n-1) (the sign bit alone: iN::MIN), 2^(n-1)+1, 2^n-1 under high bits 0 / random / all ones;
    plus every power of two and its neighbours.  (Rule 20: a parameter that is in contract for every value is sampled
    at the special values of every type it can be cast to, not only near 0 and near the word size.)"""
    out = []
    for n in (8, 16, 32, 64, 128):
        if n > width:
            break
        lows = [0, 1, (1 << (n - 1)) - 1, 1 << (n - 1), (1 << (n - 1)) + 1, (1 << n) - 1]
        highs = [0] if n == width else [0, int.from_bytes(rng.bytes(16), 'little') % (1 << (width - n)), (1 << (width - n)) - 1]
        for h in highs:
            for lo in lows:
                out.append((h << n) | lo)
    for j in range(width):
        for d in (-1, 0, 1):
            v = (1 << j) + d
            if 0 <= v < (1 << width):
                out.append(v)
    seen, res = set(), []
    for v in out:
        if v not in seen:
            seen.add(v)
            res.append(v)
    return res


def gen_C19(rng, tier, cfg):
    N = 30 if tier == "quick" else 1000
    ops = []
    stats = {"per_method": {}, "kinds": {}, "amounts": {}, "indices": {}, "out_of_contract": 0, "in_contract": 0}

    def emit(ty, meth, args, kinds=(), ooc=False):
        ops.append("null %s %s %s" % (ty, meth, " ".join(args)) if args else "null %s %s" % (ty, meth))
        key = ty + "." + meth + (" (out-of-contract)" if ooc else "")
        stats["per_method"][key] = stats["per_method"].get(key, 0) + 1
        for k in kinds:
            stats["kinds"][k] = stats["kinds"].get(k, 0) + 1
        stats["out_of_contract" if ooc else "in_contract"] += 1

    def vec(ty, kind):
        bits, n = NULL_TYPES[ty]
        return hv(null_vec(rng, bits, n, kind), bits)

    def unary(ty, meth):
        for t in range(N):
            k = null_pick(rng, t)
            emit(ty, meth, [vec(ty, k)], [k])

    def binary(ty, meth):
        for t in range(N):
            k1, k2 = null_pair_kinds(rng, t)
            emit(ty, meth, [vec(ty, k1), vec(ty, k2)], [k1, k2])

    def amounts(ty, meth, lo, hi, fmt=lambda i: str(i)):
        """every amount lo..hi at least once, at least N tuples"""
        t = 0
        while t < max(N, hi - lo + 1):
            i = lo + t % (hi - lo + 1)
            k = null_pick(rng, t)
            emit(ty, meth, [vec(ty, k), fmt(i)], [k])
            stats["amounts"][ty + "." + meth] = stats["amounts"].get(ty + "." + meth, 0) + 1
            t += 1

    def slices(ty, meth, with_self, good_len):
        bits, n = NULL_TYPES[ty]
        for t in range(N):
            k1, k2 = null_pair_kinds(rng, t)
            xs = hv(null_vec(rng, bits, good_len, k2), bits)
            emit(ty, meth, ([vec(ty, k1)] if with_self else []) + [xs], [k1, k2] if with_self else [k2])
        # out of contract: every other length 0..good_len+2
        for ln in range(0, good_len + 3):
            if ln == good_len:
                continue
            for _ in range(2 if tier == "quick" else 20):
                k1, k2 = null_pick(rng, 99), null_pick(rng, 99)
                xs = hv(null_vec(rng, bits, ln, k2), bits)
                emit(ty, meth, ([vec(ty, k1)] if with_self else []) + [xs], ooc=True)

    # ---------------- u128x1
    T = "u128x1"
    for t in range(N):
        k = null_pick(rng, t)
        emit(T, "new", [hw(null_vec(rng, 128, 1, k)[0], 128)], [k])
    for m in ["clone", "into_inner", "swap1", "swap2", "swap4", "swap8", "swap16", "swap32", "swap64", "not"]:
        unary(T, m)
    for m in ["andnot", "add_assign", "bitxor_assign", "bitxor", "bitand"]:
        binary(T, m)
    amounts(T, "rotate_right", 1, 127)
    for i in [0, 128, 129, 255, 256, 2**32 - 1, 2**32, 2**32 + 5, 2**64 + 7, 2**128 - 1]:
        for _ in range(3):
            emit(T, "rotate_right", [vec(T, null_pick(rng, 99)), str(i)], ooc=True)
    for i in cast_boundaries(rng, 128):
        emit(T, "rotate_right", [vec(T, null_pick(rng, 99)), str(i)], ooc=True)
    stats["amounts"][T + ".rotate_right cast boundaries"] = len(cast_boundaries(rng, 128))
    slices(T, "load", False, 1)
    slices(T, "xor_store", True, 1)
    for t in range(N):
        k = null_pick(rng, t)
        emit(T, "extract", [vec(T, k), "0"], [k])
        stats["indices"][T + ".extract"] = [0]
    for i in [1, 2, 127, 2**31, 2**32 - 1]:
        for _ in range(3):
            emit(T, "extract", [vec(T, null_pick(rng, 99)), str(i)], ooc=True)

    # ---------------- u128x2
    T = "u128x2"
    for t in range(N):
        k1, k2 = null_pair_kinds(rng, t)
        emit(T, "new", [hw(null_vec(rng, 128, 1, k1)[0], 128), hw(null_vec(rng, 128, 1, k2)[0], 128)], [k1, k2])
    for m in ["clone", "not"]:
        unary(T, m)
    for m in ["andnot", "add_assign", "bitxor_assign", "bitand", "bitor"]:
        binary(T, m)
    amounts(T, "rotate_right", 1, 127)
    for i in [0, 128, 129, 255, 256, 2**32 - 1, 2**32, 2**32 + 5, 2**64 + 7, 2**128 - 1]:
        for _ in range(3):
            emit(T, "rotate_right", [vec(T, null_pick(rng, 99)), str(i)], ooc=True)
    for i in cast_boundaries(rng, 128):
        emit(T, "rotate_right", [vec(T, null_pick(rng, 99)), str(i)], ooc=True)
    stats["amounts"][T + ".rotate_right cast boundaries"] = len(cast_boundaries(rng, 128))
    slices(T, "load", False, 2)
    slices(T, "xor_store", True, 2)
    for t in range(N):
        k = null_pick(rng, t)
        emit(T, "extract", [vec(T, k), str(t % 2)], [k])
    stats["indices"][T + ".extract"] = [0, 1]
    for i in [2, 3, 4, 2**31, 2**32 - 1]:
        for _ in range(3):
            emit(T, "extract", [vec(T, null_pick(rng, 99)), str(i)], ooc=True)

    # ---------------- u32x4 / u64x4
    for T in ["u32x4", "u64x4"]:
        bits = NULL_TYPES[T][0]
        for t in range(N):
            k = null_pick(rng, t)
            emit(T, "new", [hw(x, bits) for x in null_vec(rng, bits, 4, k)], [k])
            emit(T, "splat", [hw(null_vec(rng, bits, 1, k)[0], bits)], [k])
        unary(T, "clone")
        for m in ["add_assign", "bitxor_assign", "add", "bitxor", "bitor", "bitand"]:
            binary(T, m)
        # per-lane rotate_right: every amount 1..bits-1 in every lane
        t = 0
        while t < max(N, bits - 1):
            i = 1 + t % (bits - 1)
            ii = [i, bits - i, (i * 5) % (bits - 1) + 1, (i + bits // 2 - 1) % (bits - 1) + 1]
            ii = ii[t % 4:] + ii[:t % 4]
            k = null_pick(rng, t)
            emit(T, "rotate_right", [vec(T, k), hv(ii, bits)], [k])
            t += 1
        stats["amounts"][T + ".rotate_right"] = "1..%d in every lane" % (bits - 1)
        # count vectors whose lanes are RELATED: all equal (the splat a caller normally passes), all equal but one
        # lane (every position of the odd lane), the odd count a bit-subset / superset / complement of the common
        # one, pairs of equal lanes — a "uniform count" fast path that looks at too few lanes shows only here
        rel = []
        for a in ([5, 12, 17, bits - 1, bits // 2, 48 % bits or 3] + [1 + rng.below(bits - 1) for _ in range(4)]):
            rel.append([a, a, a, a])
            for b in (a & (a - 1) or 1, a & 1 or 2, (a | 1) % bits or 1, (a ^ (bits - 1)) or 1, (a + 1) % bits or 1, 1 + rng.below(bits - 1)):
                if b == a or not (1 <= b < bits):
                    continue
                for pos in range(4):
                    ii = [a, a, a, a]
                    ii[pos] = b
                    rel.append(ii)
                rel.append([a, b, a, b])
                rel.append([a, a, b, b])
        for ii in rel:
            k = null_pick(rng, 99)
            emit(T, "rotate_right", [vec(T, k), hv(ii, bits)], [k])
        stats["amounts"][T + ".rotate_right related counts"] = len(rel)
        big = [0, bits, bits + 1, 2 * bits, (1 << bits) - 1, 1 << (bits - 1)] + ([2**32, 2**32 + 3, 2**40 + 64] if bits == 64 else [])
        for _ in range(10 if tier == "quick" else 100):
            ii = [rng.choice(big) for _ in range(4)]
            emit(T, "rotate_right", [vec(T, null_pick(rng, 99)), hv(ii, bits)], ooc=True)
        cb = cast_boundaries(rng, bits)
        for t, v in enumerate(cb):          # the special count in every lane position, the others ordinary / special too
            ii = [1 + rng.below(bits - 1) for _ in range(4)]
            ii[t % 4] = v
            if t % 3 == 0:
                ii[(t + 1) % 4] = rng.choice(cb)
            emit(T, "rotate_right", [vec(T, null_pick(rng, 99)), hv(ii, bits)], ooc=True)
        stats["amounts"][T + ".rotate_right cast boundaries"] = len(cb)
        slices(T, "from_slice_unaligned", False, 4)
        slices(T, "write_to_slice_unaligned", True, 4)
        for t in range(N):
            k1, k2 = null_pair_kinds(rng, t)
            emit(T, "extract", [vec(T, k1), str(t % 4)], [k1])
            emit(T, "replace", [vec(T, k1), str(t % 4), hw(null_vec(rng, bits, 1, k2)[0], bits)], [k1, k2])
        stats["indices"][T + ".extract/replace"] = [0, 1, 2, 3]
        for i in [4, 5, 8, 2**32, 2**32 + 1, 2**63, 2**64 - 1]:
            for _ in range(3):
                emit(T, "extract", [vec(T, null_pick(rng, 99)), str(i)], ooc=True)
                emit(T, "replace", [vec(T, null_pick(rng, 99)), str(i), hw(null_vec(rng, bits, 1, "random")[0], bits)], ooc=True)
        amounts(T, "rotate_words_right", 0, 3)
        for i in [4, 5, 6, 7, 8, 9, 2**31, 2**32 - 4, 2**32 - 1]:
            for _ in range(3):
                emit(T, "rotate_words_right", [vec(T, null_pick(rng, 99)), str(i)], ooc=True)
        for i in cast_boundaries(rng, 32):
            if i >= 4:
                emit(T, "rotate_words_right", [vec(T, null_pick(rng, 99)), str(i)], ooc=True)
            if not (1 <= i < bits):
                emit(T, "splat_rotate_right", [vec(T, null_pick(rng, 99)), str(i)], ooc=True)
            if i >= 4:
                emit(T, "extract", [vec(T, null_pick(rng, 99)), str(i)], ooc=True)
        amounts(T, "splat_rotate_right", 1, bits - 1)
        for i in [0, bits, bits + 1, 2 * bits - 1, 2 * bits, 2 * bits + 1, 255, 256, 2**31, 2**32 - bits, 2**32 - 1]:
            for _ in range(3):
                emit(T, "splat_rotate_right", [vec(T, null_pick(rng, 99)), str(i)], ooc=True)

    # ---------------- u32x4x4
    T = "u32x4x4"
    for t in range(N):
        ks = [null_pick(rng, t) for _ in range(4)]
        emit(T, "from", [vec("u32x4", k) for k in ks], ks)
        emit(T, "splat", [vec("u32x4", ks[0])], ks[:1])
    for m in ["into_parts", "clone"]:
        unary(T, m)
    for m in ["bitxor", "bitor", "bitand", "add", "bitxor_assign", "add_assign"]:
        binary(T, m)
    amounts(T, "rotate_words_right", 0, 3)
    for i in [4, 5, 6, 7, 8, 2**31, 2**32 - 1]:
        for _ in range(3):
            emit(T, "rotate_words_right", [vec(T, null_pick(rng, 99)), str(i)], ooc=True)
    for i in cast_boundaries(rng, 32):
        if i >= 4:
            emit(T, "rotate_words_right", [vec(T, null_pick(rng, 99)), str(i)], ooc=True)
        if not (1 <= i < 32):
            emit(T, "splat_rotate_right", [vec(T, null_pick(rng, 99)), str(i)], ooc=True)
    amounts(T, "splat_rotate_right", 1, 31)
    for i in [0, 32, 33, 63, 64, 65, 255, 256, 2**31, 2**32 - 32, 2**32 - 1]:
        for _ in range(3):
            emit(T, "splat_rotate_right", [vec(T, null_pick(rng, 99)), str(i)], ooc=True)
    return ops, stats


GENS["C19"] = gen_C19
# --------------------------------------------------------------------------- Threefish (C09, C10)

TF_SIZES = {"256": 32, "512": 64, "1024": 128}
# the repository's own test vectors (NIST submission): (size, key, t0, t1, plaintext)
TF_VECTORS = [
    ("256", bytes(32), 0, 0, bytes(32)),
    ("256", bytes(range(0x10, 0x30)), 0x0706050403020100, 0x0f0e0d0c0b0a0908, bytes(range(0xff, 0xdf, -1))),
    ("512", bytes(64), 0, 0, bytes(64)),
    ("512", bytes(range(0x10, 0x50)), 0x0706050403020100, 0x0f0e0d0c0b0a0908, bytes(range(0xff, 0xbf, -1))),
    ("1024", bytes(128), 0, 0, bytes(128)),
    ("1024", bytes(range(0x10, 0x90)), 0x0706050403020100, 0x0f0e0d0c0b0a0908, bytes(range(0xff, 0x7f, -1))),
]


def struct_u64(rng):
    k = rng.below(8)
    if k < 3:
        return rng.next()
    if k == 3:
        return 0
    if k == 4:
        return 2**64 - 1
    if k == 5:
        return 1 << rng.below(64)
    if k == 6:
        return (2**64 - 1) ^ (1 << rng.below(64))
    return rng.below(1 << 20)


def single_bit(n, bit):
    b = bytearray(n)
    b[bit // 8] = 1 << (bit % 8)
    return bytes(b)


def tf_cases(rng, tier, size):
    """(key, t0, t1, block) tuples: carry patterns, single bits in every word, structured random."""
    n = TF_SIZES[size]
    ones, zero = b"\xff" * n, bytes(n)
    M = 2**64 - 1
    out = []
    # all-zero / all-ones in every combination: every addition carries (or none does)
    for k in (zero, ones):
        for t in ((0, 0), (M, M), (M, 0), (0, M)):
            for b in (zero, ones):
                out.append((k, t[0], t[1], b))
    # a single bit in each key word / block word / tweak word (a defect confined to one word shows)
    words = n // 8
    step = 1 if tier != "quick" else max(1, words // 4)
    for w in range(0, words, step):
        bit = 64 * w + rng.below(64)
        out.append((single_bit(n, bit), 0, 0, zero))
        out.append((zero, 0, 0, single_bit(n, bit)))
        out.append((single_bit(n, bit), M, M, ones))
    for w in range(words - 3, words):   # the words that receive tweak / counter additions
        out.append((single_bit(n, 64 * w + 63), 1 << 63, 1 << 63, single_bit(n, 64 * w + 63)))
    for bit in (0, 31, 32, 63):
        out.append((zero, 1 << bit, 0, zero))
        out.append((zero, 0, 1 << bit, zero))
        out.append((ones, 1 << bit, 1 << bit, zero))
    nrand = 250 if tier == "quick" else 30000
    for _ in range(nrand):
        out.append((struct_bytes(rng, n), struct_u64(rng), struct_u64(rng), struct_bytes(rng, n)))
    return out


def tf_opname(cfg):
    return "tfl" if cfg.startswith("nounroll") else "tf"


def gen_C09(rng, tier, cfg):
    op = tf_opname(cfg)
    ops = []
    stats = {"op": op, "sizes": {}, "vectors": len(TF_VECTORS), "paths": {}}
    for (size, key, t0, t1, blk) in TF_VECTORS:
        ops.append("%s %s enc %s %d %d %s" % (op, size, hx(key), t0, t1, hx(blk)))
    for size in TF_SIZES:
        cs = tf_cases(rng, tier, size)
        for i, (key, t0, t1, blk) in enumerate(cs):
            # every public API path to the block function: single block, block slice, par-blocks,
            # `&Alg` forwarding (and `new()` instead of `with_tweak` when the tweak is zero)
            d = "enc" if i % 4 else ("encs", "encp", "encr")[(i // 4) % 3]
            ops.append("%s %s %s %s %d %d %s" % (op, size, d, hx(key), t0, t1, hx(blk)))
            stats["paths"][d] = stats["paths"].get(d, 0) + 1
        for d in ("encs", "encp", "encr"):
            ops.append("%s %s %s %s 0 0 %s" % (op, size, d, hx(cs[0][0]), hx(cs[0][3])))   # `new()` constructor
        stats["sizes"][size] = len(cs)
    return ops, stats


def gen_C10(rng, tier, cfg):
    """enc, dec, and both round trips (`encdec` = decrypt(encrypt b), `decenc` = encrypt(decrypt b));
    the model's round trips are the identity by theorem, so a disagreement on those lines is a
    block that the real code fails to recover."""
    op = tf_opname(cfg)
    ops = []
    stats = {"op": op, "sizes": {}, "dirs": ["dec", "encdec", "decenc"], "paths": {}}
    for (size, key, t0, t1, blk) in TF_VECTORS:
        for d in ("dec", "encdec", "decenc"):
            ops.append("%s %s %s %s %d %d %s" % (op, size, d, hx(key), t0, t1, hx(blk)))
    for size in TF_SIZES:
        cs = tf_cases(rng, tier, size)
        alt = [("decs", "encsdecs", "decsencs"), ("decp", "encpdecp", "decsenc"), ("decr", "encrdecr", "encdecs")]
        for i, (key, t0, t1, blk) in enumerate(cs):
            # every fourth case goes through another public API path (block slice / par-blocks / `&Alg`)
            ds = ("dec", "encdec", "decenc") if i % 4 else alt[(i // 4) % 3]
            for d in ds:
                ops.append("%s %s %s %s %d %d %s" % (op, size, d, hx(key), t0, t1, hx(blk)))
                stats["paths"][d] = stats["paths"].get(d, 0) + 1
        for d in ("decs", "decp", "decr", "encsdecs"):
            ops.append("%s %s %s %s 0 0 %s" % (op, size, d, hx(cs[0][0]), hx(cs[0][3])))   # `new()` constructor
        stats["sizes"][size] = len(cs)
    return ops, stats


# --------------------------------------------------------------------------- Skein (C05)

SKEIN_N = [1, 2, 7, 8, 20, 31, 32, 33, 48, 63, 64, 65, 96, 127, 128, 129, 200, 256, 257, 1000]
SKEIN_B = {"256": 32, "512": 64, "1024": 128}


def skein_lengths(b):
    return [0, 1, 2, 7, 8, 9, b - 1, b, b + 1, 2 * b - 1, 2 * b, 2 * b + 1, 3 * b - 1, 3 * b, 3 * b + 1, 4 * b,
            5 * b + 3, 8 * b, 8 * b + 1]


def split_pieces(rng, total, b):
    """a partition of `total` with pieces drawn from 0, 1, b-1, b, b+1, 2b, 'fill the buffer'"""
    out = []
    left = total
    while left > 0:
        c = rng.choice([0, 1, b - 1, b, b + 1, 2 * b, 3 * b + 1, rng.below(2 * b + 2), left])
        c = min(c, left)
        out.append(c)
        left -= c
    return out or [0]


def gen_C05(rng, tier, cfg):
    ops = []
    stats = {"variants": 0, "lengths": {}, "one_shot": 0, "chunked": 0, "reset": 0, "counter_ops": 0}
    slot = 0
    seed = 0

    def one(variant, b, ln, chunked):
        nonlocal seed
        seed += 1
        ops.append("skein new %d %s" % (slot, variant))
        if chunked:
            # the pieces are consecutive ranges of one pattern: send literal hex pieces
            data = bytes(pat_bytes(seed, ln))
            pos = 0
            for c in split_pieces(rng, ln, b):
                ops.append("skein update %d %s" % (slot, hx(data[pos:pos + c])))
                pos += c
            stats["chunked"] += 1
        else:
            if ln <= 64 and rng.below(3) == 0:
                ops.append("skein update %d %s" % (slot, hx(struct_bytes(rng, ln))))
            else:
                ops.append("skein updpat %d %d %d" % (slot, ln, seed))
            stats["one_shot"] += 1
        ops.append("skein fin %d" % slot)
        stats["lengths"][ln] = stats["lengths"].get(ln, 0) + 1

    # instances of one state size with DIFFERENT type-level output lengths created back to back in one
    # process, among them N and 8·N (bytes vs bits), N and N±1, small after large: anything remembered
    # across instances (a process-wide cache of the configured initial value, say) shows only here
    for size, b in SKEIN_B.items():
        for (n1, n2) in ((32, 256), (256, 32), (8, 64), (1, 8), (64, 8), (32, 33), (64, 63), (1000, 128)):
            one("%s-%d" % (size, n1), b, rng.choice([0, 3, b + 1]), False)
            one("%s-%d" % (size, n2), b, rng.choice([0, 3, b + 1]), False)
            stats["parameter_pairs"] = stats.get("parameter_pairs", 0) + 1
    # outputs of more than 256 counter-mode blocks (block index needs more than one byte)
    for size, n in (("256", 8256), ("512", 16512), ("1024", 33024)):
        for ln in ((0, 5) if tier == "quick" else (0, 1, SKEIN_B[size], 3 * SKEIN_B[size] + 1)):
            one("%s-%d" % (size, n), SKEIN_B[size], ln, False)
        stats["variants"] += 1
    # output sizes that alias a standard size when the byte / bit count is narrowed to u8 / u16 (rule 20 applied to
    # the type-level parameter): every state size with N = 256+32, 256+64, 8192+16/32/64/128, 65536+32/64
    for size, b in SKEIN_B.items():
        alias = [288, 320, 8208, 8224, 8256, 8320, 65568, 65600]
        for n in (alias if tier != "quick" else alias[:6] + [alias[6 + (len(size) + int(size)) % 2]]):
            one("%s-%d" % (size, n), b, rng.choice([0, 3, b + 1]), False)
            stats["aliasing_output_sizes"] = stats.get("aliasing_output_sizes", 0) + 1
    for size, b in rot(SKEIN_B.items(), cfg):
        for n in SKEIN_N:
            variant = "%s-%d" % (size, n)
            stats["variants"] += 1
            if n in (7, 64, 200):
                ops.extend(boundary_feed_ops("skein", variant, b, rng, slot))
                stats["boundary_feeds"] = stats.get("boundary_feeds", 0) + 1
            lens = skein_lengths(b)
            if tier == "quick":
                # every N sees the boundary lengths; the rest of the catalogue rotates
                lens = [0, b, b + 1, 2 * b] + [rng.choice(lens) for _ in range(3)]
            for ln in lens:
                one(variant, b, ln, False)
            for _ in range(2 if tier == "quick" else 8):
                one(variant, b, rng.choice(skein_lengths(b)) + rng.below(3), True)
            # finalize_reset / reset / clone and the state hooks
            ops.append("skein new %d %s" % (slot, variant))
            ops.append("skein updpat %d %d %d" % (slot, rng.choice(skein_lengths(b)), seed))
            ops.append("skein getctr %d" % slot)
            ops.append("skein getx %d" % slot)
            ops.append("skein clone %d %d" % (slot, slot + 1))
            ops.append("skein finreset %d" % slot)
            ops.append("skein getctr %d" % slot)
            ops.append("skein fin %d" % slot)             # = hash of the empty message
            ops.append("skein updpat %d %d %d" % (slot + 1, b + 1, seed + 7))
            ops.append("skein fin %d" % (slot + 1))
            ops.append("skein reset %d" % (slot + 1))
            ops.append("skein updpat %d %d %d" % (slot + 1, 2 * b, seed + 9))
            ops.append("skein finreset %d" % (slot + 1))
            stats["reset"] += 1
        # every residue mod b (thorough), for three representative N
        if tier != "quick":
            for n in (1, 33, 257):
                for ln in range(0, 3 * b + 2):
                    one("%s-%d" % (size, n), b, ln, ln % 5 == 0)
        # byte counter near a word boundary (hook): position field carries into bit 32 / wraps at 2^64
        variant = "%s-%d" % (size, 32)
        for ctr in (2**32 - b, 2**32 - 1, 2**63 - 5, 2**64 - 2 * b - 1, 2**64 - b, 2**64 - b + 1, 2**64 - 1):
            ops.append("skein new %d %s" % (slot, variant))
            ops.append("skein updpat %d %d %d" % (slot, b + 3, seed))
            ops.append("skein setctr %d %d" % (slot, ctr))
            ops.append("skein updpat %d %d %d" % (slot, b, seed + 1))   # processes exactly one more block
            ops.append("skein new %d %s" % (slot + 2, variant))          # a panicked slot is discarded: use a fresh one
            ops.append("skein updpat %d %d %d" % (slot + 2, 3, seed))
            ops.append("skein setctr %d %d" % (slot + 2, ctr))
            ops.append("skein getctr %d" % (slot + 2))
            ops.append("skein fin %d" % (slot + 2))
            stats["counter_ops"] += 1
    return ops, stats


def pat_bytes(seed, n):
    out = bytearray()
    for i in range(n):
        x = (seed * 2654435761 + i * 2246822519 + 374761393) & 0xffffffff
        y = (x ^ (x >> 15)) & 0xffffffff
        z = (y * 2246822519) & 0xffffffff
        out.append((z ^ (z >> 13)) & 0xff)
    return out


GENS.update({"C01": gen_C01, "C05": gen_C05, "C09": gen_C09, "C10": gen_C10})
# --------------------------------------------------------------------------- C04 BLAKE

BLAKE_VARIANTS = {224: (32, 64), 256: (32, 64), 384: (64, 128), 512: (64, 128)}   # bits -> (word bits, block bytes)


def blake_lengths(b, tier):
    """boundary catalogue around the padding thresholds (b-footer = 55/111, b-8/16, b) and block multiples"""
    if tier != "quick":
        base = list(range(0, 301))
    else:
        base = [0, 1, 2, 3, 54, 55, 56, 57, 63, 64, 65, 110, 111, 112, 113, 119, 120, 127, 128, 129,
                183, 184, 191, 192, 193, 239, 240, 247, 255, 256, 257, 300]
    for k in (2, 3, 4):
        for d in (-18, -17, -16, -10, -9, -8, -1, 0, 1):
            base.append(k * b + d)
    return sorted(set(x for x in base if x >= 0))


def split_points(rng, n):
    """ways of cutting n bytes into update calls"""
    k = rng.below(4)
    if n == 0 or k == 0:
        return [n]
    if k == 1:
        a = rng.below(n + 1)
        return [a, n - a]
    if k == 2:
        parts = []
        left = n
        while left > 0:
            c = min(left, rng.choice([1, 7, 9, 17, 55, 63, 64, 65, 111, 127, 128, 129]))
            parts.append(c)
            left -= c
        return parts
    a = rng.below(n + 1)
    return [a, 0, n - a]


def gen_C04(rng, tier, cfg):
    backends = backends_for(cfg, tier)
    ops = []
    stats = {"variants": {}, "lengths": {}, "putblock": 0, "splits": 0, "oneshot": 0, "backends": list(backends),
             "counter_states": 0}
    slot = 0
    for be in backends:
        ops.append("cfg backend %s" % be)
        for bits, (w, b) in rot(BLAKE_VARIANTS.items(), cfg):
            ops.extend(boundary_feed_ops("blake", str(bits), b, rng))
            stats["boundary_feeds"] = stats.get("boundary_feeds", 0) + 1
            lens = blake_lengths(b, tier)
            if tier == "quick" and be != backends[0]:
                lens = [n for n in lens if n in (0, 1, b - 2 * w // 8 - 1, b - 2 * w // 8, b - 1, b, b + 1, 2 * b, 300)]
            for n in lens:
                slot = (slot + 1) % 8
                ops.append("blake new %d %d" % (slot, bits))
                parts = split_points(rng, n)
                if len(parts) == 1:
                    stats["oneshot"] += 1
                else:
                    stats["splits"] += 1
                seed = rng.below(1000)
                for c in parts:
                    if c <= 160 and rng.below(3) == 0:
                        ops.append("blake update %d %s" % (slot, hx(struct_bytes(rng, c))))
                    else:
                        ops.append("blake updpat %d %d %d" % (slot, c, seed))
                        seed += 1
                k = rng.below(4)
                if k == 0:
                    ops.append("blake getctr %d" % slot)
                    ops.append("blake getstate %d" % slot)
                ops.append("blake fin %d" % slot)
                if k == 1:
                    # fin left the slot unchanged: a clone continues identically
                    ops.append("blake clone %d %d" % (slot, (slot + 1) % 8))
                    ops.append("blake updpat %d %d %d" % ((slot + 1) % 8, rng.choice([1, 9, b - 1, b, b + 1]), seed))
                    ops.append("blake fin %d" % ((slot + 1) % 8))
                ops.append("blake finreset %d" % slot)
                if k == 2:
                    # after finalize_reset the hasher is fresh
                    ops.append("blake getctr %d" % slot)
                    ops.append("blake updpat %d %d %d" % (slot, rng.choice([0, 3, b]), seed))
                    ops.append("blake finreset %d" % slot)
                if k == 3:
                    ops.append("blake updpat %d %d %d" % (slot, 5, seed))
                    ops.append("blake reset %d" % slot)
                    ops.append("blake fin %d" % slot)
                stats["lengths"][n] = stats["lengths"].get(n, 0) + 1
                stats["variants"][bits] = stats["variants"].get(bits, 0) + 1
            # injected counters (C17 flavour): carries of t.0, and the checked `t.1 += 1`
            W = 2 ** w
            ctrs = [(W - 8 * b, 0), (W - 8 * b + 8, 5), (W - 8, 0), (W - 16, W - 2), (W - 8 * b, W - 1),
                    (W - 8, W - 1), (0, W - 1), (W // 2, 7), (W - 512, W - 1), (12345 * 8, 3)]
            for (t0, t1) in ctrs:
                slot = (slot + 1) % 8
                ops.append("blake new %d %d" % (slot, bits))
                pre = rng.choice([0, 1, b - 1, 17])
                ops.append("blake updpat %d %d %d" % (slot, pre, rng.below(1000)))
                ops.append("blake setctr %d %d %d" % (slot, t0, t1))
                ops.append("blake fin %d" % slot)
                ops.append("blake clone %d %d" % (slot, (slot + 1) % 8))
                ops.append("blake updpat %d %d %d" % ((slot + 1) % 8, rng.choice([b - pre, b, 2 * b + 3]), rng.below(1000)))
                # the block that was just compressed is the one on which the counter word wraps: its
                # effect must be observed (digest), not only the counter read back
                # (not at the format limit t.1 = 2^w - 1, where the debug build panics half-way through
                # `increase_count` and the object is left partially updated — outside the property)
                if t1 != W - 1:
                    ops.append("blake getctr %d" % ((slot + 1) % 8))
                    ops.append("blake fin %d" % ((slot + 1) % 8))
                # the slot may have panicked half-way (debug): only look at it again if it did not
                ops.append("blake new %d %d" % ((slot + 2) % 8, bits))
                ops.append("blake setctr %d %d %d" % ((slot + 2) % 8, t0, t1))
                ops.append("blake updpat %d %d %d" % ((slot + 2) % 8, 1, 3))
                ops.append("blake getctr %d" % ((slot + 2) % 8))
                ops.append("blake fin %d" % ((slot + 2) % 8))
                slot = (slot + 2) % 8
                stats["counter_states"] += 1
        # component: put_block::<M> on random (h, block, t)
        npb = 12 if tier == "quick" else 100
        for ws, hb, bb, w in (("256", 32, 64, 32), ("512", 64, 128, 64)):
            for i in range(npb):
                h = struct_bytes(rng, hb)
                blk = struct_bytes(rng, bb)
                k = rng.below(5)
                if k == 0:
                    t0, t1 = 0, 0
                elif k == 1:
                    t0, t1 = 2 ** w - 1, 2 ** w - 1
                elif k == 2:
                    t0, t1 = 512 * rng.below(1000), 0
                else:
                    t0, t1 = rng.below(2 ** w), rng.below(2 ** w)
                ops.append("blake putblock %s %s %s %d %d" % (ws, hx(h), hx(blk), t0, t1))
                stats["putblock"] += 1
    return [o for o in ops if o], stats


GENS.update({"C01": gen_C01, "C04": gen_C04})
# --------------------------------------------------------------------------- ppv-lite86 SIMD layer (C12, C13, C03)

SIMD_TYPES = {"u32x4": (128, 32, 4), "u64x2": (128, 64, 2), "u128x1": (128, 128, 1),
              "u32x4x2": (256, 128, 2), "u64x2x2": (256, 128, 2), "u64x4": (256, 64, 4), "u128x2": (256, 128, 2),
              "u32x4x4": (512, 128, 4), "u64x2x4": (512, 128, 4), "u128x4": (512, 128, 4)}
X86_BACKENDS = ["sse2", "ssse3", "sse41", "avx", "avx2"]
_BIT0 = ["xor", "and", "or", "andnot", "not"]
_ROT32 = ["rotr%d" % k for k in (7, 8, 11, 12, 16, 20, 24, 25)]
_ROT64 = _ROT32 + ["rotr32"]
_ARITH = ["add", "bswap"]
_VEC = ["extract", "insert"]
_LANES = ["to_lanes", "from_lanes"]
_BYTES = ["read_le", "read_be", "write_le", "write_be"]
_W4 = ["shuffle1230", "shuffle2301", "shuffle3012"]
_LW4 = ["shuffle_lane_words1230", "shuffle_lane_words2301", "shuffle_lane_words3012"]
_SWAP = ["swap%d" % k for k in (1, 2, 4, 8, 16, 32, 64)]
# mirrors CC.Simd.required (trait bounds of types.rs)
SIMD_REQUIRED = {
    "u32x4": _BIT0 + _ROT32 + _ARITH + _VEC + _W4 + _LW4 + _BYTES + _LANES,
    "u64x2": _BIT0 + _ROT64 + _ARITH + _VEC + _LANES,
    "u128x1": _BIT0 + _ROT64 + _SWAP + _LANES,
    "u32x4x2": _BIT0 + _ROT32 + _VEC + _LANES + _ARITH + _BYTES,
    "u64x2x2": _BIT0 + _ROT64 + _VEC + _LANES + _ARITH + _BYTES,
    "u64x4": _BIT0 + _ROT64 + _VEC + _LANES + _ARITH + _W4 + _BYTES,
    "u128x2": _BIT0 + _ROT64 + _VEC + _LANES + _SWAP,
    "u32x4x4": _BIT0 + _ROT32 + _VEC + ["transpose4", "to_scalars"] + _LANES + _ARITH + _LW4 + _BYTES,
    "u64x2x4": _BIT0 + _ROT64 + _VEC + _LANES + _ARITH,
    "u128x4": _BIT0 + _ROT64 + _VEC + _LANES + _SWAP,
}
ALL_SIMD_OPS = _BIT0 + _ROT64 + _ARITH + _VEC + _LANES + _BYTES + _W4 + _LW4 + _SWAP + ["transpose4", "to_scalars"]
MOVE_OPS = set(_VEC + _LANES + _BYTES + ["transpose4", "to_scalars"])


def simd_extras(b, t):
    """mirrors CC.Simd.extras"""
    if t in ("u64x2", "u64x2x4"):
        return list(_BYTES)
    if t == "u32x4x2":
        return list(_LW4)
    if t in ("u128x1", "u128x2", "u128x4"):
        return ["bswap"] + (["add"] if b == "generic" else list(_BYTES))
    return []


def simd_provided(b, t):
    return SIMD_REQUIRED[t] + simd_extras(b, t)


def simd_backends(cfg):
    return ["generic"] if cfg.startswith("nosimd") else list(X86_BACKENDS)


def simd_operand(rng, nbytes, k):
    """operand catalogue: k selects the shape; k >= 8 is random"""
    if k == 0:
        return bytes(range(nbytes))                    # byte-counting: every reordering is visible
    if k == 1:
        return bytes(nbytes)
    if k == 2:
        return b"\xff" * nbytes
    if k == 3:
        b = bytearray(nbytes)
        bit = rng.below(8 * nbytes)
        b[bit // 8] = 1 << (bit % 8)
        return bytes(b)
    if k == 4:                                         # carry patterns: words of all ones among random
        b = bytearray(rng.bytes(nbytes))
        for w in range(nbytes // 4):
            if rng.below(2):
                b[4 * w:4 * w + 4] = b"\xff\xff\xff\xff"
        return bytes(b)
    if k == 5:
        return bytes((0x80 + i) & 0xff for i in range(nbytes))   # counting with the high bit set
    if k == 6:
        return bytes((0xf0 - 3 * i) & 0xff for i in range(nbytes))
    if k == 7:                                         # 0x00000001 words (carry in from the neighbour)
        b = bytearray(nbytes)
        for w in range(nbytes // 4):
            b[4 * w] = 1
        return bytes(b)
    return rng.bytes(nbytes)


def simd_op_lines(rng, b, t, op, n):
    """n protocol lines for one (backend, type, op) triple"""
    bits, ebits, cnt = SIMD_TYPES[t]
    nb, eb = bits // 8, ebits // 8
    pre = "simd %s %s %s" % (b, t, op)
    out = []
    for j in range(n):
        k = j if j < 8 else 8
        x = simd_operand(rng, nb, k)
        if op in ("add", "xor", "and", "or", "andnot"):
            y = simd_operand(rng, nb, (j * 5 + 2) % 11)
            if j == 2:
                y = bytes([1] + [0] * (nb - 1))        # all-ones + 1: the carry must stop at the word boundary
            out.append("%s %s %s" % (pre, x.hex(), y.hex()))
        elif op == "extract":
            out.append("%s %s %d" % (pre, x.hex(), j % cnt))
        elif op == "insert":
            w = simd_operand(rng, eb, (j * 3 + 1) % 11)
            if j < 2:
                w = bytes((0xa0 + i) & 0xff for i in range(eb))
            out.append("%s %s %s %d" % (pre, x.hex(), w.hex(), (j // 2) % cnt if j < 2 * cnt else rng.below(cnt)))
        elif op == "from_lanes":
            out.append(pre + " " + " ".join(x[i * eb:(i + 1) * eb].hex() for i in range(cnt)))
        elif op == "transpose4":
            xs = [x] + [simd_operand(rng, nb, 8 if j else 5 + i) for i in range(3)]
            if j == 0:
                xs = [bytes((64 * i + q) & 0xff for q in range(64)) for i in range(4)]
            out.append(pre + " " + " ".join(v.hex() for v in xs))
        else:
            out.append("%s %s" % (pre, x.hex()))
    if op not in ("add", "xor", "and", "or", "andnot", "extract", "insert", "from_lanes", "transpose4"):
        # operands whose LANES REPEAT (rule 19 for one-operand operations): at every lane width from 32 bits up to half
        # the vector, the lane sequence a a a a.. / a b a b.. / a a b b.. / a b b a.. — a shortcut that tests "is this
        # permutation the identity on this operand" with an incomplete predicate is wrong exactly on these
        lw = 4
        while lw * 2 <= nb:
            cnt_l = nb // lw
            a, b2 = rng.bytes(lw), rng.bytes(lw)
            pats = [[0] * cnt_l, [i % 2 for i in range(cnt_l)], [(i // 2) % 2 for i in range(cnt_l)],
                    [(0, 1, 1, 0)[i % 4] for i in range(cnt_l)]]
            for pat in pats:
                x = b"".join(b2 if t else a for t in pat)
                out.append("%s %s" % (pre, x.hex()))
            lw *= 2
    if op in ("add", "xor", "and", "or", "andnot"):
        # RELATED operand pairs (rule 19 for two-operand operations): y = x, ~x, -x, and — at every group width w from
        # 16 bits up to the whole vector — the pair whose low half-groups sum to exactly 2^(w/2) (carry out) while the
        # high half-groups sum to all ones: a hand-rolled carry (`hi + carry`) overflows / goes wrong only there
        xi = int.from_bytes(simd_operand(rng, nb, 8), "little")
        full = (1 << (8 * nb)) - 1
        rel = [xi, xi ^ full, (-xi) & full]
        w = 16
        while w <= 8 * nb:
            h, y = w // 2, 0
            for g in range(8 * nb // w):
                xg = (xi >> (g * w)) & ((1 << w) - 1)
                xl, xh = xg & ((1 << h) - 1), xg >> h
                yl = ((1 << h) - xl) & ((1 << h) - 1) if xl else (1 << h) - 1
                yh = xh ^ ((1 << h) - 1)
                y |= ((yh << h) | yl) << (g * w)
            rel.append(y)
            w *= 2
        for y in rel:
            out.append("%s %s %s" % (pre, xi.to_bytes(nb, "little").hex(), y.to_bytes(nb, "little").hex()))
            out.append("%s %s %s" % (pre, y.to_bytes(nb, "little").hex(), xi.to_bytes(nb, "little").hex()))
    if op in ("extract", "insert"):                    # out-of-range index: every backend panics
        x = simd_operand(rng, nb, 0)
        if op == "extract":
            out.append("%s %s %d" % (pre, x.hex(), cnt))
        else:
            out.append("%s %s %s %d" % (pre, x.hex(), bytes(eb).hex(), cnt))
    if op in ("read_le", "read_be"):                   # wrong length: assert / unwrap panics
        out.append("%s %s" % (pre, bytes(range(nb - 1)).hex()))
    return out


INTRIN_SIGS = {
    # name: operand kinds (v=128, w=256, q=64, d=32, b=8, i8=imm 0..255, i1, i2)
    "_mm_add_epi32": "vv", "_mm_add_epi64": "vv", "_mm_and_si128": "vv", "_mm_or_si128": "vv",
    "_mm_xor_si128": "vv", "_mm_andnot_si128": "vv", "_mm_shuffle_epi8": "vv", "_mm_unpacklo_epi8": "vv",
    "_mm_unpackhi_epi8": "vv", "_mm_packus_epi16": "vv",
    "_mm_srli_epi16": "vI", "_mm_slli_epi16": "vI", "_mm_srli_epi32": "vI", "_mm_slli_epi32": "vI",
    "_mm_srli_epi64": "vI", "_mm_slli_epi64": "vI", "_mm_srli_si128": "vI", "_mm_slli_si128": "vI",
    "_mm_shuffle_epi32": "vI", "_mm_shufflelo_epi16": "vI", "_mm_shufflehi_epi16": "vI",
    "_mm_alignr_epi8": "vvI", "_mm_set_epi64x": "qq", "_mm_set_epi32": "dddd", "_mm_set1_epi8": "b",
    "_mm_set1_epi64x": "q", "_mm_setzero_si128": "", "_mm_cvtsi64_si128": "q", "_mm_cvtsi128_si64": "v",
    "_mm_cvtsi32_si128": "d", "_mm_extract_epi64": "v1", "_mm_insert_epi64": "vq1", "_mm_insert_epi32": "vd2",
    "_mm_move_epi64": "v", "_mm_loadu_si128": "v", "_mm_storeu_si128": "v",
    "_mm256_add_epi32": "ww", "_mm256_and_si256": "ww", "_mm256_or_si256": "ww", "_mm256_xor_si256": "ww",
    "_mm256_andnot_si256": "ww", "_mm256_shuffle_epi8": "ww", "_mm256_srli_epi32": "wI", "_mm256_slli_epi32": "wI",
    "_mm256_shuffle_epi32": "wI", "_mm256_permute2x128_si256": "wwI", "_mm256_extracti128_si256": "w1",
    "_mm256_inserti128_si256": "wv1", "_mm256_setr_m128i": "vv", "_mm256_set1_epi8": "b", "_mm256_set_epi64x": "qqqq",
    "_mm256_loadu_si256": "w", "_mm256_storeu_si256": "w",
}
# immediates the repository uses (always generated), the rest of 0..255 sampled / enumerated
REPO_IMMS = [0, 1, 2, 4, 7, 8, 11, 12, 16, 20, 24, 25, 32, 0x1b, 0x20, 0x31, 0x39, 0x4e, 0x78, 0x93, 0xb1, 0xb4, 0xc9, 0xe1, 0xee,
             64 - 7, 64 - 8, 64 - 11, 64 - 12, 64 - 16, 64 - 20, 64 - 24, 64 - 25]


def intrin_lines(rng, tier):
    out = []
    n = 12 if tier == "quick" else 200
    size = {"v": 16, "w": 32, "q": 8, "d": 4, "b": 1}
    for name, sig in INTRIN_SIGS.items():
        imms = [None]
        if "I" in sig:
            imms = list(range(256)) if tier != "quick" else sorted(set(REPO_IMMS + [rng.below(256) for _ in range(24)] + [15, 31, 63, 65, 128, 255]))
        elif "1" in sig:
            imms = [0, 1]
        elif "2" in sig:
            imms = [0, 1, 2, 3]
        reps = n if imms == [None] else max(2, n // 4)
        for im in imms:
            for j in range(reps):
                toks = ["intrin", name]
                for c in sig:
                    if c in size:
                        k = j if j < 8 else 8
                        if name in ("_mm_shuffle_epi8", "_mm256_shuffle_epi8") and len(toks) == 3 and j % 2 == 1:
                            k = 8                      # random control bytes incl. the high-bit rule
                        toks.append(simd_operand(rng, size[c], (k + len(toks)) % 9 if j else 0).hex())
                    else:
                        toks.append(str(im))
                out.append(" ".join(toks))
    return out


def _gen_simd(rng, tier, cfg, select, with_intrin):
    n = 30 if tier == "quick" else 1000
    ops = []
    stats = {"backends": simd_backends(cfg), "triples": 0, "operands_per_triple": n, "by_op": {}, "intrin_ops": 0}
    for b in stats["backends"]:
        for t in SIMD_TYPES:
            prov = simd_provided(b, t)
            for op in ALL_SIMD_OPS:
                if not select(op):
                    continue
                if op in prov:
                    ls = simd_op_lines(rng, b, t, op, n)
                    stats["triples"] += 1
                    stats["by_op"][op] = stats["by_op"].get(op, 0) + len(ls)
                    ops += ls
                else:
                    # not provided: both sides must say `unsupported`
                    ops += simd_op_lines(rng, b, t, op, 1)[:1]
    if with_intrin and not cfg.startswith("nosimd"):
        ls = intrin_lines(rng, tier)
        stats["intrin_ops"] = len(ls)
        ops += ls
    return ops, stats


def gen_C12(rng, tier, cfg):
    """word-wise operations (+ the intrinsics themselves)"""
    return _gen_simd(rng, tier, cfg, lambda op: op not in MOVE_OPS, True)


def gen_C13(rng, tier, cfg):
    """data movement: lanes, insert/extract, transpose, scalars, byte I/O"""
    return _gen_simd(rng, tier, cfg, lambda op: op in MOVE_OPS, False)


def gen_C03(rng, tier, cfg):
    """backend half of C03: the same operand through every available backend (one model answer
    each), then the ChaCha stream / block API under every `cfg backend`."""
    n = 6 if tier == "quick" else 100
    bes = simd_backends(cfg)
    ops = []
    stats = {"backends": bes, "simd_ops": 0, "chacha_ops": 0}
    for t in SIMD_TYPES:
        for op in ALL_SIMD_OPS:
            if op not in simd_provided(bes[0], t):
                continue
            sub = XorShift(rng.next())
            lines = simd_op_lines(sub, "@", t, op, n)
            for l in lines:
                for b in bes:
                    if op in simd_provided(b, t):
                        ops.append(l.replace("simd @", "simd " + b, 1))
                        stats["simd_ops"] += 1
    slot = 0
    cbes = ["generic"] if cfg.startswith("nosimd") else ["sse2", "ssse3", "sse41", "avx", "avx2"]
    nk = 1 if tier == "quick" else 4
    for v in VARIANTS:
        for _ in range(nk):
            key = struct_bytes(rng, 32)
            nonce = struct_bytes(rng, NONCE[v])
            plan = []
            for p in [0, 64 * 3 + 5, rng.below(2**20), (2**32 - 2) * 64 + 9]:
                if p + 600 < limit(v):
                    plan.append((p, rng.choice([64, 255, 256, 257, 512, 577]), rng.below(1000)))
            for be in cbes:
                ops.append("cfg backend %s" % be)
                ops.append("chacha new %d %s %s %s" % (slot, v, hx(key), hx(nonce)))
                for (p, ln, sd) in plan:
                    ops.append("chacha seek %d u64 %d" % (slot, p))
                    ops.append("chacha applypat %d %d %d" % (slot, ln, sd))
                    stats["chacha_ops"] += 2
    # block API (refill / refill4) per backend
    for _ in range(2 if tier == "quick" else 20):
        key = struct_bytes(rng, 32)
        nonce = struct_bytes(rng, 12)
        for be in cbes:
            ops.append("cfg backend %s" % be)
            ops.append("guts new 0 %s %s" % (hx(key), hx(nonce)))
            for dr in (4, 6, 10):
                ops.append("guts refill 0 %d" % dr)
                ops.append("guts refill4 0 %d" % dr)
                stats["chacha_ops"] += 2
    return ops, stats


GENS.update({"C01": gen_C01, "C12": gen_C12, "C13": gen_C13, "C03": gen_C03})


# --------------------------------------------------------------------------- C06 (JH) + JH part of C17

JH_SIZES = [224, 256, 384, 512]
JH_LENS_QUICK = [0, 1, 2, 55, 56, 57, 63, 64, 65, 111, 112, 119, 120, 121, 127, 128, 129,
                 191, 192, 193, 200, 255, 256, 257, 319, 320, 321, 511, 512, 513]


def jh_split(rng, n):
    """split n bytes into update pieces (boundaries around the 64-byte block size)"""
    k = rng.below(6)
    if k == 0 or n == 0:
        return [n]
    if k == 1:
        a = rng.below(n + 1)
        return [a, n - a]
    if k == 2:   # byte by byte up to a point, then the rest
        a = min(n, 1 + rng.below(70))
        return [1] * a + ([n - a] if n > a else [])
    if k == 3:   # pieces of 63/64/65
        out = []
        left = n
        while left > 0:
            c = min(left, rng.choice([63, 64, 65, 1, 128, 7]))
            out.append(c)
            left -= c
        return out
    if k == 4:   # an empty update in the middle
        a = rng.below(n + 1)
        return [a, 0, n - a]
    out = []
    left = n
    while left > 0:
        c = min(left, 1 + rng.below(150))
        out.append(c)
        left -= c
    return out


def gen_C06(rng, tier, cfg):
    backends = backends_for(cfg, tier)
    ops = []
    stats = {"sizes": {}, "lengths": {}, "f8": 0, "specf8": 0, "spechash": 0, "splits": 0,
             "counter_injections": 0, "backends": list(backends)}
    if tier == "quick":
        lens = list(JH_LENS_QUICK)
    else:
        lens = list(range(0, 201)) + [k * 64 + d for k in range(4, 17) for d in (-1, 0, 1)] + [1000, 1023, 1024, 1025, 4096, 4097]
    slot = 0
    nf8 = 6 if tier == "quick" else 40
    for bi, be in enumerate(backends):
        ops.append("cfg backend %s" % be)
        # --- compression function component: f8_impl::<M> on (state, block)
        for t in range(nf8):
            st = struct_bytes(rng, 128)
            blk = struct_bytes(rng, 64)
            ops.append("jh f8 %s %s" % (hx(st), hx(blk)))
            stats["f8"] += 1
        ops.append("jh f8 %s %s" % ("00" * 128, "00" * 64))
        ops.append("jh f8 %s %s" % ("ff" * 128, "ff" * 64))
        stats["f8"] += 2
        # --- hashers: one-shot and split updates
        for n in rot(JH_SIZES, cfg):
            ops.extend(boundary_feed_ops("jh", str(n), 64, rng))
            stats["boundary_feeds"] = stats.get("boundary_feeds", 0) + 1
            use = lens if (tier != "quick" or bi == 0) else [rng.choice(lens) for _ in range(8)]
            for ln in use:
                slot = (slot + 1) % 8
                ops.append("jh new %d %d" % (slot, n))
                pieces = jh_split(rng, ln)
                if len(pieces) > 1:
                    stats["splits"] += 1
                seed = rng.below(100000)
                if ln <= 160 and rng.below(3) == 0:
                    data = struct_bytes(rng, ln)
                    off = 0
                    for c in pieces:
                        ops.append("jh update %d %s" % (slot, hx(data[off:off + c])))
                        off += c
                elif len(pieces) == 1:
                    ops.append("jh updpat %d %d %d" % (slot, ln, seed))
                else:
                    for i, c in enumerate(pieces):
                        ops.append("jh updpat %d %d %d" % (slot, c, seed + i))
                k = rng.below(8)
                if k == 0:
                    ops.append("jh getctr %d" % slot)
                    ops.append("jh getstate %d" % slot)
                if k == 1:
                    ops.append("jh clone %d %d" % (slot, 9))
                    ops.append("jh updpat 9 %d %d" % (rng.below(130), seed + 77))
                    ops.append("jh fin 9")
                ops.append("jh fin %d" % slot)
                if k == 2:
                    # finalize does not disturb the instance; keep absorbing
                    ops.append("jh updpat %d %d %d" % (slot, rng.below(130), seed + 99))
                    ops.append("jh fin %d" % slot)
                if k == 3:
                    ops.append("jh finreset %d" % slot)
                    ops.append("jh getctr %d" % slot)
                    ops.append("jh updpat %d %d %d" % (slot, rng.below(130), seed + 5))
                    ops.append("jh finreset %d" % slot)
                if k == 4:
                    ops.append("jh reset %d" % slot)
                    ops.append("jh fin %d" % slot)
                if k == 5:
                    # dirty finalisation followed by more input (model of the dirty buffer state)
                    ops.append("jh findirty %d" % slot)
                    ops.append("jh getstate %d" % slot)
                    ops.append("jh updpat %d %d %d" % (slot, rng.below(130), seed + 3))
                    ops.append("jh fin %d" % slot)
                stats["lengths"][ln] = stats["lengths"].get(ln, 0) + 1
                stats["sizes"][n] = stats["sizes"].get(n, 0) + 1
        # --- counter (JH part of C17): injected datalen, random tail, finalisation
        ctrs = [2**29, 2**32 - 1, 2**32, 2**32 + 63, 2**61 - 200, 2**61 - 1, 2**61, 2**61 + 5, 2**63, 2**64 - 1, 2**64 - 64]
        for n in (JH_SIZES if tier != "quick" else [rng.choice(JH_SIZES), 256]):
            for c in ctrs:
                slot = (slot + 1) % 8
                ops.append("jh new %d %d" % (slot, n))
                ops.append("jh updpat %d %d %d" % (slot, rng.below(100), rng.below(1000)))
                ops.append("jh setctr %d %d" % (slot, c))
                ops.append("jh updpat %d %d %d" % (slot, rng.choice([0, 1, 63, 64, 65, 100, 199]), rng.below(1000)))
                ops.append("jh getctr %d" % slot)
                ops.append("jh fin %d" % slot)
                ops.append("jh finreset %d" % slot)
                ops.append("jh getctr %d" % slot)
                stats["counter_injections"] += 1
    # --- Spec-side evaluation through the driver (`specf8`, `spechash`): the harness answers with the
    #     real code, the driver with the *specification*, so these lines compare code and spec directly.
    ops.append("cfg backend %s" % backends[0])
    for t in range(4 if tier == "quick" else 24):
        ops.append("jh specf8 %s %s" % (hx(struct_bytes(rng, 128)), hx(struct_bytes(rng, 64))))
        stats["specf8"] += 1
    for n in JH_SIZES:
        for ln in ([0, 1, 63, 64, 65, 128, 150] if tier == "quick" else [0, 1, 55, 56, 63, 64, 65, 119, 120, 127, 128, 129, 191, 192, 193, 200]):
            ops.append("jh spechash %d %s" % (n, hx(struct_bytes(rng, ln))))
            stats["spechash"] += 1
    return ops, stats


GENS["C06"] = gen_C06
# --------------------------------------------------------------------------- C07 (Grøstl)

G_BITS = [224, 256, 384, 512]


def g_block(bits):
    return 64 if bits <= 256 else 128


def g_feed(rng, ops, slot, n, stats, allow_hex=True):
    """absorb n bytes into `slot` in one or several updates (hex for structured short data, pattern otherwise)"""
    pieces = []
    left = n
    k = rng.below(4)
    if k == 0 or n == 0:
        pieces = [n]
    else:
        while left > 0:
            c = rng.choice([1, 7, 8, 9, 55, 56, 63, 64, 65, 119, 120, 127, 128, 129, 200, left])
            c = min(c, left)
            if rng.below(6) == 0:
                pieces.append(0)
            pieces.append(c)
            left -= c
    for c in pieces:
        if allow_hex and c <= 160 and rng.below(3) != 0:
            ops.append("groestl update %d %s" % (slot, hx(struct_bytes(rng, c))))
        else:
            ops.append("groestl updpat %d %d %d" % (slot, c, rng.below(100000)))
    stats["updates"] += len(pieces)


def gen_C07(rng, tier, cfg):
    ops = []
    stats = {"lengths": {}, "updates": 0, "spec_ops": 0, "counter_cases": 0, "variants": list(G_BITS)}
    base = [0, 1, 54, 55, 56, 57, 63, 64, 65, 119, 120, 121, 127, 128, 129]
    for bits in rot(G_BITS, cfg):
        b = g_block(bits)
        ops.extend(boundary_feed_ops("groestl", str(bits), b, rng))
        stats["boundary_feeds"] = stats.get("boundary_feeds", 0) + 1
        lens = set(base)
        for k in (1, 2, 3):
            for d in (9, 8, 7):
                lens.add(k * b - d)
        if tier == "thorough":
            lens.update(range(0, 301))
            lens.update([1000, 1023, 1024, 2048 - 9, 2048 - 8, 4096, 5000])
            for _ in range(20):
                lens.add(rng.below(3000))
        else:
            lens.update([300, 1000, 4096])
            for _ in range(4):
                lens.add(rng.below(1500))
        slot = 0
        ops.append("groestl new 0 %d" % bits)
        for n in sorted(lens):
            stats["lengths"][n] = stats["lengths"].get(n, 0) + 1
            how = rng.below(5)
            if how == 0:
                # fresh object
                ops.append("groestl new 0 %d" % bits)
            elif how == 1:
                ops.append("groestl reset 0")
            # otherwise slot 0 was left reset by the previous finreset
            g_feed(rng, ops, 0, n, stats)
            k = rng.below(4)
            if k == 0:
                # clone, diverge, finalize both
                ops.append("groestl clone 0 1")
                g_feed(rng, ops, 1, rng.choice([0, 1, b - 9, b - 8, b, 77]), stats)
                ops.append("groestl fin 1")
                ops.append("groestl finreset 1")
                ops.append("groestl fin 1")       # state after reset = empty message
            ops.append("groestl getctr 0")
            ops.append("groestl fin 0")
            if k == 1:
                # finalising a copy must not disturb the original
                g_feed(rng, ops, 0, rng.choice([0, 3, b]), stats)
                ops.append("groestl fin 0")
            ops.append("groestl finreset 0")
            ops.append("groestl getctr 0")
        # specification vs real code, directly
        slens = [0, 1, 3, b - 9, b - 8, b - 7, b - 1, b, b + 1, 2 * b - 9, 2 * b - 8, 2 * b, 2 * b + 1]
        if tier == "thorough":
            slens = sorted(set(slens + list(range(0, 2 * b + 2)) + [3 * b - 8, 300, 500]))
        for n in slens:
            ops.append("groestl spec %d %s" % (bits, hx(struct_bytes(rng, n))))
            stats["spec_ops"] += 1
        # block counter boundaries (hook-injected counter, then a tail and finalisation)
        ctrs = [254, 255, 256, 65535, 65536, 2**32 - 1, 2**32, 2**63 - 1, 2**63, 2**64 - 3, 2**64 - 2, 2**64 - 1]
        tails = [0, 1, b - 9, b - 8, b - 1, b, b + 1, 2 * b - 8, 2 * b, 3 * b + 5]
        for c in ctrs:
            ts = tails if (tier == "thorough" or c >= 2**64 - 3) else [rng.choice(tails) for _ in range(3)]
            for t in ts:
                ops.append("groestl new 2 %d" % bits)
                pre = rng.choice([0, 0, 5, b - 8, b, b + 3])
                g_feed(rng, ops, 2, pre, stats)
                ops.append("groestl setctr 2 %d" % c)
                ops.append("groestl updpat 2 %d %d" % (t, rng.below(1000)))
                ops.append("groestl getctr 2")
                ops.append("groestl fin 2")
                ops.append("groestl clone 2 3")
                ops.append("groestl finreset 3")
                ops.append("groestl getctr 3")
                # keep going on the original (also after a caught overflow panic)
                ops.append("groestl updpat 2 %d %d" % (rng.choice([0, 1, b - 8, b]), rng.below(1000)))
                ops.append("groestl getctr 2")
                ops.append("groestl fin 2")
                stats["counter_cases"] += 1
    return ops, stats


GENS.update({"C01": gen_C01, "C07": gen_C07})


# ---- the EQUALITY implementations of the vector library (`simd .. eq`, compare intrinsics, `guts eqd`): tools/gens_simdeq.py
import gens_simdeq as _EQG; _EQG.install(globals())
