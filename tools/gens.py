"""Operation generators, one per property.  Each returns (ops, stats) where ops is a list of
protocol lines and stats a dict describing the distribution actually generated."""
from cclib import XorShift

VARIANTS = ["chacha8", "chacha12", "chacha20", "ietf", "xchacha8", "xchacha12", "xchacha20"]
NONCE = {"chacha8": 8, "chacha12": 8, "chacha20": 8, "ietf": 12, "xchacha8": 24, "xchacha12": 24, "xchacha20": 24}
SEEKTYS = {"u8": (0, 2**8 - 1), "u16": (0, 2**16 - 1), "u32": (0, 2**32 - 1), "u64": (0, 2**64 - 1),
           "u128": (0, 2**128 - 1), "usize": (0, 2**64 - 1), "i32": (-2**31, 2**31 - 1)}
LENS = [0, 1, 2, 31, 63, 64, 65, 127, 128, 129, 191, 192, 193, 255, 256, 257, 300, 319, 320, 321,
        511, 512, 513, 575, 576, 577, 1023, 1024, 1100]


def limit(v):
    return 2**38 if v == "ietf" else 2**70


def struct_bytes(rng, n):
    """structured byte strings: random, zero, ones, single bit, counting"""
    k = rng.below(10)
    if k < 5:
        return rng.bytes(n)
    if k == 5:
        return bytes(n)
    if k == 6:
        return b"\xff" * n
    if k == 7:
        b = bytearray(n)
        if n:
            bit = rng.below(8 * n)
            b[bit // 8] = 1 << (bit % 8)
        return bytes(b)
    if k == 8:
        return bytes((i * 7 + 3) & 0xff for i in range(n))
    b = bytearray(rng.bytes(n))
    # a word of all ones (carry patterns)
    if n >= 4:
        w = rng.below(n // 4)
        b[4 * w:4 * w + 4] = b"\xff\xff\xff\xff"
    return bytes(b)


def hx(b):
    return b.hex() if len(b) else "-"


def positions(rng, v, tier):
    lim = limit(v)
    base = [0, 1, 5, 63, 64, 65, 127, 128, 255, 256, 257, 1000]
    out = list(base)
    # low counter word carry: block counter around 2^32
    for r in (-257, -256, -200, -65, -64, -1, 0, 1, 63, 64, 65, 130):
        p = 2**32 * 64 + r
        if p < lim:
            out.append(p)
    if v == "ietf":
        for r in (1, 2, 63, 64, 65, 128, 255, 256, 257, 300, 513, 1100, 1101):
            out.append(2**38 - r)
        out.append(2**38)
        out.append(2**37 + 17)
    else:
        for r in (1, 2, 63, 64, 65, 256, 257, 1100, 1101, 70000):
            out.append(2**64 - r)
        out.append(2**63 + 11)
        out.append((2**32 - 3) * 64 + 7)   # wide path crosses the 2^32 block boundary
    n = 6 if tier == "quick" else 40
    for _ in range(n):
        out.append(rng.below(min(lim, 2**64)))
    return out


def backends_for(cfg, tier):
    if cfg.startswith("nosimd"):
        return ["generic"]
    if tier == "quick":
        return ["ref", "sse2"]
    return ["ref", "sse2", "ssse3", "sse41", "avx", "avx2"]


def gen_C01(rng, tier, cfg):
    backends = backends_for(cfg, tier)
    ops = []
    stats = {"variants": {}, "positions": 0, "lengths": {}, "backends": list(backends)}
    nk = 2 if tier == "quick" else 8
    slot = 0
    for be in backends:
        ops.append("cfg backend %s" % be)
        for v in VARIANTS:
            for _ in range(nk):
                key = struct_bytes(rng, 32)
                nonce = struct_bytes(rng, NONCE[v])
                ops.append("chacha new %d %s %s %s" % (slot, v, hx(key), hx(nonce)))
                ps = positions(rng, v, tier)
                if tier == "quick":
                    ps = [rng.choice(ps) for _ in range(10)] + ps[:4]
                for p in ps:
                    ln = rng.choice(LENS)
                    if p + ln > limit(v):
                        ln = max(0, limit(v) - p)
                    if p > 2**64 - 1:
                        continue
                    ops.append("chacha seek %d u64 %d" % (slot, p))
                    if rng.below(4) == 0 and ln <= 128:
                        ops.append("chacha apply %d %s" % (slot, hx(struct_bytes(rng, ln))))
                    else:
                        ops.append("chacha applypat %d %d %d" % (slot, ln, rng.below(1000)))
                    stats["positions"] += 1
                    stats["lengths"][ln] = stats["lengths"].get(ln, 0) + 1
                    stats["variants"][v] = stats["variants"].get(v, 0) + 1
    return ops, stats


GENS = {"C01": gen_C01}


# ----------------------------------------------------------------------------- C02 / C11

def seek_op(rng, slot, p, tyhint=None):
    """seek to p with a SeekNum type that can hold it (or the hinted one)."""
    tys = [t for t, (lo, hi) in SEEKTYS.items() if lo <= p <= hi]
    t = tyhint if tyhint in tys else rng.choice(tys)
    return "chacha seek %d %s %d" % (slot, t, p)


def history(rng, v, slot, n, near=None, stats=None):
    """random walk over {seek, apply, failed apply, pos, clone} for variant v."""
    ops = []
    lim = limit(v)
    pos = 0
    for _ in range(n):
        k = rng.below(20)
        if k < 5:
            # seek
            c = rng.below(8)
            if near is not None and c < 5:
                p = near + rng.below(700) - 400
            elif c < 3:
                p = rng.choice([0, 1, 5, 63, 64, 65, 100, 255, 256, 257, 300])
            elif c < 6:
                p = rng.below(2**20)
            else:
                p = rng.below(min(lim, 2**64))
            p = max(0, min(p, min(lim, 2**64 - 1)))
            ops.append(seek_op(rng, slot, p))
            pos = p
            if stats is not None:
                stats["seek"] = stats.get("seek", 0) + 1
                stats["midblock_seek"] = stats.get("midblock_seek", 0) + (1 if p % 64 else 0)
        elif k < 15:
            ln = rng.choice(LENS + [3, 7, 17, 40, 60, 61, 62, 66, 100, 130, 260, 700])
            ops.append("chacha applypat %d %d %d" % (slot, ln, rng.below(1000)))
            if pos + ln <= lim:
                pos += ln
                if stats is not None:
                    stats["apply_ok"] = stats.get("apply_ok", 0) + 1
            elif stats is not None:
                stats["apply_past_end"] = stats.get("apply_past_end", 0) + 1
        elif k < 18:
            t = rng.choice(list(SEEKTYS))
            ops.append("chacha pos %d %s" % (slot, t))
            if stats is not None:
                stats["pos"] = stats.get("pos", 0) + 1
        elif k == 18:
            ops.append("chacha clone %d %d" % (slot, slot + 1))
            ops.append("chacha applypat %d %d %d" % (slot + 1, rng.choice([1, 64, 65, 300]), 7))
            ops.append("chacha pos %d u128" % (slot + 1))
        else:
            # out-of-range / odd seeks
            t = rng.choice(list(SEEKTYS))
            lo, hi = SEEKTYS[t]
            val = rng.choice([lo, hi, hi - 1, max(lo, min(hi, lim)), max(lo, min(hi, lim + 1)), max(lo, min(hi, lim - 1)),
                              max(lo, min(hi, 2**64)), max(lo, min(hi, 2**64 - 1)), max(lo, -1)])
            ops.append("chacha seek %d %s %d" % (slot, t, val))
            ops.append("chacha pos %d u128" % slot)
            if stats is not None:
                stats["odd_seek"] = stats.get("odd_seek", 0) + 1
            # resynchronise our notion of pos
            ops.append(seek_op(rng, slot, min(pos, 2**64 - 1), "u64"))
    return ops


def gen_C02(rng, tier, cfg):
    backends = backends_for(cfg, tier)
    ops, stats = [], {}
    nh = 6 if tier == "quick" else 120
    hl = 25 if tier == "quick" else 40
    for be in backends[:1] if tier == "quick" else backends:
        ops.append("cfg backend %s" % be)
        for v in VARIANTS:
            for h in range(nh):
                ops.append("chacha new 0 %s %s %s" % (v, hx(struct_bytes(rng, 32)), hx(struct_bytes(rng, NONCE[v]))))
                near = None
                if h % 3 == 1:
                    near = rng.choice([2**32 * 64, 2**38] if v == "ietf" else [2**32 * 64, 2**64, 2**63])
                ops += history(rng, v, 0, hl, near, stats)
                # apply twice at one position restores the data
                p = rng.below(2**16)
                ops.append(seek_op(rng, 0, p, "u64"))
                ops.append("chacha applypat 0 %d 5" % rng.choice([1, 63, 64, 65, 300]))
    return ops, stats


def gen_C11(rng, tier, cfg):
    backends = backends_for(cfg, tier)
    ops, stats = [], {}
    nh = 8 if tier == "quick" else 100
    for be in backends[:1] if tier == "quick" else backends:
        ops.append("cfg backend %s" % be)
        for v in VARIANTS:
            lim = limit(v)
            for h in range(nh):
                n0 = rng.choice([bytes(NONCE[v]), b"\xff" * NONCE[v], struct_bytes(rng, NONCE[v])])
                ops.append("chacha new 0 %s %s %s" % (v, hx(struct_bytes(rng, 32)), hx(n0)))
                anchors = [2**38, 2**32 * 64, 0] if v == "ietf" else [2**64, 2**32 * 64, 0]
                a = anchors[h % len(anchors)]
                for _ in range(12):
                    p = a + rng.below(1200) - 900
                    p = max(0, min(p, min(lim, 2**64 - 1)))
                    ops.append(seek_op(rng, 0, p))
                    for _ in range(rng.below(3) + 1):
                        ln = rng.choice([0, 1, 2, 63, 64, 65, 128, 192, 255, 256, 257, 300, 512, 513, 700, 1100])
                        ops.append("chacha applypat 0 %d %d" % (ln, rng.below(100)))
                        ops.append("chacha pos 0 u128")
                    stats["near_%d" % a] = stats.get("near_%d" % a, 0) + 1
                # seeks with every type incl. out-of-range values
                for t, (lo, hi) in SEEKTYS.items():
                    for val in (lo, hi, lim, lim + 1, lim - 1, lim + 64, 2**64 - 1, 2**64, 2**70, -1):
                        if lo <= val <= hi:
                            ops.append("chacha seek 0 %s %d" % (t, val))
                            ops.append("chacha applypat 0 65 3")
                            ops.append("chacha pos 0 u128")
                # exact end
                if v == "ietf":
                    for back in (64, 65, 256, 300, 1):
                        ops.append("chacha seek 0 u64 %d" % (lim - back))
                        ops.append("chacha applypat 0 %d 1" % back)
                        ops.append("chacha applypat 0 1 1")
                        ops.append("chacha applypat 0 0 1")
                        ops.append("chacha seek 0 u64 0")
                        ops.append("chacha applypat 0 64 2")
    return ops, stats


# ----------------------------------------------------------------------------- C14 / C15

def gen_C14(rng, tier, cfg):
    backends = backends_for(cfg, "thorough" if tier == "thorough" else tier)
    ops, stats = [], {"counters": 0}
    reps = 3 if tier == "quick" else 30
    for be in backends:
        ops.append("cfg backend %s" % be)
        for _ in range(reps):
            for dr in range(0, 11):
                key = struct_bytes(rng, 32)
                nonce = struct_bytes(rng, 8)
                ctr = rng.choice([0, 1, 2**32 - 1, 2**32 - 2, 2**32 - 3, 2**32 - 4, 2**32 - 5, 2**32, 2**64 - 1, 2**64 - 2,
                                  2**64 - 3, 2**64 - 4, 2**64 - 5, 2**63, rng.below(2**64)])
                sid = rng.choice([0, 2**64 - 1, rng.below(2**64)])
                ops.append("guts new 0 %s %s" % (hx(key), hx(nonce)))
                ops.append("guts set 0 0 %d" % ctr)
                if rng.below(2):
                    ops.append("guts set 0 1 %d" % sid)
                ops.append("guts clone 0 1")
                ops.append("guts refill4 0 %d" % dr)
                for _ in range(4):
                    ops.append("guts refill 1 %d" % dr)
                for s in (0, 1):
                    ops.append("guts get %d 0" % s)
                    ops.append("guts get %d 1" % s)
                ops.append("guts eq64 0 1")
                ops.append("guts refill 0 0")
                ops.append("guts refill 1 0")
                stats["counters"] += 1
    return ops, stats


def gen_C15(rng, tier, cfg):
    ops, stats = [], {"pairs": 0}
    reps = 40 if tier == "quick" else 2000
    ops.append("cfg backend %s" % backends_for(cfg, tier)[0])
    for rep in range(reps):
        key = bytearray(struct_bytes(rng, 32))
        nl = rng.choice([8, 12])
        nonce = bytearray(struct_bytes(rng, nl))
        ops.append("guts new 0 %s %s" % (hx(bytes(key)), hx(bytes(nonce))))
        # second state differing in exactly one of the key/nonce words (or equal)
        k2, n2 = bytearray(key), bytearray(nonce)
        which = rng.below(14)
        if which < 8:
            k2[4 * which + rng.below(4)] ^= 1 << rng.below(8)
        elif which < 8 + nl // 4:
            n2[4 * (which - 8) + rng.below(4)] ^= 1 << rng.below(8)
        ops.append("guts new 1 %s %s" % (hx(bytes(k2)), hx(bytes(n2))))
        ops.append("guts eq32 0 1")
        ops.append("guts eq64 0 1")
        for p in (0, 1):
            val = rng.choice([0, 1, 2**32 - 1, 2**32, 2**64 - 1, rng.below(2**64)])
            ops.append("guts get 0 %d" % p)
            ops.append("guts set 0 %d %d" % (p, val))
            ops.append("guts get 0 0")
            ops.append("guts get 0 1")
            ops.append("guts eq32 0 1")
            ops.append("guts eq64 0 1")
        ops.append("guts refill 0 %d" % rng.below(11))
        ops.append("guts refill 0 0")
        if rep % 10 == 3:
            ops.append("guts set 0 %d 5" % rng.choice([2, 3, 7]))   # out-of-range parameter: panic
            ops.append("guts get 0 %d" % rng.choice([2, 3, 7]))
        stats["pairs"] += 1
    return ops, stats


GENS.update({"C02": gen_C02, "C11": gen_C11, "C14": gen_C14, "C15": gen_C15})
