#!/usr/bin/env python3
"""tools/inventory_simdport_selftest.py — negative / positive tests of tools/inventory_simdport.py (not a registered
check).  Copies generic.rs / soft.rs of /repo into a scratch tree (under the system temp dir, removed afterwards),
applies ONE edit per case, regenerates lean/CC/Gen/SimdPortSrc.lean from it and checks
  * N cases (breaking edits): the generated text CHANGES and `lake build CC.Simd.SrcPort` FAILS;
  * P cases (harmless rewrites): the generated text is BYTE-IDENTICAL to the one from /repo (nothing would rebuild).
The generated file is restored from /repo at the end.
    python3 tools/inventory_simdport_selftest.py [case ids / prefixes like N1* ...]"""
import os, re, shutil, subprocess, sys, tempfile, time
V = os.path.dirname(os.path.dirname(os.path.abspath(__file__)))
sys.path.insert(0, V + "/tools")
import inventory_simdport as SP
GEN, SOFT = SP.FILES[0][1], SP.FILES[1][1]
ROOT = os.path.join(tempfile.gettempdir(), "simdport_selftest_%d" % os.getpid())


def sub1(old, new, nth=0):
    def f(s):
        parts = s.split(old)
        assert len(parts) > nth + 1, old
        return old.join(parts[:nth + 1]) + new + old.join(parts[nth + 1:])
    return f


def allof(*fs):
    def f(s):
        for g in fs:
            s = g(s)
        return s
    return f


CASES = [
  # ---- generic.rs, breaking
  ("N01 u32x4 rotate count 7 -> 9", False, GEN, sub1("dmap(self, |x| x.rotate_right(7))", "dmap(self, |x| x.rotate_right(9))")),
  ("N02 u64x2 rotate count 25 -> 24", False, GEN, sub1("qmap(self, |x| x.rotate_right(25))", "qmap(self, |x| x.rotate_right(24))")),
  ("N03 u32x4 right12: rotate_right -> rotate_left", False, GEN, sub1("dmap(self, |x| x.rotate_right(12))", "dmap(self, |x| x.rotate_left(12))")),
  ("N04 swap16: rotate_left(16) -> rotate_right(16) (equal in value on u32; conservative: the u32x4 obligation is syntactic)", False, GEN, sub1("dmap(self, |x| x.rotate_left(16))", "dmap(self, |x| x.rotate_right(16))")),
  ("N05 swap1 mask constant", False, GEN, sub1("0x5555555555555555", "0x5555555555555554")),
  ("N06 swap2 shift count `<< 2` -> `<< 1`", False, GEN, sub1("((x & 0x3333333333333333) << 2)", "((x & 0x3333333333333333) << 1)")),
  ("N07 swap32 through the wrong view (qmap -> dmap)", False, GEN, sub1("qmap(self, |x| x.rotate_left(32))", "dmap(self, |x| x.rotate_left(32))")),
  ("N08 swap64 `x >> 64` -> `x >> 32`", False, GEN, sub1("(x << 64) | (x >> 64)", "(x << 64) | (x >> 32)")),
  ("N09 andnot: `!x & y` -> `x & !y` (operands of a non-commutative op)", False, GEN, sub1("|x, y| !x & y", "|x, y| x & !y")),
  ("N10 bitor: `x | y` -> `x ^ y`", False, GEN, sub1("omap2(self, rhs, |x, y| x | y)", "omap2(self, rhs, |x, y| x ^ y)")),
  ("N11 Add for u64x2_generic lane-wise on the 32-bit view (qmap2 -> dmap2)", False, GEN, sub1("qmap2(self, rhs, |x, y| x.wrapping_add(y))", "dmap2(self, rhs, |x, y| x.wrapping_add(y))")),
  ("N12 rotate_u128_right: `128 - i` -> `127 - i`", False, GEN, sub1("(x << (128 - i))", "(x << (127 - i))")),
  ("N13 u128x1 right24 rotates by 23", False, GEN, sub1("rotate_u128_right(self.0[0], 24)", "rotate_u128_right(self.0[0], 23)")),
  ("N14 BSwap for u64x2_generic per 32-bit word (qmap -> dmap)", False, GEN, sub1("qmap(self, |x| x.swap_bytes())", "dmap(self, |x| x.swap_bytes())")),
  ("N15 u32x4 write_be: to_be -> to_le", False, GEN, sub1("fn write_be(self, out: &mut [u8]) {\n        let x = dmap(self, |x| x.to_be());", "fn write_be(self, out: &mut [u8]) {\n        let x = dmap(self, |x| x.to_le());")),
  ("N16 u64x2 unsafe_read_le: to_le -> to_be", False, GEN, sub1("qmap(x, |x| x.to_le())", "qmap(x, |x| x.to_be())")),
  ("N17 shuffle1230: lane index x[2] -> x[1]", False, GEN, sub1("Self([x[3], x[0], x[1], x[2]])", "Self([x[3], x[0], x[1], x[1]])")),
  ("N18 shuffle3012 rotates by two lanes", False, GEN, sub1("Self([x[1], x[2], x[3], x[0]])", "Self([x[2], x[3], x[0], x[1]])")),
  ("N19 shuffle2301 = swap32", False, GEN, sub1("self.swap64()", "self.swap32()")),
  ("N20 u64x4 shuffle1230: from_lanes([d, a, c, b])", False, GEN, sub1("Self::from_lanes([d, a, b, c])", "Self::from_lanes([d, a, c, b])")),
  ("N21 u64x4 shuffle2301 does not exchange the halves", False, GEN, sub1("x2::new([self.0[1], self.0[0]])", "x2::new([self.0[0], self.0[1]])")),
  ("N22 u64x4 insert reads the wrong half", False, GEN, sub1("= self.0[(i / 2) as usize].insert(v, i % 2)", "= self.0[(i % 2) as usize].insert(v, i % 2)")),
  ("N23 u64x4 to_lanes interleaves", False, GEN, sub1("[a[0], a[1], b[0], b[1]]", "[a[0], b[0], a[1], b[1]]")),
  ("N24 to_scalars: c[2], c[3] exchanged", False, GEN, sub1("c[0], c[1], c[2], c[3]", "c[0], c[1], c[3], c[2]")),
  ("N25 u32x4 insert: the store is dropped", False, GEN, sub1("        self.0[i as usize] = v;\n", "")),
  ("N26 From<vec256_storage> for [u64; 4] reads half 0 twice", False, GEN, sub1("q.v128[1].into()", "q.v128[0].into()")),
  ("N27 o_of_q: `<< 64` -> `<< 32`", False, GEN, sub1("(u128::from(q[1]) << 64)", "(u128::from(q[1]) << 32)")),
  ("N28 q_of_o: halves exchanged", False, GEN, sub1("[o as u64, (o >> 64) as u64]", "[(o >> 64) as u64, o as u64]")),
  ("N29 impl_bitops! no longer invoked for u64x2_generic (one type of the family)", False, GEN, sub1("impl_bitops!(u64x2_generic);\n", "")),
  ("N30 union view d: [u32; 4] -> [u32; 2]", False, GEN, sub1("        d: [u32; 4],", "        d: [u32; 2],")),
  ("N31 BSwap for u32x4_generic: unimplemented!()", False, GEN, sub1("dmap(self, |x| x.swap_bytes())", "unimplemented!()")),
  ("N32 GenericMachine::u64x4 = u64x2x2_generic (impl inventory)", False, GEN, sub1("type u64x4 = u64x4_generic;", "type u64x4 = u64x2x2_generic;")),
  ("N33 u64x2 extract: index i -> i / 2", False, GEN, sub1("self.0[i as usize]", "self.0[(i / 2) as usize]", nth=2)),
  ("N34 MultiLane for u32x4_generic: from_lanes reverses", False, GEN, sub1("fn from_lanes(xs: [u32; 4]) -> Self {\n        Self(xs)", "fn from_lanes(xs: [u32; 4]) -> Self {\n        Self([xs[3], xs[2], xs[1], xs[0]])")),
  ("N35 statement form outside the language (`if`) in swap64", False, GEN, sub1("omap(self, |x| (x << 64) | (x >> 64))", "if true { omap(self, |x| (x << 64) | (x >> 64)) } else { self }")),
  # ---- soft.rs, breaking
  ("N40 fwd_binop_x2: second half uses rhs.0[0]", False, SOFT, sub1("self.0[1].$fn(rhs.0[1])])", "self.0[1].$fn(rhs.0[0])])")),
  ("N41 fwd_unop_x4: element 2 taken from 3", False, SOFT, sub1("                self.0[2].$fn(),", "                self.0[3].$fn(),")),
  ("N42 x2 insert stores into half 0 always", False, SOFT, sub1("self.0[i as usize] = w;", "self.0[0] = w;")),
  ("N43 transpose4: one index", False, SOFT, sub1("x4([a.0[1], b.0[1], c.0[1], d.0[1]])", "x4([a.0[1], b.0[1], c.0[2], d.0[1]])")),
  ("N44 x2 write_be: second half written little-endian", False, SOFT, sub1("self.0[1].write_be(out.1);", "self.0[1].write_le(out.1);")),
  ("N45 x4 unsafe_read_le: slice [n..n*2] -> [n..n*3]", False, SOFT, sub1("W::unsafe_read_le(&input[n..n * 2])", "W::unsafe_read_le(&input[n..n * 3])")),
  ("N46 x4 write_le: third store dropped", False, SOFT, sub1("        self.0[2].write_le(&mut out[n * 2..n * 3]);\n", "")),
  ("N47 x2 unsafe_read_be: both halves from input.0", False, SOFT, sub1("W::unsafe_read_be(input.1)", "W::unsafe_read_be(input.0)")),
  ("N48 x2 shuffle_lane_words1230: second half 3012", False, SOFT, sub1("            self.0[1].shuffle_lane_words1230(),\n        ])", "            self.0[1].shuffle_lane_words3012(),\n        ])")),
  ("N49 fwd_binop_x4!(BitXor, bitor): wrong macro argument for ONE trait", False, SOFT, sub1("fwd_binop_x4!(BitXor, bitxor);", "fwd_binop_x4!(BitXor, bitor);")),
  ("N50 Swap64 for x2: swap8 no longer forwarded", False, SOFT, sub1("    fwd_unop_x2!(swap8);\n", "")),
  ("N51 fwd_binop_assign_x2: second half dropped", False, SOFT, sub1("                (self.0[1]).$fn_assign(rhs.0[1]);\n", "")),
  ("N52 x4 extract: index i / 2", False, SOFT, sub1("self.0[i as usize]", "self.0[(i / 2) as usize]", nth=2)),
  ("N53 x2 unsafe_read_le splits at len / 4", False, SOFT, sub1("let input = input.split_at(input.len() / 2);", "let input = input.split_at(input.len() / 4);")),
  ("N54 x4 to_lanes / from_lanes: from_lanes permutes", False, SOFT, sub1("        x4(lanes)", "        x4([lanes[1], lanes[0], lanes[2], lanes[3]])")),
  ("N55 x4 bswap: element 3 not swapped", False, SOFT, sub1("            self.0[3].bswap(),", "            self.0[3],")),
  ("N56 Store<vec512_storage> for x4: p[2] twice", False, SOFT, sub1("            W::unpack(p[3]),", "            W::unpack(p[2]),")),
  # ---- harmless rewrites: byte-identical output
  ("P01 omap2: locals ao / bo renamed", True, GEN, lambda s: re.sub(r"\bbo\b", "rhs_o", re.sub(r"\bao\b", "lhs_o", s))),
  ("P02 dmap2: the two independent `into` lets exchanged", True, GEN, sub1("    let a: vec128_storage = a.into();\n    let b: vec128_storage = b.into();\n    let ao = unsafe { a.d };", "    let b: vec128_storage = b.into();\n    let a: vec128_storage = a.into();\n    let ao = unsafe { a.d };")),
  ("P03 rotate_u128_right: temporaries", True, GEN, sub1("    (x >> i) | (x << (128 - i))", "    let lo = x >> i;\n    let k = 128 - i;\n    let hi = x << k;\n    lo | hi")),
  ("P04 swap1: comments, blank lines, layout", True, GEN, sub1("                qmap(self, |x| {\n                    ((x & 0x5555555555555555) << 1) | ((x & 0xaaaaaaaaaaaaaaaa) >> 1)\n                })", "                // exchange adjacent bits /* not code: x << 2 */\n                qmap(\n                    self,\n\n                    |x| ((x & 0x5555555555555555) << 1) | ((x & 0xaaaaaaaaaaaaaaaa) >> 1),\n                )")),
  ("P05 swap1 mask written with separators and a suffix", True, GEN, sub1("0x5555555555555555", "0x5555_5555_5555_5555u64")),
  ("P06 x2 unsafe_read_le: the shadowing local renamed", True, SOFT, sub1("        let input = input.split_at(input.len() / 2);\n        x2::new([W::unsafe_read_le(input.0), W::unsafe_read_le(input.1)])", "        let parts = input.split_at(input.len() / 2);\n        x2::new([W::unsafe_read_le(parts.0), W::unsafe_read_le(parts.1)])")),
  ("P07 x4 write_le: the four independent stores reordered", True, SOFT, sub1("        self.0[0].write_le(&mut out[..n]);\n        self.0[1].write_le(&mut out[n..n * 2]);", "        self.0[1].write_le(&mut out[n..n * 2]);\n        self.0[0].write_le(&mut out[..n]);")),
  ("P08 shuffle1230: local x renamed", True, GEN, sub1("        let x = self.0;\n        Self([x[3], x[0], x[1], x[2]])", "        let lanes = self.0;\n        Self([lanes[3], lanes[0], lanes[1], lanes[2]])")),
  ("P09 Add for u32x4_generic: parameter rhs renamed", True, GEN, sub1("    fn add(self, rhs: Self) -> Self::Output {\n        dmap2(self, rhs, |x, y| x.wrapping_add(y))", "    fn add(self, other: Self) -> Self::Output {\n        dmap2(self, other, |p, q| p.wrapping_add(q))")),
  ("P10 impl_bitops!: macro parameter renamed", True, GEN, lambda s: s.replace("$vec", "$v")),
  ("P11 impl_bitops! invocations reordered", True, GEN, sub1("impl_bitops!(u32x4_generic);\nimpl_bitops!(u64x2_generic);", "impl_bitops!(u64x2_generic);\nimpl_bitops!(u32x4_generic);")),
  ("P12 to_scalars: the four `.0` lets reordered", True, GEN, sub1("        let a = a.0;\n        let b = b.0;", "        let b = b.0;\n        let a = a.0;")),
  ("P13 x4 transpose4: parameters renamed", True, SOFT, lambda s: s.replace("fn transpose4(a: Self, b: Self, c: Self, d: Self)", "fn transpose4(p: Self, q: Self, r: Self, s: Self)").replace("x4([a.0[0], b.0[0], c.0[0], d.0[0]])", "x4([p.0[0], q.0[0], r.0[0], s.0[0]])").replace("x4([a.0[1], b.0[1], c.0[1], d.0[1]])", "x4([p.0[1], q.0[1], r.0[1], s.0[1]])").replace("x4([a.0[2], b.0[2], c.0[2], d.0[2]])", "x4([p.0[2], q.0[2], r.0[2], s.0[2]])").replace("x4([a.0[3], b.0[3], c.0[3], d.0[3]])", "x4([p.0[3], q.0[3], r.0[3], s.0[3]])")),
  ("P14 u64x4 insert: index through a temporary", True, GEN, sub1("        self.0[(i / 2) as usize] = self.0[(i / 2) as usize].insert(v, i % 2);", "        let h = (i / 2) as usize;\n        let new = self.0[h].insert(v, i % 2);\n        self.0[h] = new;")),
]


def selected(cid, o):
    return cid.startswith(o[:-1]) if o.endswith("*") else cid == o


def run(cmd, **kw):
    return subprocess.run(cmd, stdout=subprocess.PIPE, stderr=subprocess.STDOUT, universal_newlines=True, **kw)


def main():
    only = sys.argv[1:]
    base = SP.render_lean(SP.simdport_inventory("/repo"))
    results = []
    try:
        for cid, harmless, rel, mut in CASES:
            if only and not any(selected(cid.split()[0], o) for o in only):
                continue
            shutil.rmtree(ROOT, ignore_errors=True)
            for _, f in SP.FILES:
                os.makedirs(os.path.dirname(os.path.join(ROOT, f)), exist_ok=True)
                shutil.copy(os.path.join("/repo", f), os.path.join(ROOT, f))
            p = os.path.join(ROOT, rel)
            s = open(p).read()
            s2 = mut(s)
            assert s2 != s, cid
            open(p, "w").write(s2)
            inv = SP.simdport_inventory(ROOT)
            text = SP.render_lean(inv)
            t0 = time.time()
            if harmless:
                good = text == base
                what = "generated file byte-identical" if good else "generated file CHANGED"
            else:
                open(SP.DEFAULT_OUT, "w", encoding="utf-8").write(text)
                b = run(["lake", "build", "CC.Simd.SrcPort"], cwd=V + "/lean")
                errs = [l for l in b.stdout.splitlines() if l.startswith("error:")]
                good = text != base and b.returncode != 0
                what = "text %s, %d translation errors, lake build CC.Simd.SrcPort %s (%.1fs) %s" % (
                    "changed" if text != base else "UNCHANGED", len(inv["errors"]), "FAILED" if b.returncode else "OK",
                    time.time() - t0, errs[0][:110] if errs else "")
            print("%-11s %s | %s" % ("as expected" if good else "UNEXPECTED", cid, what))
            sys.stdout.flush()
            results.append(good)
    finally:
        shutil.rmtree(ROOT, ignore_errors=True)
        SP.simdport_regenerate("/repo")
    print("%s: %d cases (%d breaking, %d harmless)" % ("ALL AS EXPECTED" if all(results) else "SOME UNEXPECTED", len(results),
                                                     sum(1 for c in CASES if not c[1]), sum(1 for c in CASES if c[1])))


main()
