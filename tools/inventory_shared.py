#!/usr/bin/env python3
"""Source inventories extracted from the Rust workspace (regenerated on every tools/check run).

    python3 tools/inventory.py shared [--repo DIR] [--out FILE]     (property C18)

Every inventory lives in its own clearly separated section of this file (functions prefixed with the
inventory's name) and shares only the small lexical helpers of section 0.  Standard library only.
"""
import os, re, sys

_HERE = os.path.dirname(os.path.abspath(__file__))
_LEAN = os.path.join(os.path.dirname(_HERE), "lean")


# =============================================================================================
# 0. lexical helpers (shared): comment / literal masking, brace matching
# =============================================================================================

def rust_sources(repo="/repo"):
    """All workspace sources: the `src/` trees of the workspace members (Cargo.toml `members`).
    tests/, benches/, examples/ and target/ are not part of the library and are skipped."""
    members = []
    ct = os.path.join(repo, "Cargo.toml")
    if os.path.exists(ct):
        txt = open(ct, errors="replace").read()
        m = re.search(r"members\s*=\s*\[(.*?)\]", txt, re.S)
        if m:
            members = re.findall(r'"([^"]+)"', m.group(1))
    out = []
    for mem in sorted(members):
        src = os.path.join(repo, mem, "src")
        for root, dirs, files in os.walk(src):
            dirs.sort()
            for f in sorted(files):
                if f.endswith(".rs"):
                    out.append(os.path.relpath(os.path.join(root, f), repo))
    return sorted(out)


def mask_rust(src):
    """Returns (nocomment, masked), both of len(src) with identical offsets.
    nocomment: comments blanked.  masked: comments AND the contents of string/char literals blanked
    (so that keywords inside literals or comments are never taken for code)."""
    n = len(src)
    noc = list(src)
    msk = list(src)
    i = 0

    def blank(buf, a, b):
        for k in range(a, b):
            if buf[k] != "\n":
                buf[k] = " "

    while i < n:
        c = src[i]
        if src.startswith("//", i):
            j = src.find("\n", i)
            j = n if j < 0 else j
            blank(noc, i, j)
            blank(msk, i, j)
            i = j
        elif src.startswith("/*", i):
            depth, j = 1, i + 2
            while j < n and depth:
                if src.startswith("/*", j):
                    depth += 1
                    j += 2
                elif src.startswith("*/", j):
                    depth -= 1
                    j += 2
                else:
                    j += 1
            blank(noc, i, j)
            blank(msk, i, j)
            i = j
        elif c == "r" and re.match(r'r#*"', src[i:i + 12]) and (i == 0 or not (src[i - 1].isalnum() or src[i - 1] == "_")):
            m = re.match(r'r(#*)"', src[i:])
            close = '"' + m.group(1)
            j = src.find(close, i + len(m.group(0)))
            j = n if j < 0 else j + len(close)
            blank(msk, i + len(m.group(0)), j - len(close))
            i = j
        elif c == '"':
            j = i + 1
            while j < n and src[j] != '"':
                j += 2 if src[j] == "\\" else 1
            blank(msk, i + 1, min(j, n))
            i = j + 1
        elif c == "'":
            # char literal or lifetime
            m = re.match(r"'(\\.[^']*|[^\\'])'", src[i:i + 12])
            if m:
                blank(msk, i + 1, i + len(m.group(0)) - 1)
                i += len(m.group(0))
            else:
                i += 1
        else:
            i += 1
    return "".join(noc), "".join(msk)


def norm_ws(s):
    """normalised text: whitespace collapsed; no space just inside brackets or before , ; ) ."""
    s = re.sub(r"\s+", " ", s).strip()
    s = re.sub(r"\s*([,;)\]])", r"\1", s)
    s = re.sub(r"([(\[])\s*", r"\1", s)
    s = re.sub(r",(?=\S)", ", ", s)
    return s


def match_brace(masked, i):
    """index just past the `}` matching the `{` at masked[i] (len(masked) if unbalanced)."""
    depth = 0
    for j in range(i, len(masked)):
        ch = masked[j]
        if ch == "{":
            depth += 1
        elif ch == "}":
            depth -= 1
            if depth == 0:
                return j + 1
    return len(masked)


class Scope:
    __slots__ = ("start", "end", "kind", "name", "header", "parent")

    def __init__(self, start, end, kind, name, header, parent):
        self.start, self.end, self.kind, self.name, self.header, self.parent = start, end, kind, name, header, parent


def _header_kind(header):
    """classify the text that precedes a `{`."""
    h = re.sub(r"#!?\[[^\]]*\]", " ", header)     # attributes are kept in `header`, not used for naming
    h = norm_ws(h)
    m = re.search(r"\bmacro_rules!\s*(\w+)\s*$", h)
    if m:
        return "macro", m.group(1)
    m = re.search(r"\b(lazy_static|thread_local)!\s*$", h)
    if m:
        return m.group(1), m.group(1) + "!"
    m = re.search(r"\bmod\s+(\w+)\s*$", h)
    if m:
        return "mod", m.group(1)
    m = re.search(r"\bfn\s+(\w+)", h)
    if m and not re.search(r"=\s*$", h):
        return "fn", m.group(1)
    m = re.search(r"\b(struct|enum|union|trait)\s+(\w+)", h)
    if m:
        return m.group(1), m.group(2)
    m = re.search(r"\bimpl\b(.*)$", h)
    if m:
        return "impl", norm_ws("impl" + m.group(1))
    return "block", ""


def scopes_of(masked):
    """every `{…}` of the file as a Scope with its header (text since the previous `;` `{` `}`)."""
    out = []
    stack = []
    for i, ch in enumerate(masked):
        if ch == "{":
            j = i - 1
            while j >= 0 and masked[j] not in ";{}":
                j -= 1
            header = masked[j + 1:i]
            kind, name = _header_kind(header)
            sc = Scope(i, None, kind, name, header, stack[-1] if stack else None)
            stack.append(sc)
            out.append(sc)
        elif ch == "}":
            if stack:
                stack.pop().end = i + 1
    for sc in out:
        if sc.end is None:
            sc.end = len(masked)
    return out


def innermost(scopes, pos):
    best = None
    for sc in scopes:
        if sc.start < pos < sc.end and (best is None or sc.start > best.start):
            best = sc
    return best


def scope_chain(sc):
    ch = []
    while sc is not None:
        ch.append(sc)
        sc = sc.parent
    return list(reversed(ch))


def enclosing_path(sc):
    """`mod::fn` style path of the named scopes around a position (blocks are anonymous)."""
    names = []
    for s in scope_chain(sc):
        if s.kind in ("mod", "fn", "struct", "enum", "union", "trait", "impl"):
            names.append(s.name)
        elif s.kind == "macro":
            names.append("macro_rules! " + s.name)
    return "::".join(names) if names else "(module root)"


def statement_before(masked, pos):
    """offset where the statement/item containing `pos` starts (after the previous `;` `{` `}`)."""
    j = pos - 1
    while j >= 0 and masked[j] not in ";{}":
        j -= 1
    return j + 1


def lean_str(s):
    return '"' + s.replace("\\", "\\\\").replace('"', '\\"').replace("\n", "\\n") + '"'


# =============================================================================================
# 1. `shared` — process-global / shared mutable state  (property C18)
# =============================================================================================

SHARED_HOOK_CFG = "cryptocorrosion_verif"
SHARED_TYPE_RE = re.compile(
    r"\b(Atomic[A-Z]\w*|Cell|RefCell|UnsafeCell|SyncUnsafeCell|Mutex|RwLock|Condvar|Once|OnceCell|OnceLock|"
    r"LazyCell|LazyLock|Lazy|OnceBool|OnceNonZeroUsize)\b")
SHARED_STATIC_RE = re.compile(r"(?<![\w'])static\b(?!\s*\|)")   # not `'static`, not a closure `static |..|`
SHARED_DETECT_RE = re.compile(r"\bis_(x86|aarch64|arm|mips|mips64|powerpc|powerpc64|riscv|loongarch)_feature_detected!\s*\(\s*\"([^\"]*)\"\s*\)")


def _shared_under_hook(masked, sc, stmt_start, pos):
    """is the construct at `pos` under `#[cfg(cryptocorrosion_verif)]` (own attribute or an
    enclosing item's / block's attribute)?"""
    pat = re.compile(r"#\[cfg\(\s*" + SHARED_HOOK_CFG + r"\s*\)\]")
    if pat.search(masked[stmt_start:pos]):
        return True
    for s in scope_chain(sc):
        if pat.search(s.header):
            return True
    return False


def _shared_parse_static(noc, masked, pos):
    """parse `static [mut|ref] NAME: TYPE = INIT;` starting at the keyword.  Returns
    (mod, name, ty, init, end) or None."""
    m = re.compile(r"static\s+(mut\s+|ref\s+)?([A-Za-z_$][\w$]*)\s*:").match(masked, pos)
    if not m:
        return None
    mod = (m.group(1) or "").strip()
    name = m.group(2)
    # type: up to `=` at bracket depth 0 ; init: up to `;` at depth 0
    i = m.end()
    depth = 0
    eq = None
    end = None
    while i < len(masked):
        ch = masked[i]
        if ch in "([{<" and not (ch == "<" and eq is not None):
            depth += 1
        elif ch in ")]}>" and not (ch == ">" and (eq is not None or masked[i - 1] in "-=")):
            depth -= 1
            if depth < 0:
                end = i
                break
        elif ch == "=" and depth == 0 and eq is None and masked[i + 1] != "=":
            eq = i
            depth = 0
        elif ch == ";" and depth == 0:
            end = i
            break
        i += 1
    if end is None:
        end = len(masked)
    if eq is None:
        ty, init = noc[m.end():end], ""
    else:
        ty, init = noc[m.end():eq], noc[eq + 1:end]
    return mod, name, norm_ws(ty), norm_ws(init), end


def _shared_strip_block(s):
    s = s.strip()
    while s.startswith("{") and s.endswith("}") and match_brace(s, 0) == len(s):
        s = s[1:-1].strip()
    return s


def _shared_parse_ladder(text):
    """`if is_x86_feature_detected!("f") { path } else if … else { fallback }` → (arms, fallback)
    or None when the text is anything else (any other statement, call, block …)."""
    arms = []
    t = _shared_strip_block(text)
    while True:
        m = re.match(r'if\s+is_(?:x86|aarch64|arm)_feature_detected!\(\s*"([^"]*)"\s*\)\s*\{\s*([\w:$]+)\s*\}\s*else\s*', t)
        if not m:
            break
        arms.append((m.group(1), m.group(2)))
        t = t[m.end():].strip()
    if not arms:
        return None
    t = _shared_strip_block(t)
    if re.fullmatch(r"[\w:$]+", t):
        return arms, t
    m = re.fullmatch(r"(panic|unimplemented|unreachable)!\((.*)\)", t, re.S)
    if m:
        arg = re.sub(r'"(\\.|[^"\\])*"', '""', m.group(2))      # message literals do not matter
        if "(" not in arg and "{" not in arg:
            return arms, m.group(1) + "!"
    return None


def _shared_resolve_init(init, noc, masked, scopes, sc):
    """the recorded initialiser: if it is just a call `f()` of a parameterless local function defined
    in an enclosing scope of the same file, the function's body is recorded instead (so the
    obligation sees what is actually executed)."""
    body = _shared_strip_block(init)
    m = re.fullmatch(r"([A-Za-z_]\w*)\(\)", body)
    if m:
        fname = m.group(1)
        for s in reversed(scope_chain(sc)):
            for f in scopes:
                if f.kind == "fn" and f.name == fname and f.parent is s and re.search(r"\bfn\s+" + fname + r"\s*\(\s*\)", f.header):
                    return fname + "() = " + norm_ws(noc[f.start:f.end])
    return norm_ws(init)


def _shared_macro_invocations(masked, noc, scopes, mname):
    """(position, [args]) of every `mname!(…)` invocation in the file (outside its own definition)."""
    out = []
    for m in re.finditer(r"(?<![\w!])" + re.escape(mname) + r"!\s*\(", masked):
        sc = innermost(scopes, m.start())
        if any(s.kind == "macro" and s.name == mname for s in scope_chain(sc)):
            continue
        i = m.end()
        depth = 1
        args, cur = [], i
        while i < len(masked) and depth:
            ch = masked[i]
            if ch in "([{<":
                depth += 1
            elif ch in ")]}>":
                depth -= 1
            elif ch == "," and depth == 1:
                args.append(norm_ws(noc[cur:i]))
                cur = i + 1
            i += 1
        args.append(norm_ws(noc[cur:i - 1]))
        out.append((m.start(), args))
    return out


def _shared_macro_params(noc, msc):
    """parameter names of the first rule of a macro_rules! scope: `($a:ident, $b:ty) => {…}`."""
    m = re.match(r"\{\s*\(([^)]*)\)\s*=>", noc[msc.start:msc.end])
    if not m:
        return []
    return re.findall(r"\$(\w+)\s*:\s*\w+", m.group(1))


def _shared_subst(text, params, args):
    for p, a in zip(params, args):
        text = re.sub(r"\$" + p + r"\b", a, text)
    return text


def _shared_classify(kind, mod, ty, hook, init="x"):
    if hook:
        return "hook"
    if kind == "lazyStatic":
        return "onceInit"
    if kind == "static" and mod == "" and init != "" and not SHARED_TYPE_RE.search(ty) and "*mut" not in ty:
        return "immutableData"      # (a `static` without initialiser is an `extern` one: other)
    return "other"


def shared_scan_file(repo, rel):
    """items and feature-detection sites of one file."""
    src = open(os.path.join(repo, rel), errors="replace").read()
    noc, masked = mask_rust(src)
    scopes = scopes_of(masked)
    items = []
    covered = []      # spans of static declarations (type uses inside them are part of the item)

    def emit(pos, kind, mod, name, ty, init, sc, stmt_start):
        hook = _shared_under_hook(masked, sc, stmt_start, pos)
        chain = scope_chain(sc)
        msc = next((s for s in chain if s.kind == "macro"), None)
        init_res = _shared_resolve_init(init, noc, masked, scopes, sc) if kind != "typeUse" else init
        if msc is not None:
            params = _shared_macro_params(noc, msc)
            invs = _shared_macro_invocations(masked, noc, scopes, msc.name)
            for ipos, args in invs:
                isc = innermost(scopes, ipos)
                ihook = hook or _shared_under_hook(masked, isc, statement_before(masked, ipos), ipos)
                items.append(dict(
                    file=rel, encl=enclosing_path(isc) + " <- " + msc.name + "!(" + ", ".join(args) + ")",
                    kind=kind, name=_shared_subst(name, params, args), ty=_shared_subst(ty, params, args),
                    init=_shared_subst(init_res, params, args), cls=_shared_classify(kind, mod, ty, ihook, init_res)))
            if invs:
                return
        items.append(dict(file=rel, encl=enclosing_path(sc), kind=kind, name=name, ty=ty, init=init_res,
                          cls=_shared_classify(kind, mod, ty, hook, init_res)))

    # --- static / static mut / lazy_static! / thread_local!
    for m in SHARED_STATIC_RE.finditer(masked):
        pos = m.start()
        sc = innermost(scopes, pos)
        p = _shared_parse_static(noc, masked, pos)
        stmt = statement_before(masked, pos)
        if p is None:
            emit(pos, "static", "?", "?", "", norm_ws(noc[stmt:pos + 60]), sc, stmt)
            continue
        mod, name, ty, init, end = p
        covered.append((stmt, end))
        in_lazy = any(s.kind == "lazy_static" for s in scope_chain(sc))
        in_tl = any(s.kind == "thread_local" for s in scope_chain(sc))
        if in_tl:
            kind = "threadLocal"
        elif in_lazy or mod == "ref":
            kind = "lazyStatic"
        elif mod == "mut":
            kind = "staticMut"
        else:
            kind = "static"
        emit(pos, kind, mod, name, ty, init, sc, stmt)
    # lazy_static!/thread_local! blocks without a parsed `static` inside (unusual syntax): still reported
    for sc in scopes:
        if sc.kind in ("lazy_static", "thread_local"):
            if not any(sc.start < a < sc.end for a, _ in covered):
                emit(sc.start, "lazyStatic" if sc.kind == "lazy_static" else "threadLocal", "?", "?", "",
                     norm_ws(noc[sc.start:sc.end]), sc.parent, statement_before(masked, sc.start))
    # `thread_local!(…)` with parentheses
    for m in re.finditer(r"\b(thread_local|lazy_static)!\s*\(", masked):
        emit(m.start(), "threadLocal" if m.group(1) == "thread_local" else "lazyStatic", "?", "?", "",
             norm_ws(noc[m.start():m.start() + 120]), innermost(scopes, m.start()), statement_before(masked, m.start()))

    # --- uses of interior-mutability / synchronisation types outside the declarations above
    seen = set()
    for m in SHARED_TYPE_RE.finditer(masked):
        pos = m.start()
        if any(a <= pos < b for a, b in covered):
            continue
        sc = innermost(scopes, pos)
        stmt = statement_before(masked, pos)
        ls = noc.rfind("\n", 0, pos) + 1
        le = noc.find("\n", pos)
        text = norm_ws(noc[ls:len(noc) if le < 0 else le])      # the source line of the use
        key = (enclosing_path(sc), m.group(1), text)
        if key in seen:
            continue
        seen.add(key)
        emit(pos, "typeUse", "", m.group(1), "", text, sc, stmt)

    # --- a `*mut` pointer that is NOT obtained from a `&mut` (`.as_mut_ptr()`): `&x as *const T as *mut T`,
    #     `p as *mut T`, `ptr::from_ref(..).cast_mut()`, `transmute` to a `&mut` — mutation behind a shared reference
    #     is shared state even without a `static` or an interior-mutability type (kind `typeUse`, name `constToMut`,
    #     class `other`: the model has no such item)
    for m in re.finditer(r"\bas\s*\*\s*mut\b|\.cast_mut\s*\(|\bcast_mut\b|transmute\s*::\s*<[^>]*&\s*mut\b", masked):
        pos = m.start()
        before = norm_ws(noc[max(0, pos - 40):pos])
        if before.endswith(".as_mut_ptr()") or before.endswith(".as_mut_ptr ()"):
            continue
        sc = innermost(scopes, pos)
        ls = noc.rfind("\n", 0, pos) + 1
        le = noc.find("\n", pos)
        text = norm_ws(noc[ls:len(noc) if le < 0 else le])
        key = (enclosing_path(sc), "constToMut", text)
        if key in seen:
            continue
        seen.add(key)
        emit(pos, "typeUse", "", "constToMut", "", text, sc, statement_before(masked, pos))

    # --- run-time feature detection sites (std's idempotent cache)
    sites = []
    for m in SHARED_DETECT_RE.finditer(noc):
        if masked[m.start()] == " ":
            continue
        sc = innermost(scopes, m.start())
        chain = scope_chain(sc)
        msc = next((s for s in chain if s.kind == "macro"), None)
        encl = enclosing_path(sc)
        sites.append((rel, encl, m.group(2)))
    return items, sites


def shared_inventory(repo="/repo"):
    """-> list of items dict(file, encl, kind, name, ty, init, cls), sorted; deterministic."""
    items = []
    for rel in rust_sources(repo):
        its, _ = shared_scan_file(repo, rel)
        items += its
    items.sort(key=lambda d: (d["file"], d["encl"], d["kind"], d["name"], d["init"]))
    return items


def shared_detect_sites(repo="/repo"):
    """-> sorted list of distinct (file, enclosing item, feature) for every is_*_feature_detected!."""
    sites = set()
    for rel in rust_sources(repo):
        _, ss = shared_scan_file(repo, rel)
        sites.update(ss)
    return sorted(sites)


def _shared_lean_init(it):
    if it["kind"] == "typeUse" or it["init"] == "":
        return ".text " + lean_str(it["init"]) if it["init"] else ".none"
    txt = it["init"]
    body = txt.split(" = ", 1)[1] if re.match(r"\w+\(\) = ", txt) else txt
    lad = _shared_parse_ladder(body) if it["kind"] == "lazyStatic" else None
    if lad:
        arms, fb = lad
        return ".ladder [" + ", ".join("(%s, %s)" % (lean_str(f), lean_str(p)) for f, p in arms) + "] " + lean_str(fb)
    return ".text " + lean_str(txt)


def shared_render_lean(items, sites):
    L = []
    L.append("/-")
    L.append("  GENERATED by tools/inventory.py shared — do not edit.  Regenerated from the Rust workspace on every")
    L.append("  `tools/check C18`.  Every `static`, `static mut`, `lazy_static!`, `thread_local!` and every use of")
    L.append("  `Atomic*`, `Cell`, `RefCell`, `UnsafeCell`, `Mutex`, `RwLock`, `Once`, `OnceCell`, `OnceLock` (…)")
    L.append("  in the workspace members' `src/` trees, with macro-generated items listed once per invocation,")
    L.append("  and every run-time CPU feature query.  No line numbers: the file changes only when the items do.")
    L.append("-/")
    L.append("import CC.Conc.Shared")
    L.append("namespace CC.Gen")
    L.append("open CC.Conc")
    L.append("")
    L.append("def shared : List SharedItem := [")
    rows = []
    for it in items:
        rows.append("  { file := %s, encl := %s,\n    kind := .%s, name := %s, ty := %s,\n    init := %s,\n    cls := .%s }" % (
            lean_str(it["file"]), lean_str(it["encl"]), it["kind"], lean_str(it["name"]), lean_str(it["ty"]),
            _shared_lean_init(it), it["cls"]))
    L.append(",\n".join(rows))
    L.append("]")
    L.append("")
    L.append("/-- (file, enclosing item, feature) of every `is_x86_feature_detected!` in the sources. -/")
    L.append("def detectSites : List (String × String × String) := [")
    L.append(",\n".join("  (%s, %s, %s)" % (lean_str(a), lean_str(b), lean_str(c)) for a, b, c in sites))
    L.append("]")
    L.append("")
    L.append("end CC.Gen")
    return "\n".join(L) + "\n"


def shared_regenerate(repo="/repo", out=None):
    """write lean/CC/Gen/Shared.lean (only when the content changes, to keep lake's cache warm)."""
    out = out or os.path.join(_LEAN, "CC", "Gen", "Shared.lean")
    items = shared_inventory(repo)
    sites = shared_detect_sites(repo)
    text = shared_render_lean(items, sites)
    os.makedirs(os.path.dirname(out), exist_ok=True)
    old = open(out).read() if os.path.exists(out) else None
    if old != text:
        with open(out, "w") as f:
            f.write(text)
    return items, sites, out


def _shared_main(argv):
    repo, out = "/repo", None
    it = iter(argv)
    for a in it:
        if a == "--repo":
            repo = next(it)
        elif a == "--out":
            out = next(it)
        elif a == "--print":
            out = "-"
    if out == "-":
        sys.stdout.write(shared_render_lean(shared_inventory(repo), shared_detect_sites(repo)))
        return 0
    items, sites, path = shared_regenerate(repo, out)
    by = {}
    for x in items:
        by[x["cls"]] = by.get(x["cls"], 0) + 1
    print("%s: %d items %s, %d feature-detection sites" % (path, len(items), by, len(sites)))
    for x in items:
        print("  [%s] %s :: %s :: %s %s : %s" % (x["cls"], x["file"], x["encl"], x["kind"], x["name"], x["ty"]))
    return 0


# =============================================================================================
# CLI
# =============================================================================================

if __name__ == "__main__":
    if len(sys.argv) >= 2 and sys.argv[1] == "shared":
        sys.exit(_shared_main(sys.argv[2:]))
    print(__doc__)
    sys.exit(2)
