#!/usr/bin/env python3
"""tools/mk_srcport.py — scaffold that WROTE lean/CC/Simd/SrcPort.lean (the obligations of the portable source tie; a
committed, hand-maintained proof file — this script is not run by tools/regen or tools/check).  It lists one obligation
per definition of lean/CC/Gen/SimdPortSrc.lean and refuses to write the file when a generated definition has none."""
import os, re, sys
sys.path.insert(0, os.path.dirname(os.path.abspath(__file__)))
import inventory_simdport as I

ROT32 = [7, 8, 11, 12, 16, 20, 24, 25]
ROT64 = ROT32 + [32]
SWAPS = [1, 2, 4, 8, 16, 32, 64]
SHUF = [2301, 1230, 3012]
BIN = [("bitand", "and"), ("bitor", "or"), ("bitxor", "xor"), ("andnot", "andnot"), ("add", "add")]
ASSIGN = [("bitand_assign", "and"), ("bitor_assign", "or"), ("bitxor_assign", "xor"), ("add_assign", "add")]

W12, W13 = [], []       # (field, statement, proof)
covered = set()


def ob(dst, name, stmt, proof):
    covered.add(name)
    dst.append((name, stmt, proof))


G = "SimdPortSrc."
BV1 = "by funext a; port_unfold [%s]; bv_decide"
BV2 = "by funext a b; port_unfold [%s]; bv_decide"


def direct(ty, m):
    """is the generated term of this method the model's term as written (no detour through another storage view)?"""
    if ty == "u32x4_generic":
        return m in ("add", "add_assign", "bswap", "swap16") or m.startswith("rotate") or m in ("shuffle1230", "shuffle3012", "shuffle_lane_words1230", "shuffle_lane_words3012")
    if ty == "u64x2_generic":
        return m != "swap16"
    if ty == "u128x1_generic":
        return m.startswith("rotate")
    return False


def pr(ty, m, bv):
    return "rfl" if direct(ty, m) else bv % (G + ty + "_" + m)

# ---------------------------------------------------------------- the three 128-bit types of generic.rs
for ty, rec, rots, cnt, lw in (("u32x4_generic", "Generic.u32x4", ROT32, 4, 32), ("u64x2_generic", "Generic.u64x2", ROT64, 2, 64),
                               ("u128x1_generic", "Generic.u128x1", ROT64, 1, 128)):
    for m, fld in BIN + ASSIGN:
        n = "%s_%s" % (ty, m)
        ob(W12, n, "%s.%s = %s%s" % (rec, fld, G, n), pr(ty, m, BV2))
    n = ty + "_not"
    ob(W12, n, "%s.not = %s%s" % (rec, G, n), pr(ty, "not", BV1))
    n = ty + "_bswap"
    ob(W12, n, "%s.bswap = %s%s" % (rec, G, n), pr(ty, "bswap", BV1))
    for k in rots:
        n = "%s_rotate_each_word_right%d" % (ty, k)
        ob(W12, n, "%s.rotr %d = %s%s" % (rec, k, G, n), pr(ty, "rotate_each_word_right%d" % k, BV1))
    for k in SWAPS:
        n = "%s_swap%d" % (ty, k)
        ob(W12, n, "%s.swap %d = %s%s" % (rec, k, G, n), pr(ty, "swap%d" % k, BV1))
    n = ty + "_to_lanes"
    ob(W13, n, "%s.toLanes = %s%s" % (rec, G, n), "rfl")
    n = ty + "_from_lanes"
    ob(W13, n, "%s.fromLanes = %s%s" % (rec, G, n), "rfl")
    # Store / Into<vec128_storage>: the carrier itself
    n = ty + "_unpack"
    ob(W13, n, "∀ v : BitVec 128, %s%s v = v" % (G, n), "by intro v; port_unfold [%s]; bv_decide" % (G + n))
    n = "vec128_storage_from_" + ty
    ob(W13, n, "∀ v : BitVec 128, %s%s v = v" % (G, n), "by intro v; port_unfold [%s]; bv_decide" % (G + n))
    if cnt > 1:
        cases = " ".join("| %d, _ => rfl" % i for i in range(cnt))
        n = ty + "_extract"
        ob(W13, n, "∀ (v : BitVec 128) (i : Nat), %s%s v i = if i < %d then Out.ok (%s.extract v i) else Out.panic \"index out of bounds\"" % (G, n, cnt, rec),
           "by\n    intro v i; unfold %s%s; split\n    · next h => exact (match i, h with %s | n + %d, h => by omega)\n    · rfl" % (G, n, cases, cnt))
        n = ty + "_insert"
        ob(W13, n, "∀ (v : BitVec 128) (w : BitVec %d) (i : Nat), %s%s v w i = if i < %d then Out.ok (%s.insert v w i) else Out.panic \"index out of bounds\"" % (lw, G, n, cnt, rec),
           "by\n    intro v w i; unfold %s%s; split\n    · next h => exact (match i, h with %s | n + %d, h => by omega)\n    · rfl" % (G, n, cases, cnt))
        for m, fld in (("unsafe_read_le", "readLe"), ("unsafe_read_be", "readBe")):
            n = "%s_%s" % (ty, m)
            ob(W13, n, "∀ bs : List (BitVec 8), %s%s bs = if bs.length = 16 then Out.ok (%s.%s bs) else Out.panic \"read_from_bytes: size mismatch\"" % (G, n, rec, fld),
               "by intro bs; port_bytes [%s%s]" % (G, n))
        for m, fld in (("write_le", "writeLe"), ("write_be", "writeBe")):
            n = "%s_%s" % (ty, m)
            ob(W13, n, "∀ (v : BitVec 128) (out : List (BitVec 8)), %s%s v out = if out.length = 16 then Out.ok (%s.%s v) else Out.panic \"write_to: size mismatch\"" % (G, n, rec, fld),
               "by intro v out; port_bytes [%s%s]" % (G, n))

for c in SHUF:
    n = "u32x4_generic_shuffle%d" % c
    ob(W12, n, "Generic.u32x4.shuffle %d = %s%s" % (c, G, n), pr("u32x4_generic", "shuffle%d" % c, BV1))
    n = "u32x4_generic_shuffle_lane_words%d" % c
    ob(W12, n, "Generic.u32x4.shuffleLane %d = %s%s" % (c, G, n), pr("u32x4_generic", "shuffle_lane_words%d" % c, BV1))
    n = "u64x4_generic_shuffle%d" % c
    ob(W12, n, "Generic.u64x4.shuffle %d = %s%s" % (c, G, n), "by funext a; port_unfold [%s%s, Generic.u64x4_toLanes, Generic.u64x4_fromLanes, Generic.u64x2_toLanes, Generic.u64x2_fromLanes, List.getD_cons_zero, List.getD_cons_succ, List.cons_append, List.nil_append] <;> bv_decide" % (G, n))

# ---------------------------------------------------------------- storage conversions, u64x4_generic, to_scalars, GenericMachine
ob(W13, "vec128_storage_from_arr_u32_4", "Generic.u32x4.fromLanes = %svec128_storage_from_arr_u32_4" % G, "rfl")
ob(W13, "arr_u32_4_from_vec128_storage", "Generic.u32x4.toLanes = %sarr_u32_4_from_vec128_storage" % G, "rfl")
ob(W13, "vec128_storage_from_arr_u64_2", "Generic.u64x2.fromLanes = %svec128_storage_from_arr_u64_2" % G, "rfl")
ob(W13, "arr_u64_2_from_vec128_storage", "Generic.u64x2.toLanes = %sarr_u64_2_from_vec128_storage" % G, "rfl")
ob(W13, "vec128_storage_default", "%svec128_storage_default = 0#128" % G, "by decide")
ob(W13, "vec128_storage_eq", "∀ a b : BitVec 128, %svec128_storage_eq a b = decide (a = b)" % G,
   "by\n    intro a b; unfold %svec128_storage_eq lane64\n    by_cases h : a = b\n    · subst h; simp\n    · simp only [h, decide_false]; apply Bool.eq_false_iff.mpr; intro hc; apply h; simp only [Bool.and_eq_true, beq_iff_eq] at hc; bv_decide" % G)
ob(W13, "vec256_storage_new128", "∀ xs : List (BitVec 128), %svec256_storage_new128 xs = pack256 (xs.getD 0 0) (xs.getD 1 0)" % G, "fun _ => rfl")
ob(W13, "vec256_storage_split128", "∀ v : BitVec 256, %svec256_storage_split128 v = [lo128 v, hi128 v]" % G, "fun _ => rfl")
ob(W13, "vec512_storage_new128", "∀ xs : List (BitVec 128), %svec512_storage_new128 xs = pack512 (xs.getD 0 0) (xs.getD 1 0) (xs.getD 2 0) (xs.getD 3 0)" % G, "fun _ => rfl")
ob(W13, "vec512_storage_split128", "∀ v : BitVec 512, %svec512_storage_split128 v = [q128 v 0, q128 v 1, q128 v 2, q128 v 3]" % G, "fun _ => rfl")
ob(W13, "arr_u64_4_from_vec256_storage", "Generic.u64x4.toLanes = %sarr_u64_4_from_vec256_storage" % G, "rfl")
ob(W13, "vec256_storage_from_arr_u64_4", "Generic.u64x4.fromLanes = %svec256_storage_from_arr_u64_4" % G, "rfl")
ob(W13, "u64x4_generic_to_lanes", "Generic.u64x4.toLanes = %su64x4_generic_to_lanes" % G, "rfl")
ob(W13, "u64x4_generic_from_lanes", "Generic.u64x4.fromLanes = %su64x4_generic_from_lanes" % G, "rfl")
ob(W13, "u64x4_generic_extract", "∀ (v : BitVec 256) (i : Nat), %su64x4_generic_extract v i = if i < 4 then Out.ok (Generic.u64x4.extract v i) else Out.panic \"index out of bounds\"" % G,
   "by\n    intro v i; unfold %su64x4_generic_extract; split\n    · next h => exact (match i, h with | 0, _ => rfl | 1, _ => rfl | 2, _ => rfl | 3, _ => rfl | n + 4, h => by omega)\n    · rfl" % G)
ob(W13, "u64x4_generic_insert", "∀ (v : BitVec 256) (w : BitVec 64) (i : Nat), %su64x4_generic_insert v w i = if i < 4 then Out.ok (Generic.u64x4.insert v w i) else Out.panic \"index out of bounds\"" % G,
   "by\n    intro v w i\n    match i with\n    | 0 => port_insert64x4\n    | 1 => port_insert64x4\n    | 2 => port_insert64x4\n    | 3 => port_insert64x4\n    | n + 4 =>\n      have h1 : ¬ (n + 4) / 2 < 2 := by omega\n      have h2 : ¬ n + 4 < 4 := by omega\n      simp only [%su64x4_generic_insert, h1, h2, if_false]" % G)
ob(W13, "u32x4x4_generic_to_scalars", "Generic.toScalars = %su32x4x4_generic_to_scalars" % G, "rfl")
ob(W13, "GenericMachine_instance", "%sGenericMachine_instance = ()" % G, "rfl")

# ---------------------------------------------------------------- soft.rs: x2<W, G>, x4<W>
X2Q = "∀ {n n2 m : Nat} (lo hi : BitVec n2 → BitVec n) (pack : BitVec n → BitVec n → BitVec n2) (W : VOps n m), "
X4Q = "∀ {m : Nat} (W : VOps 128 m), "
for x, Q, rec, args, cnt, wd, ew in (("x2", X2Q, "(Soft.x2g lo hi pack W)", " lo hi pack W", 2, "n2", "n"), ("x4", X4Q, "(Soft.x4 W)", " W", 4, "512", "128")):
    intro = "fun _ _ _ _ => " if x == "x2" else "fun _ => "
    for m, fld in BIN + ASSIGN:
        n = "%s_%s" % (x, m)
        ob(W12, n, "%s%s.%s = %s%s%s" % (Q, rec, fld, G, n, args), intro + "rfl")
    for m in ("not", "bswap"):
        n = "%s_%s" % (x, m)
        ob(W12, n, "%s%s.%s = %s%s%s" % (Q, rec, m, G, n, args), intro + "rfl")
    for k in ROT64:
        n = "%s_rotate_each_word_right%d" % (x, k)
        ob(W12, n, "%s%s.rotr %d = %s%s%s" % (Q, rec, k, G, n, args), intro + "rfl")
    for k in SWAPS:
        n = "%s_swap%d" % (x, k)
        ob(W12, n, "%s%s.swap %d = %s%s%s" % (Q, rec, k, G, n, args), intro + "rfl")
    for c in SHUF:
        n = "%s_shuffle_lane_words%d" % (x, c)
        ob(W12, n, "%s%s.shuffleLane %d = %s%s%s" % (Q, rec, c, G, n, args), intro + "rfl")
    ob(W13, x + "_to_lanes", "%s%s.toLanes = %s%s_to_lanes%s" % (Q, rec, G, x, args), intro + "rfl")
    for m in ("from_lanes", "new", "unsafe_from"):
        ob(W13, "%s_%s" % (x, m), "%s%s.fromLanes = %s%s_%s%s" % (Q, rec, G, x, m, args), intro + "rfl")
    for m, fld in (("unsafe_read_le", "readLe"), ("unsafe_read_be", "readBe")):
        ob(W13, "%s_%s" % (x, m), "%s%s.%s = %s%s_%s%s" % (Q, rec, fld, G, x, m, args), intro + "rfl")
    for m, fld in (("write_le", "writeLe"), ("write_be", "writeBe")):
        ob(W13, "%s_%s" % (x, m), "%s∀ (v : BitVec %s) (out : List (BitVec 8)), %s.%s v = %s%s_%s%s v out" % (Q, wd, rec, fld, G, x, m, args),
           intro + "fun _ _ => rfl")
    cases = " ".join("| %d, _ => rfl" % i for i in range(cnt))
    intro2 = "intro n n2 m lo hi pack W v" if x == "x2" else "intro m W v"
    ob(W13, x + "_extract", "%s∀ (v : BitVec %s) (i : Nat), %s%s_extract%s v i = if i < %d then Out.ok (%s.extract v i) else Out.panic \"index out of bounds\"" % (Q, wd, G, x, args, cnt, rec),
       "by\n    %s i; unfold %s%s_extract; split\n    · next h => exact (match i, h with %s | k + %d, h => by omega)\n    · rfl" % (intro2, G, x, cases, cnt))
    ob(W13, x + "_insert", "%s∀ (v : BitVec %s) (w : BitVec %s) (i : Nat), %s%s_insert%s v w i = if i < %d then Out.ok (%s.insert v w i) else Out.panic \"index out of bounds\"" % (Q, wd, ew, G, x, args, cnt, rec),
       "by\n    %s w i; unfold %s%s_insert; split\n    · next h => exact (match i, h with %s | k + %d, h => by omega)\n    · rfl" % (intro2, G, x, cases, cnt))
ob(W13, "x4_transpose4", "∀ {m : Nat} (W : VOps 128 m), Soft.x4_transpose4 = %sx4_transpose4 W" % G, "fun _ => rfl")
# Store<vec256_storage> / Into<vec256_storage> for x2, at the two-halves layout of the model (`Soft.x2`): the carrier itself
for n in ("x2_unpack", "vec256_storage_from_x2"):
    ob(W13, n, "∀ {m : Nat} (W : VOps 128 m) (v : BitVec 256), %s%s lo128 hi128 pack256 W v = v" % (G, n),
       "by intro m W v; port_unfold [%s%s]; bv_decide" % (G, n))
for n in ("x4_unpack", "vec512_storage_from_x4"):
    ob(W13, n, "∀ {m : Nat} (W : VOps 128 m) (v : BitVec 512), %s%s W v = v" % (G, n),
       "by intro m W v; port_unfold [%s%s, q128, pack512]; bv_decide" % (G, n))

# ---------------------------------------------------------------- inventories
inv = I.simdport_inventory(os.environ.get("REPO", "/repo"))


def table(name):
    rows = inv["tables"][name]
    return "[\n" + ",\n".join("      (%s, [%s])" % (I._lean_str(a), ", ".join(I._lean_str(b) for b in bs)) for a, bs in rows) + "]"


for t in sorted(inv["tables"]):
    ob(W12 if t.endswith("_impls") or t.endswith("_free_fns") else W13, t, "%s%s = %s" % (G, t, table(t)), "rfl")
ob(W12, "simdport_errors", "%ssimdport_errors = []" % G, "rfl")

names = set(d[0] for d in inv["defs"]) | set(inv["tables"]) | {"simdport_errors"}
missing = sorted(names - covered)
extra = sorted(covered - names)
if missing or extra:
    raise SystemExit("definitions without an obligation: %s; obligations without a definition: %s" % (missing, extra))

HEAD = '''/-
  CC.Simd.SrcPort — SOURCE TIE for the portable parts of ppv-lite86 (properties C12 / C13): every definition that
  tools/inventory_simdport.py regenerates from `utils-simd/ppv-lite86/src/generic.rs` and `src/soft.rs` into
  `CC.Gen.SimdPortSrc` equals the hand-written model (`CC.Simd.Impl.Generic`, `CC.Simd.Impl.Soft`), field by field of
  the operation records the theorems of C12 / C13 are about (`impl .generic τ`, `Soft.x2 W`, `Soft.x4 W`, `x2w`).

  * `PortWordwise` (→ `CC.Thm.C12.source_portable_match`): `+ & | ^ andnot !` and their `*_assign` forms, the rotations,
    `swap1…64`, `bswap`, `shuffle*`, `shuffle_lane_words*`, for `u32x4_generic`, `u64x2_generic`, `u128x1_generic`,
    `u64x4_generic`, `x2<W,G>` (every `lo hi pack W`), `x4<W>` (every `W`); the impl / free-fn inventories; no
    translation errors.
  * `PortMovement` (→ `CC.Thm.C13.source_portable_match`): `extract` / `insert` (as `Out`: in range the model's value,
    outside the Rust panics), `to_lanes` / `from_lanes` / `new` / `unsafe_from`, `StoreBytes`, `transpose4`, `to_scalars`,
    the storage conversions (`From`, `Store::unpack`, `new128` / `split128`, `Default`, `PartialEq`), the declarations.

  Where the source goes through another view of `vec128_storage` (`omap` on a `u32x4_generic`, `dmap` on a
  `u64x2_generic`, everything on `u128x1_generic`) the generated term re-packs through the carrier and the model does
  not: those obligations are closed by `bv_decide` after unfolding both sides; all others are `rfl`.
  (Written by tools/mk_srcport.py, which checks that every generated definition has an obligation.)
-/
import Std.Tactic.BVDecide
import CC.Simd.Lemmas
import CC.Gen.SimdPortSrc
import CC.Simd.Impl
namespace CC.Src
open CC CC.Simd CC.Simd.Impl CC.Gen

set_option linter.unusedSimpArgs false
set_option linter.unusedVariables false

theorem lane64_pack64_0 (a b : BitVec 64) : lane64 (pack64 a b) 0 = a := by unfold lane64 pack64; bv_decide
theorem lane64_pack64_1 (a b : BitVec 64) : lane64 (pack64 a b) 1 = b := by unfold lane64 pack64; bv_decide

open Lean.Parser.Tactic in
/-- unfold the model and one generated definition down to `BitVec` operations -/
macro "port_unfold" "[" ls:simpLemma,* "]" : tactic =>
  `(tactic| simp only [Generic.u32x4, Generic.u64x2, Generic.u128x1, Generic.u64x4, Generic.vnot, Generic.vand, Generic.vor,
      Generic.vxor, Generic.vandnot, Generic.vswap, Generic.u32x4_rotr, Generic.u64x2_rotr, Generic.u128x1_rotr,
      Generic.u32x4_shuffle, Generic.u64x4_shuffle, Generic.dmap, Generic.dmap2, Generic.qmap, Generic.qmap2, Generic.omap,
      Generic.omap2, Generic.q_of_o, Generic.o_of_q, Generic.rotate_u128_right, Generic.swapBytes32, Generic.swapBytes64,
      Generic.swapBytes128, bswap32, bswap64, lane32, lane64, pack32, pack64, lo128, hi128, pack256, $ls,*])

open Lean.Parser.Tactic in
/-- `StoreBytes` of the 128-bit types: the model maps the identity / `swap_bytes` over re-packed words -/
macro "port_bytes" "[" ls:simpLemma,* "]" : tactic =>
  `(tactic| simp only [Generic.u32x4, Generic.u64x2, Generic.dmap, Generic.qmap, Generic.readWords32, Generic.readWords64,
      Generic.writeWords32, Generic.writeWords64, Generic.swapBytes32, Generic.swapBytes64, bswap32, bswap64,
      lane32_pack32_0, lane32_pack32_1, lane32_pack32_2, lane32_pack32_3, lane64_pack64_0, lane64_pack64_1, $ls,*])

/-- one in-range index of `Vec4<u64> for u64x4_generic :: insert` -/
macro "port_insert64x4" : tactic =>
  `(tactic| (simp only [SimdPortSrc.u64x4_generic_insert, Generic.u64x4, Generic.u64x4_insert, Generic.u64x2_insert]
             simp
             simp only [lane64, pack64, lo128, hi128, pack256]
             bv_decide))
'''


def struct(name, doc, obs):
    L = []
    for n, stmt, proof in obs:
        L.append("theorem src_port_%s : %s := %s" % (n, stmt, proof))
    L += ["", "/-- %s -/" % doc, "structure %s : Prop where" % name]
    for n, stmt, _ in obs:
        L.append("  %s : %s" % (n, stmt))
    L.append("")
    L.append("theorem %s : %s where" % (name[0].lower() + name[1:], name))
    for n, _, proof in obs:
        L.append("  %s := src_port_%s" % (n, n))
    L.append("")
    return L


out = HEAD.split("\n")
out += struct("PortWordwise", "word-wise operations of the portable backend and of the `x2` / `x4` wrappers: model = source (C12)", W12)
out += struct("PortMovement", "data movement of the portable backend and of the `x2` / `x4` wrappers: model = source (C13)", W13)
out += ["end CC.Src", ""]
path = os.path.join(os.path.dirname(os.path.dirname(os.path.abspath(__file__))), "lean", "CC", "Simd", "SrcPort.lean")
open(path, "w", encoding="utf-8").write("\n".join(out))
print("wrote %s: %d + %d obligations" % (path, len(W12), len(W13)))
