#!/usr/bin/env python3
"""tools/inventory_footprint.py — source-to-Lean translator for C16: the raw-memory ACCESS FOOTPRINTS.

    footprint_regenerate(repo)   writes lean/CC/Gen/FootprintSrc.lean   (CLI: python3 tools/inventory_footprint.py [--repo DIR] [--print])

For every function of the modelled crates that touches caller-provided byte memory through a raw pointer, a load /
store intrinsic or zerocopy — or that hands (part of) such memory on to a function that does — the list of EVENTS it
performs is regenerated from the current source: accesses (read / write, base = the parameter the pointer was derived
from, byte offset as a closed term over the parameters' lengths, size, REQUIRED alignment), guards (`assert_eq!`,
slice-index checks), calls with the sub-region handed on.  A small abstract interpreter over the syntax trees of the
existing translator parsers (tools/inventory_hashc.py `P4`): values are slices (base, offset, length), raw pointers
(base, byte offset, limit, pointee size), index arithmetic, tuples; everything else is opaque — but opaque code is still
walked, and a byte-memory value that flows anywhere the interpreter does not understand is a translation ERROR
(collected in `footprint_errors`, obligation `= []`), never a silent skip.

Selection is automatic: every fn whose body contains a raw-memory token (load/store intrinsic, `ptr::`, `.offset(`,
`as *const`, `as_ptr`, `read_from_bytes`, …), has a raw-pointer parameter, is a method of an `impl StoreBytes`, or has a
byte-memory parameter and calls a selected fn.  Context labels are those of the raw-memory inventory
(tools/inventory_memops.py), so that `CC.Mem.Src.src_memops_covered` can state that every pointer-level item of
`CC.Gen.memOps` lies in a translated function.

Consecutive accesses commute and are emitted in sorted order; `let`s are substituted; loops over constant ranges are
unrolled: renamed locals, reordered independent loads, `offset(k)` ↔ `add(k)`, extra temporaries regenerate a
byte-identical file.  Standard library only; deterministic; no line numbers.
"""
import os, re, sys

_HERE = os.path.dirname(os.path.abspath(__file__))
sys.path.insert(0, _HERE)
import inventory_kernels as K
import inventory_kernels_code as KC
import inventory_hashc as H
import inventory_memops as MO
from inventory_kernels import TErr, is_p, is_id, match_close

DEFAULT_OUT = os.path.join(os.path.dirname(_HERE), "lean", "CC", "Gen", "FootprintSrc.lean")
MODELLED_DIRS = MO.MODELLED_DIRS

# =========================================================================== TRUSTED tables (printed in the header)

# sizes (= natural alignments) of the types a raw pointer may point to
SIZES = {"u8": 1, "i8": 1, "u16": 2, "i16": 2, "u32": 4, "i32": 4, "u64": 8, "i64": 8, "u128": 16, "i128": 16,
         "__m128i": 16, "__m256i": 32, "u128x1": 16, "u32x4": 16, "u64x2": 16, "vec128_storage": 16,
         "u128x2": 32, "u64x4": 32, "u32x4x2": 32, "u64x2x2": 32, "vec256_storage": 32,
         "u128x4": 64, "u32x4x4": 64, "u64x2x4": 64, "vec512_storage": 64}
# load / store intrinsics: name -> (write?, size, required alignment); the pointer is argument 0
INTRIN = {
    "_mm_loadu_si128": (False, 16, 1), "_mm_lddqu_si128": (False, 16, 1), "_mm_load_si128": (False, 16, 16),
    "_mm_loadl_epi64": (False, 8, 1), "_mm_loadu_si64": (False, 8, 1), "_mm_loadu_si32": (False, 4, 1),
    "_mm_stream_load_si128": (False, 16, 16),
    "_mm256_loadu_si256": (False, 32, 1), "_mm256_lddqu_si256": (False, 32, 1), "_mm256_load_si256": (False, 32, 32),
    "_mm256_stream_load_si256": (False, 32, 32),
    "_mm_storeu_si128": (True, 16, 1), "_mm_store_si128": (True, 16, 16), "_mm_stream_si128": (True, 16, 16),
    "_mm_storel_epi64": (True, 8, 1), "_mm_storeu_si64": (True, 8, 1), "_mm_storeu_si32": (True, 4, 1),
    "_mm256_storeu_si256": (True, 32, 1), "_mm256_store_si256": (True, 32, 32), "_mm256_stream_si256": (True, 32, 32),
}
SELF_PRESERVING = ("bswap", "clone", "to_le", "to_be")
RAW_IDS = ("read_unaligned", "write_unaligned", "read_volatile", "write_volatile", "copy_nonoverlapping",
           "copy_to_nonoverlapping", "copy_from_nonoverlapping", "write_bytes", "from_raw_parts", "from_raw_parts_mut",
           "get_unchecked", "get_unchecked_mut", "as_ptr", "as_mut_ptr", "offset", "wrapping_offset", "byte_add",
           "byte_offset", "read_from_bytes", "read_from_prefix", "read_from_suffix", "write_to", "write_to_prefix",
           "write_to_suffix", "ref_from_bytes", "mut_from_bytes")


def trusted_lines():
    L = ["  TRUSTED reading table (Rust form ↦ event / value):",
         "    parameters  `&[u8]`, `&mut [u8]` ↦ slice (no length known);  `&[u8; N]`, `&(BB)GenericArray<u8, UN>` ↦ array, N bytes",
         "                guaranteed by the type;  `*const T` / `*mut T` ↦ raw pointer (the extent it needs is computed from its",
         "                accesses and checked against every caller)",
         "    `s.len()` ↦ .len s;  `let`-bound usize arithmetic `+ - * /` is substituted (a literal subtraction that would go",
         "                below zero is an error);  `for i in a..b` with literal bounds is unrolled",
         "    `s.split_at(_mut)(m)` ↦ .check m s.len; (s[..m], s[m..]);   `&s[a..b]` ↦ .check a b; .check b s.len; (off + a, b - a);",
         "                `&s[..b]`, `&s[a..]` likewise;   `s.as_ptr()` / `s.as_mut_ptr()` ↦ pointer at s's offset, limit = s's end",
         "    `p as *const T`, `p.cast::<T>()` ↦ same address, pointee size of T (`_` : unknown — arithmetic on it is an error);",
         "                `p.offset(k)`, `p.add(k)` (k a literal) ↦ address + k · size_of T",
         "    pointee sizes = natural alignments: " + ", ".join("%s %d" % (k, SIZES[k]) for k in sorted(SIZES)),
         "    `ptr::read_unaligned(p)`, `p.read_unaligned()` ↦ .acc read, size_of T, align 1;  `ptr::write_unaligned` ↦ write, align 1;",
         "                `ptr::read(p)`, `p.read()`, `*p` ↦ .acc read, size_of T, align = natural alignment of T;  `ptr::write`, `*p = v` ↦ write",
         "                `ptr::copy_nonoverlapping(src, dst, n)` (n a literal) ↦ read n·size_of T at src, write n·size_of T at dst, align of T",
         "    intrinsics (pointer = argument 0): " + ", ".join(
             "%s %s/%d/%d" % (k, "w" if INTRIN[k][0] else "r", INTRIN[k][1], INTRIN[k][2]) for k in sorted(INTRIN)),
         "                any other `_mm*` name containing load / store / stream / lddqu / gather / scatter is an error",
         "    zerocopy `T::read_from_bytes(s).unwrap()` ↦ .assertEq s.len (size_of T); .acc read s 0 (size_of T) align 1;",
         "                `v.write_to(s).unwrap()` ↦ .assertEq s.len (size_of v); .acc write …  (size_of a tuple struct of the file:",
         "                the sum of its fields; a result that is not unwrapped is an error)",
         "    `assert_eq!(a, b)`, `assert!(a == b)` ↦ .assertEq;  `assert!(a <= b)` / `>=` / `<` / `>` ↦ .check;  `debug_assert*` ↦ nothing",
         "                (not a guard in release builds)",
         "    calls: a byte-memory argument makes the call an event — `.call [keys]` (a fn of the crate found by name; `Self::f`,",
         "                `self.f(..)`, `self.bswap().f(..)`: the same impl block; `m::f`: the fns of `mod m`; a `lazy_static` function",
         "                pointer: every `m::f` its initialiser names), `.callGeneric` for `W::f(..)` / `self.0[i].f(..)` with W the impl's",
         "                type parameter (struct field 0 : [W; n]).  Calls without a byte-memory argument are opaque; their arguments,",
         "                closures, branches and macro arguments are still walked and must not touch byte memory.",
         "    accesses between two guards / calls commute: emitted sorted by (base, offset, size, alignment, kind)"]
    return L


# =========================================================================== index arithmetic

def lit(n):
    return ("lit", n)


def ex_add(a, b):
    if a[0] == "lit" and b[0] == "lit":
        return lit(a[1] + b[1])
    if a == lit(0):
        return b
    if b == lit(0):
        return a
    if a[0] == "lit":                      # literal last
        a, b = b, a
    if a[0] == "add" and a[2][0] == "lit" and b[0] == "lit":
        return ex_add(a[1], lit(a[2][1] + b[1]))
    return ("add", a, b)


def ex_sub(a, b):
    if a[0] == "lit" and b[0] == "lit":
        if a[1] < b[1]:
            raise TErr("index arithmetic goes below zero: %d - %d" % (a[1], b[1]))
        return lit(a[1] - b[1])
    if b == lit(0):
        return a
    if a == b:
        return lit(0)
    if a[0] == "add" and a[1] == b:
        return a[2]
    if a[0] == "add" and a[2] == b:
        return a[1]
    return ("sub", a, b)


def ex_mul(a, b):
    if a[0] == "lit" and b[0] == "lit":
        return lit(a[1] * b[1])
    if a == lit(1):
        return b
    if b == lit(1):
        return a
    if a == lit(0) or b == lit(0):
        return lit(0)
    return ("mul", a, b)


def ex_div(a, b):
    if b == lit(0):
        raise TErr("division by the literal 0")
    if a[0] == "lit" and b[0] == "lit":
        return lit(a[1] // b[1])
    if b == lit(1):
        return a
    return ("div", a, b)


def ex_lean(e):
    k = e[0]
    if k == "lit":
        return "(.lit %d)" % e[1]
    if k == "len":
        return "(.len %s)" % lstr(e[1])
    return "(.%s %s %s)" % (k, ex_lean(e[1]), ex_lean(e[2]))


def lstr(s):
    return '"' + s.replace("\\", "\\\\").replace('"', '\\"') + '"'


# =========================================================================== one source file

class Fn(object):
    pass


class File(object):
    """token index of one Rust file.  Lexed from the text prepared by the raw-memory inventory (comments, string bodies and
    `#[cfg(test)]` items blanked), so that token positions give the inventory's context labels."""

    def __init__(self, repo, rel):
        self.rel = rel
        self.text = MO.prepared(open(os.path.join(repo, rel), encoding="utf-8", errors="replace").read())
        self.toks = t = K.lex(self.text)
        self.pos = []
        p = 0
        for x in t:
            q = self.text.find(x.s, p)
            if q < 0:
                raise TErr("%s: token `%s` not found again" % (rel, x.s))
            self.pos.append(q)
            p = q + len(x.s)
        self.spans = MO.spans(self.text)
        n = len(t)
        # impl blocks (also inside macro_rules bodies): (open brace, end, generic names, trait text, self type tokens)
        self.impls = []
        for i in range(n):
            if is_id(t[i], "impl") and not (i > 0 and (is_p(t[i - 1], ":") or is_p(t[i - 1], "(") or is_p(t[i - 1], "+"))):
                j, depth = i + 1, 0
                while j < n and not (is_p(t[j], "{") and depth <= 0):
                    s = t[j].s if t[j].k == "p" else ""
                    depth += {"<": 1, "<<": 2, ">": -1, ">>": -2}.get(s, 0)
                    if s == "->":
                        pass
                    if s == ";":
                        break
                    j += 1
                if j >= n or not is_p(t[j], "{"):
                    continue
                hdr = t[i + 1:j]
                gens = []
                if hdr and is_p(hdr[0], "<"):
                    d, q = 0, 0
                    while q < len(hdr):
                        s = hdr[q].s if hdr[q].k == "p" else ""
                        d += {"<": 1, "<<": 2, ">": -1, ">>": -2}.get(s, 0)
                        if d == 1 and hdr[q].k == "id" and (is_p(hdr[q - 1], "<") or is_p(hdr[q - 1], ",")):
                            gens.append(hdr[q].s)
                        q += 1
                        if d <= 0:
                            break
                    hdr = hdr[q:]
                for q, x in enumerate(hdr):
                    if is_id(x, "where"):
                        hdr = hdr[:q]
                        break
                trait, d = None, 0
                for q, x in enumerate(hdr):
                    s = x.s if x.k == "p" else ""
                    d += {"<": 1, "<<": 2, ">": -1, ">>": -2, "(": 1, ")": -1}.get(s, 0)
                    if is_id(x, "for") and d == 0:
                        trait, hdr = "".join(y.s for y in hdr[:q]), hdr[q + 1:]
                        break
                self.impls.append((j, match_close(t, j), gens, trait, hdr))
        self.fns = []
        for i in range(n - 2):
            if is_id(t[i], "fn") and is_id(t[i + 1]) and (is_p(t[i + 2], "(") or is_p(t[i + 2], "<")):
                f = self._fn(i)
                if f is not None:
                    self.fns.append(f)

    def enclosing_impl(self, i):
        best = None
        for im in self.impls:
            if im[0] < i < im[1] and (best is None or im[0] > best[0]):
                best = im
        return best

    def _fn(self, i):
        t = self.toks
        f = Fn()
        f.name, f.tokpos, f.file, f.err = t[i + 1].s, i, self, None
        f.ctx = MO.context_at(self.spans, self.pos[i])
        f.impl = self.enclosing_impl(i)
        # find the body
        j = i + 2
        while j < len(t) and not is_p(t[j], "{") and not is_p(t[j], ";"):
            j = match_close(t, j) if (t[j].k == "p" and t[j].s in "([") else j + 1
        if j >= len(t) or not is_p(t[j], "{"):
            return None                                                     # declaration without a body
        f.body = (j + 1, match_close(t, j) - 1)
        f.sig = (i + 2, j)
        f.params, f.generics, f.ret = None, [], None
        try:
            p = H.P4(t, i + 2)
            f.generics = [g[0] for g in p.generics()]
            p.eat_p("(")
            params = []
            while not p.at_p(")"):
                if p.at_p("&") and (p.at_id("self", 1) or (p.at_id("mut", 1) and p.at_id("self", 2))):
                    p.i += 3 if p.at_id("mut", 1) else 2
                    params.append(("self", None))
                elif p.at_id("self") or (p.at_id("mut") and p.at_id("self", 1)):
                    p.i += 2 if p.at_id("mut") else 1
                    params.append(("self", None))
                else:
                    pat = p.pattern()
                    p.eat_p(":")
                    params.append((pat, p.type_()))
                if p.at_p(","):
                    p.i += 1
                elif not p.at_p(")"):
                    raise TErr("parameter list not understood at `%s`" % p.ctx())
            p.eat_p(")")
            if p.at_p("->"):
                p.i += 1
                f.ret = p.type_()
            f.params = params
        except TErr as ex:
            f.err = TErr("signature: %s" % ex)
        return f

    def struct_fields(self, name):
        """field types of `struct name` (tuple or named), None when not declared here"""
        t = self.toks
        for i in range(len(t) - 1):
            if is_id(t[i], "struct") and is_id(t[i + 1], name):
                p = H.P4(t, i + 2)
                try:
                    p.generics()
                    while not (p.at_p("{") or p.at_p("(") or p.at_p(";")):
                        p.i += 1
                    if p.at_p(";"):
                        return []
                    e = match_close(t, p.i)
                    named = p.at_p("{")
                    q = H.P4(t, p.i + 1, e - 1)
                    out = []
                    while not q.done():
                        while q.at_p("#"):
                            q.i = K.skip_attr(t, q.i)
                        if q.at_id("pub"):
                            q.i += 1
                            if q.at_p("("):
                                q.i = match_close(t, q.i)
                        if named:
                            q.eat_id()
                            q.eat_p(":")
                        out.append(q.type_())
                        if q.at_p(","):
                            q.i += 1
                    return out
                except TErr:
                    return None
        return None

    def macro_def(self, name):
        """tokens of the (single-arm) `macro_rules! name` body and its parameter names, searched anywhere in the file"""
        t = self.toks
        for i in range(len(t) - 3):
            if is_id(t[i], "macro_rules") and is_p(t[i + 1], "!") and is_id(t[i + 2], name) and t[i + 3].k == "p" \
                    and t[i + 3].s in K.OPEN:
                e = match_close(t, i + 3)
                try:
                    return KC.MacroDef(name, t[i + 4:e - 1])
                except TErr:
                    return None
        return None


# =========================================================================== parameters

def mem_param(ty):
    """(kind, guaranteed length | None, pointee size | None) for a byte-memory parameter type, else None"""
    if ty is None:
        return None
    if ty[0] == "ref":
        inner = ty[2]
        if inner[0] == "array" and inner[1] == ("path", ["u8"], []):
            if inner[2] is None:
                return ("slice", None, None)
            if inner[2][0] == "int":
                return ("array", inner[2][1], None)
            raise TErr("array length of a byte-array parameter is not a literal")
        if inner[0] == "path" and inner[1][-1].endswith("GenericArray") and len(inner[2]) == 2 \
                and inner[2][0] == ("path", ["u8"], []):
            n = inner[2][1]
            m = re.match(r"U(\d+)$", n[1][-1]) if n[0] == "path" and not n[2] else None
            if not m:
                return ("slice", None, None)          # length not a typenum literal: nothing is guaranteed
            return ("array", int(m.group(1)), None)
        return None
    if ty[0] == "ptr":
        return ("ptr", None, type_size(ty[1], None))
    return None


def type_size(ty, file):
    """size in bytes (= natural alignment for scalars / vectors) of a parsed type; None when unknown"""
    if ty is None:
        return None
    if ty[0] == "path":
        nm = ty[1][-1]
        if nm in SIZES and not ty[2]:
            return SIZES[nm]
        if nm == "_":
            return None
        return named_size(nm, file)
    if ty[0] == "array" and ty[2] is not None and ty[2][0] == "int":
        s = type_size(ty[1], file)
        return None if s is None else s * ty[2][1]
    return None


def named_size(nm, file):
    if nm in SIZES:
        return SIZES[nm]
    if file is None:
        return None
    fs = file.struct_fields(nm)
    if not fs:
        return None
    tot = 0
    for ft in fs:
        s = type_size(ft, file)
        if s is None:
            return None
        tot += s
    return tot


# =========================================================================== the abstract interpreter

class Env(object):
    def __init__(self, parent=None):
        self.d, self.parent = {}, parent

    def find(self, n):
        e = self
        while e is not None:
            if n in e.d:
                return e.d[n]
            e = e.parent
        return None

    def mem_names(self):
        out, e = set(), self
        seen = set()
        while e is not None:
            for k, v in e.d.items():
                if k not in seen:
                    seen.add(k)
                    if has_mem(v):
                        out.add(k)
            e = e.parent
        return out


def has_mem(v):
    if v[0] in ("slice", "ptr", "pending"):
        return True
    if v[0] == "tuple":
        return any(has_mem(x) for x in v[1])
    return False


OPQ = ("opaque", None)


class Interp(object):
    def __init__(self, crate, fn):
        self.crate, self.fn, self.file = crate, fn, fn.file
        self.events = []
        self.pending = 0
        self.impl_gens = fn.impl[2] if fn.impl else []
        self.self_ty = fn.impl[4][0].s if fn.impl and fn.impl[4] and fn.impl[4][0].k == "id" else None
        if fn.impl and fn.impl[4] and is_p(fn.impl[4][0], "$"):
            self.self_ty = "$" + fn.impl[4][1].s

    # ---- events
    def emit(self, ev):
        self.events.append(ev)

    def acc(self, write, p, size, align, what):
        if p[0] != "ptr":
            raise TErr("%s: the address is not a pointer derived from a byte-memory parameter" % what)
        if size is None:
            raise TErr("%s: size of the pointee is unknown" % what)
        self.emit(("acc", write, p[1], p[2], size, align))

    # ---- running a function
    def run(self):
        f = self.fn
        if f.err:
            raise f.err
        env = Env()
        self.params = []
        for pat, ty in f.params:
            if pat == "self":
                env.d["self"] = ("opaque", "Self")
                continue
            mp = mem_param(ty)
            if pat[0] != "pid":
                if mp:
                    raise TErr("byte-memory parameter bound by a pattern")
                self.bind(pat, OPQ, env)
                continue
            nm = pat[1]
            if mp is None:
                tn = ty[1][-1] if ty and ty[0] == "path" else None
                env.d[nm] = ("opaque", tn)
                continue
            kind, glen, esz = mp
            self.params.append([nm, kind, glen])
            if kind == "ptr":
                env.d[nm] = ("ptr", nm, lit(0), ("len", nm), esz)
            else:
                env.d[nm] = ("slice", nm, lit(0), ("len", nm))
        t = self.file.toks
        p = H.P4(t, f.body[0], f.body[1])
        stmts, tail = p.block_body()
        self.exec_stmts(stmts, tail, Env(env))
        if self.pending:
            raise TErr("the result of a zerocopy read_from_bytes / write_to is not unwrapped")
        return self.params, canonical(self.events)

    def bind(self, pat, v, env):
        if pat[0] == "pid":
            env.d[pat[1]] = v
        elif pat[0] in ("ptuple", "pstruct"):
            items = pat[1] if pat[0] == "ptuple" else pat[2]
            if v[0] == "tuple" and len(v[1]) == len(items):
                for q, x in zip(items, v[1]):
                    self.bind(q, x, env)
            else:
                if has_mem(v):
                    raise TErr("byte memory destructured by a pattern that is not understood")
                for q in items:
                    self.bind(q, OPQ, env)
        else:
            raise TErr("pattern %s" % (pat[0],))

    def exec_stmts(self, stmts, tail, env):
        for st in stmts:
            k = st[0]
            if k == "let":
                v = self.ev(st[3], env) if st[3] is not None else OPQ
                if st[2] is not None and v[0] == "ptr" and st[2][0] == "ptr":
                    v = ("ptr", v[1], v[2], v[3], type_size(st[2][1], self.file))
                self.bind(st[1], v, env)
            elif k == "const":
                env.d[st[1]] = self.ev(st[3], env)
            elif k == "macrodef":
                self.no_mem_tokens(st[2], env, "local macro_rules! %s" % st[1])
            elif k == "expr":
                self.ev(st[1], env)
            elif k == "assign":
                self.assign(st, env)
            elif k == "for":
                self.exec_for(st, env)
            else:
                raise TErr("statement kind %s" % k)
        if tail is not None:
            return self.ev(tail, env)
        return OPQ

    def assign(self, st, env):
        _, lhs, op, rhs = st
        rv = self.ev(rhs, env)
        if lhs[0] == "deref":
            p = self.ev(lhs[1], env)
            if p[0] == "ptr":
                if op is not None:
                    self.acc(False, p, p[4], p[4], "`*p %s= ..`" % op)
                self.acc(True, p, p[4], p[4], "`*p = ..`")
                return
            return
        if lhs[0] == "index":
            b = self.ev(lhs[1], env)
            if has_mem(b):
                raise TErr("element store `s[i] = ..` on byte memory")
            self.ev(lhs[2], env)
            return
        lv = self.ev(lhs, env) if lhs[0] != "path" else None
        if lhs[0] == "path" and len(lhs[1]) == 1:
            old = env.find(lhs[1][0])
            if op is None:
                e = env
                while e is not None and lhs[1][0] not in e.d:
                    e = e.parent
                (e or env).d[lhs[1][0]] = rv
            elif old is not None and (has_mem(old) or old[0] == "nat"):
                if old[0] == "nat" and rv[0] == "nat" and op in ("+", "-", "*", "/"):
                    nv = ("nat", {"+": ex_add, "-": ex_sub, "*": ex_mul, "/": ex_div}[op](old[1], rv[1]))
                    e = env
                    while e is not None and lhs[1][0] not in e.d:
                        e = e.parent
                    e.d[lhs[1][0]] = nv
                else:
                    raise TErr("compound assignment to `%s`" % lhs[1][0])
        elif lv is not None and has_mem(lv):
            raise TErr("assignment through a byte-memory place")

    def exec_for(self, st, env):
        _, pat, it, body = st
        if it[0] == "range" and it[1] is not None and it[2] is not None:
            lo, hi = self.ev(it[1], env), self.ev(it[2], env)
            if lo[0] == "nat" and hi[0] == "nat" and lo[1][0] == "lit" and hi[1][0] == "lit":
                a, b = lo[1][1], hi[1][1] + (1 if it[3] else 0)
                if b - a > 256:
                    raise TErr("loop over %d iterations is not unrolled" % (b - a))
                for i in range(a, b):
                    e2 = Env(env)
                    self.bind(pat, ("nat", lit(i)), e2)
                    self.exec_stmts(body[1], body[2], e2)
                return
        iv = self.ev(it, env)
        if has_mem(iv):
            raise TErr("loop over byte memory")
        mark = len(self.events)
        e2 = Env(env)
        self.bind(pat, OPQ, e2)
        self.exec_stmts(body[1], body[2], e2)
        if len(self.events) != mark:
            raise TErr("byte-memory events inside a loop whose bounds are not literals")

    def quiet(self, thunk, what):
        mark = len(self.events)
        v = thunk()
        if len(self.events) != mark:
            raise TErr("byte-memory events inside %s" % what)
        return v

    def no_mem_tokens(self, toks, env, what):
        names = env.mem_names()
        for i, x in enumerate(toks):
            if x.k != "id":
                continue
            if x.s in names:
                raise TErr("%s mentions the byte-memory value `%s`" % (what, x.s))
            if raw_token(toks, i):
                raise TErr("%s contains the raw-memory form `%s`" % (what, x.s))

    # ---- expressions
    def ev(self, e, env):
        k = e[0]
        if k == "int":
            return ("nat", lit(e[1]))
        if k == "str":
            return OPQ
        if k == "path":
            if len(e[1]) == 1:
                v = env.find(e[1][0])
                if v is not None:
                    return v
            return ("opaque", None) if len(e[1]) > 1 or e[1][0] != "self" else ("opaque", "Self")
        if k == "paren":
            return self.ev(e[1], env)
        if k == "block":
            return self.exec_stmts(e[1], e[2], Env(env))
        if k == "if":
            c = self.quiet(lambda: self.ev(e[1], env), "an `if` condition")
            a = self.quiet(lambda: self.ev(e[2], env), "a branch of an `if` (the footprint would depend on data)")
            b = self.quiet(lambda: self.ev(e[3], env), "a branch of an `if`") if e[3] is not None else OPQ
            if has_mem(a) or has_mem(b):
                raise TErr("`if` selects between byte-memory values")
            return OPQ
        if k == "match":
            self.quiet(lambda: self.ev(e[1], env), "a `match` scrutinee")
            for _, arm in e[2]:
                v = self.quiet(lambda: self.ev(arm, env), "a `match` arm")
                if has_mem(v):
                    raise TErr("`match` selects between byte-memory values")
            return OPQ
        if k == "closure":
            e2 = Env(env)
            for q in e[1]:
                self.bind(q, OPQ, e2)
            self.quiet(lambda: self.ev(e[2], e2), "a closure")
            return OPQ
        if k == "bin":
            a, b = self.ev(e[2], env), self.ev(e[3], env)
            if has_mem(a) or has_mem(b):
                raise TErr("operator `%s` on a byte-memory value" % e[1])
            if a[0] == "nat" and b[0] == "nat" and e[1] in ("+", "-", "*", "/"):
                return ("nat", {"+": ex_add, "-": ex_sub, "*": ex_mul, "/": ex_div}[e[1]](a[1], b[1]))
            if a[0] == "nat" and b[0] == "nat" and e[1] in ("==", "<=", ">=", "<", ">", "!="):
                return ("cmp", e[1], a[1], b[1])
            return OPQ
        if k == "un":
            v = self.ev(e[2], env)
            if has_mem(v):
                raise TErr("operator `%s` on a byte-memory value" % e[1])
            return OPQ
        if k == "cast":
            v = self.ev(e[1], env)
            ty = e[2]
            if v[0] == "ptr":
                if ty[0] != "ptr":
                    raise TErr("a pointer into byte memory is cast to a non-pointer type")
                return ("ptr", v[1], v[2], v[3], type_size(ty[1], self.file))
            if has_mem(v):
                raise TErr("cast of a byte-memory value")
            if v[0] == "nat" and ty[0] == "path" and ty[1][-1] in ("usize", "u64", "isize", "i64", "u32", "i32"):
                return v
            return OPQ
        if k == "addr":
            return self.ev(e[2], env)
        if k == "deref":
            v = self.ev(e[1], env)
            if v[0] == "ptr":
                self.acc(False, v, v[4], v[4], "`*p`")
                return OPQ
            return v
        if k == "tuple":
            return ("tuple", [self.ev(x, env) for x in e[1]])
        if k == "tfield":
            v = self.ev(e[1], env)
            if v[0] == "tuple":
                if e[2] >= len(v[1]):
                    raise TErr("tuple index out of range")
                return v[1][e[2]]
            if has_mem(v):
                raise TErr("tuple field of a byte-memory value")
            if v[0] == "opaque" and v[1] == "Self":
                return ("opaque", ("field", e[2]))
            return OPQ
        if k == "field":
            v = self.ev(e[1], env)
            if has_mem(v):
                raise TErr("field `%s` of a byte-memory value" % e[2])
            return OPQ
        if k == "index":
            return self.index(e, env)
        if k in ("array", "structlit"):
            items = e[1] if k == "array" else [x[1] for x in e[2]]
            for x in items:
                v = self.ev(x, env)
                if has_mem(v):
                    raise TErr("byte-memory value stored in an aggregate")
            return OPQ
        if k == "repeat":
            self.ev(e[1], env)
            self.ev(e[2], env)
            return OPQ
        if k == "range":
            for x in (e[1], e[2]):
                if x is not None and has_mem(self.ev(x, env)):
                    raise TErr("range over byte memory")
            return OPQ
        if k == "call":
            return self.call(e, env)
        if k == "mcall":
            return self.mcall(e, env)
        if k == "macro":
            return self.macro(e, env)
        if k in ("return", "try"):
            raise TErr("`%s` (early exit) in a function with byte-memory events" % ("return" if k == "return" else "?"))
        raise TErr("expression form `%s`" % k)

    def index(self, e, env):
        b = self.ev(e[1], env)
        ix = e[2]
        if b[0] == "slice":
            if ix[0] != "range":
                raise TErr("element access `s[i]` on byte memory")
            _, base, off, ln = b
            lo = self.ev(ix[1], env) if ix[1] is not None else None
            hi = self.ev(ix[2], env) if ix[2] is not None else None
            for v in (lo, hi):
                if v is not None and v[0] != "nat":
                    raise TErr("slice bound is not index arithmetic over literals and lengths")
            if hi is not None and ix[3]:
                hi = ("nat", ex_add(hi[1], lit(1)))
            if lo is not None and hi is not None:
                self.emit(("check", lo[1], hi[1]))
                self.emit(("check", hi[1], ln))
                return ("slice", base, ex_add(off, lo[1]), ex_sub(hi[1], lo[1]))
            if hi is not None:
                self.emit(("check", hi[1], ln))
                return ("slice", base, off, hi[1])
            if lo is not None:
                self.emit(("check", lo[1], ln))
                return ("slice", base, ex_add(off, lo[1]), ex_sub(ln, lo[1]))
            return b
        if has_mem(b):
            raise TErr("indexing of a byte-memory value")
        iv = self.ev(ix, env)
        if has_mem(iv):
            raise TErr("byte memory used as an index")
        if b[0] == "opaque" and b[1] == ("field", 0):
            return ("opaque", ("elem0",))
        return OPQ

    # ---- macros
    def macro(self, e, env):
        name, toks = e[1], e[2]
        if name in ("debug_assert", "debug_assert_eq", "debug_assert_ne"):
            self.no_mem_effects(toks, env, name)
            return OPQ
        if name in ("assert_eq", "assert"):
            args = KC.split_args(toks)
            vals = [self.quiet(lambda a=a: self.ev(H.P4(a).expr(), env), "an argument of %s!" % name) for a in args[:2 if name == "assert_eq" else 1]]
            if name == "assert_eq":
                if len(vals) == 2 and vals[0][0] == "nat" and vals[1][0] == "nat":
                    self.emit(("assertEq", vals[0][1], vals[1][1]))
                elif any(has_mem(v) for v in vals):
                    raise TErr("assert_eq! on byte-memory values")
                else:
                    self.no_mem_tokens(toks, env, "assert_eq!")
                return OPQ
            v = vals[0]
            if v[0] == "cmp":
                op, a, b = v[1], v[2], v[3]
                if op == "==":
                    self.emit(("assertEq", a, b))
                elif op == "<=":
                    self.emit(("check", a, b))
                elif op == ">=":
                    self.emit(("check", b, a))
                elif op == "<":
                    self.emit(("check", ex_add(a, lit(1)), b))
                elif op == ">":
                    self.emit(("check", ex_add(b, lit(1)), a))
                else:
                    raise TErr("assert!(a != b) on lengths")
            else:
                self.no_mem_tokens(toks, env, "assert!")
            return OPQ
        self.no_mem_tokens(toks, env, "the arguments of %s!" % name)
        return OPQ

    def no_mem_effects(self, toks, env, name):
        for i, x in enumerate(toks):
            if x.k == "id" and raw_token(toks, i):
                raise TErr("%s! contains the raw-memory form `%s`" % (name, x.s))

    # ---- calls
    def ptr_arith(self, p, kv, sign, what):
        if kv[0] != "nat" or kv[1][0] != "lit":
            raise TErr("%s with a count that is not a literal" % what)
        if p[4] is None:
            raise TErr("%s on a pointer whose pointee type is not known" % what)
        d = kv[1][1] * p[4]
        off = ex_add(p[2], lit(d)) if sign > 0 else ex_sub(p[2], lit(d))
        return ("ptr", p[1], off, p[3], p[4])

    def call(self, e, env):
        segs, args = e[1], e[2]
        targs = e[3] if len(e) > 3 else []
        name = segs[-1]
        vals = [self.ev(a, env) for a in args]
        isptr = len(segs) >= 2 and segs[-2] == "ptr" or (len(segs) == 1 and name in ("read_unaligned", "write_unaligned", "copy_nonoverlapping"))
        if isptr:
            if name in ("read_unaligned", "read", "read_volatile") and len(vals) == 1:
                p = vals[0]
                self.acc(False, p, p[4] if p[0] == "ptr" else None, 1 if name == "read_unaligned" else (p[4] if p[0] == "ptr" else None), "ptr::%s" % name)
                return OPQ
            if name in ("write_unaligned", "write", "write_volatile") and len(vals) == 2:
                p = vals[0]
                if has_mem(vals[1]):
                    raise TErr("ptr::%s stores a byte-memory value" % name)
                self.acc(True, p, p[4] if p[0] == "ptr" else None, 1 if name == "write_unaligned" else (p[4] if p[0] == "ptr" else None), "ptr::%s" % name)
                return OPQ
            if name in ("copy_nonoverlapping", "copy") and len(vals) == 3:
                src, dst, n = vals
                if n[0] != "nat" or n[1][0] != "lit":
                    raise TErr("ptr::%s with a count that is not a literal" % name)
                for w, p in ((False, src), (True, dst)):
                    if p[0] == "ptr":
                        if p[4] is None:
                            raise TErr("ptr::%s: size of the pointee is unknown" % name)
                        self.emit(("acc", w, p[1], p[2], p[4] * n[1][1], p[4]))
                    elif has_mem(p):
                        raise TErr("ptr::%s on a byte-memory value that is not a pointer" % name)
                if src[0] != "ptr" and dst[0] != "ptr":
                    return OPQ
                return OPQ
            if any(has_mem(v) for v in vals):
                raise TErr("ptr::%s on byte memory is not in the reading table" % name)
            return OPQ
        if name.startswith("_mm"):
            if name in INTRIN:
                w, size, al = INTRIN[name]
                if not vals:
                    raise TErr("%s without arguments" % name)
                if any(has_mem(v) for v in vals[1:]):
                    raise TErr("%s stores a byte-memory value" % name)
                self.acc(w, vals[0], size, al, name)
                return OPQ
            if re.search(r"load|store|stream|lddqu|gather|scatter", name):
                raise TErr("intrinsic %s is not in the reading table" % name)
            if any(has_mem(v) for v in vals):
                raise TErr("intrinsic %s receives a byte-memory value" % name)
            return OPQ
        if name in ("read_from_bytes",) and len(segs) >= 2 and len(vals) == 1 and vals[0][0] == "slice":
            size = named_size(segs[-2] if segs[-2] != "Self" else (self.self_ty or ""), self.file)
            if size is None:
                raise TErr("size of `%s` (zerocopy read_from_bytes) is unknown" % segs[-2])
            self.pending += 1
            return ("pending", False, vals[0], size)
        if not any(has_mem(v) for v in vals):
            return ("opaque", self.ret_type_of(segs, vals))
        # a byte-memory value is handed on
        if len(segs) == 2 and (segs[0] in self.impl_gens or segs[0] in self.fn.generics):
            self.emit(("callGeneric", name, self.gen_args(vals)))
            return OPQ
        cands = self.crate.resolve(self, segs, vals, env)
        self.emit(("call", cands, vals))
        return OPQ

    def ret_type_of(self, segs, vals):
        fs = [g for g in self.file.fns if g.name == segs[-1] and g.params is not None]
        if len(segs) == 2 and segs[0] == "Self" and segs[1] == "new":
            return "Self"
        if len(segs) != 1 or len(fs) != 1:
            return None
        g = fs[0]
        if g.ret and g.ret[0] == "path" and len(g.ret[1]) == 1:
            r = g.ret[1][0]
            if r in g.generics:
                for (pat, ty), v in zip(g.params, vals):
                    if ty == ("path", [r], []) and v[0] == "opaque":
                        return v[1]
                return None
            return r
        return None

    def gen_args(self, vals):
        out = []
        for v in vals:
            if v[0] == "slice":
                out.append((v[1], v[2], v[3]))
            elif v[0] == "ptr":
                out.append((v[1], v[2], ex_sub(v[3], v[2])))
            elif has_mem(v):
                raise TErr("a tuple of byte-memory values is handed to a generic method")
        return out

    def mcall(self, e, env):
        recv, name, args = e[1], e[2], e[3]
        targs = e[4] if len(e) > 4 else []
        v = self.ev(recv, env)
        vals = [self.ev(a, env) for a in args]
        if v[0] == "slice":
            _, base, off, ln = v
            if name == "len" and not vals:
                return ("nat", ln)
            if name in ("as_ptr", "as_mut_ptr") and not vals:
                return ("ptr", base, off, ex_add(off, ln), 1)
            if name in ("split_at", "split_at_mut") and len(vals) == 1 and vals[0][0] == "nat":
                m = vals[0][1]
                self.emit(("check", m, ln))
                return ("tuple", [("slice", base, off, m), ("slice", base, ex_add(off, m), ex_sub(ln, m))])
            if name in ("is_empty",) and not vals:
                return OPQ
            if name in ("as_ref", "as_mut", "as_slice", "as_mut_slice", "borrow", "borrow_mut") and not vals:
                return v
            raise TErr("slice method `.%s(..)` on byte memory is not in the reading table" % name)
        if v[0] == "ptr":
            if name in ("offset", "add", "wrapping_add", "wrapping_offset") and len(vals) == 1:
                return self.ptr_arith(v, vals[0], +1, "`.%s(..)`" % name)
            if name in ("sub", "wrapping_sub") and len(vals) == 1:
                return self.ptr_arith(v, vals[0], -1, "`.%s(..)`" % name)
            if name == "cast" and not vals:
                return ("ptr", v[1], v[2], v[3], type_size(targs[0], self.file) if targs else None)
            if name in ("read_unaligned", "read") and not vals:
                self.acc(False, v, v[4], 1 if name == "read_unaligned" else v[4], "`.%s()`" % name)
                return OPQ
            if name in ("write_unaligned", "write") and len(vals) == 1:
                if has_mem(vals[0]):
                    raise TErr("`.%s(..)` stores a byte-memory value" % name)
                self.acc(True, v, v[4], 1 if name == "write_unaligned" else v[4], "`.%s(..)`" % name)
                return OPQ
            raise TErr("pointer method `.%s(..)` is not in the reading table" % name)
        if v[0] == "pending":
            if name in ("unwrap", "expect"):
                _, w, s, size = v
                self.pending -= 1
                self.emit(("assertEq", s[3], lit(size)))
                self.emit(("acc", w, s[1], s[2], size, 1))
                return OPQ
            raise TErr("zerocopy result consumed by `.%s(..)` (only unwrap / expect are in the reading table)" % name)
        if has_mem(v):
            raise TErr("method `.%s(..)` on a byte-memory value" % name)
        if not any(has_mem(x) for x in vals):
            ty = v[1] if (v[0] == "opaque" and name in SELF_PRESERVING) else None
            return ("opaque", ty)
        # a byte-memory argument
        if name == "write_to" and len(vals) == 1 and vals[0][0] == "slice":
            tn = v[1] if v[0] == "opaque" else None
            if tn == "Self":
                tn = self.self_ty
            size = named_size(tn, self.file) if isinstance(tn, str) else None
            if size is None:
                raise TErr("size of the value written by zerocopy write_to is unknown")
            self.pending += 1
            return ("pending", True, vals[0], size)
        if v[0] == "opaque" and v[1] == "Self":
            cands = self.crate.resolve(self, ["Self", name], vals, env)
            self.emit(("call", cands, vals))
            return OPQ
        if v[0] == "opaque" and v[1] == ("elem0",) and self.field0_is_generic():
            self.emit(("callGeneric", name, self.gen_args(vals)))
            return OPQ
        raise TErr("method `.%s(..)` receives byte memory and its receiver's type is not known" % name)

    def field0_is_generic(self):
        if not self.self_ty:
            return False
        fs = self.file.struct_fields(self.self_ty)
        return bool(fs) and fs[0][0] == "array" and fs[0][1][0] == "path" and len(fs[0][1][1]) == 1 \
            and fs[0][1][1][0] in self.impl_gens


def raw_token(toks, i):
    x = toks[i]
    if x.s.startswith("_mm") and re.search(r"load|store|stream|lddqu|gather|scatter", x.s):
        return True
    if x.s == "ptr" and i + 1 < len(toks) and is_p(toks[i + 1], "::"):
        return True
    if x.s in RAW_IDS and i + 1 < len(toks) and (is_p(toks[i + 1], "(") or is_p(toks[i + 1], "::")) and i > 0 \
            and (is_p(toks[i - 1], ".") or is_p(toks[i - 1], "::")):
        return True
    if x.s == "as" and i + 2 < len(toks) and is_p(toks[i + 1], "*") and (is_id(toks[i + 2], "const") or is_id(toks[i + 2], "mut")):
        return True
    return False


def canonical(events):
    """consecutive accesses in sorted order"""
    out, run = [], []

    def flush():
        run.sort(key=lambda a: (a[2], ex_key(a[3]), a[4], a[5], a[1]))
        out.extend(run)
        del run[:]

    for ev in events:
        if ev[0] == "acc":
            run.append(ev)
        else:
            flush()
            out.append(ev)
    flush()
    return out


def ex_key(e):
    if e[0] == "lit":
        return (0, e[1], "")
    return (1, 0, ex_lean(e))


# =========================================================================== a crate: selection, call resolution

class Crate(object):
    def __init__(self, repo, d):
        self.dir = d
        root = os.path.join(repo, d)
        self.files, self.errors = [], []
        paths = []
        for dp, dns, fns in sorted(os.walk(root)):
            dns.sort()
            paths += [os.path.join(dp, fn) for fn in sorted(fns) if fn.endswith(".rs")]
        for p in paths:
            rel = os.path.relpath(p, repo)
            try:
                self.files.append(File(repo, rel))
            except TErr as ex:
                self.errors.append("%s: %s" % (rel, ex))
        self.all = [f for fl in self.files for f in fl.fns]

    def key(self, f):
        return "%s :: %s" % (f.file.rel, f.ctx)

    def mem_param_names(self, f):
        out = []
        for pat, ty in (f.params or []):
            try:
                if pat != "self" and pat[0] == "pid" and mem_param(ty):
                    out.append(pat[1])
            except TErr:
                out.append(pat[1])
        return out

    def has_mem_param(self, f):
        return bool(self.mem_param_names(f))

    def select(self):
        sel = []
        for f in self.all:
            t = f.file.toks
            raw = any(t[i].k == "id" and raw_token(t, i) for i in range(f.body[0], f.body[1]))
            sigptr = any(is_p(t[i], "*") and (is_id(t[i + 1], "const") or is_id(t[i + 1], "mut")) for i in range(f.sig[0], f.sig[1]))
            sb = f.impl is not None and f.impl[3] is not None and f.impl[3].split("<")[0].endswith("StoreBytes")
            if raw or sigptr or sb:
                sel.append(f)
        # nested fns: a fn containing a selected fn's tokens is selected through its own tokens; drop outer duplicates later
        names = set(f.name for f in sel if self.has_mem_param(f))
        changed = True
        while changed:
            changed = False
            for f in self.all:
                if f in sel or not self.has_mem_param(f):
                    continue
                t = f.file.toks
                mine = set(self.mem_param_names(f))
                hit = False
                for i in range(f.body[0], f.body[1] - 1):
                    if t[i].k == "id" and t[i].s in names and is_p(t[i + 1], "(") and not is_id(t[i - 1], "fn"):
                        e = match_close(t, i + 1)
                        if any(x.k == "id" and x.s in mine for x in t[i + 2:e - 1]):
                            hit = True
                            break
                if hit:
                    sel.append(f)
                    if f.name not in names:
                        names.add(f.name)
                        changed = True
        return sorted(sel, key=self.key)

    def resolve(self, it, segs, vals, env):
        """keys of the crate fns a call with byte-memory arguments may reach"""
        name = segs[-1]
        kinds = [("ptr" if v[0] == "ptr" else "slice") for v in vals if v[0] in ("ptr", "slice")]
        if any(has_mem(v) and v[0] not in ("ptr", "slice") for v in vals):
            raise TErr("a tuple of byte-memory values is handed to `%s`" % name)

        def compatible(g):
            if g.params is None:
                return False
            ks = []
            for pat, ty in g.params:
                if pat == "self":
                    continue
                try:
                    mp = mem_param(ty)
                except TErr:
                    return False
                if mp:
                    ks.append("ptr" if mp[0] == "ptr" else "slice")
            return ks == kinds and len([p for p in g.params if p[0] != "self"]) == len(vals)

        cands = [g for g in self.all if g.name == name and compatible(g)]
        if len(segs) >= 2 and segs[-2] == "Self":
            cands = [g for g in cands if g.impl is not None and it.fn.impl is not None and g.impl[0] == it.fn.impl[0]
                     and g.file is it.file]
        elif len(segs) >= 2 and segs[-2] not in ("self", "super", "crate"):
            cands = [g for g in cands if ("mod %s" % segs[-2]) in g.ctx.split(" / ")]
        elif len(segs) == 1:
            same = [g for g in cands if g.file is it.file and g.impl is None]
            # a bare name: a free fn (of this file first, else any free fn of the crate with that name)
            cands = same or [g for g in cands if g.impl is None]
        if not cands and len(segs) == 1:
            cands = self.fn_pointer_targets(it, name, kinds)
        if not cands:
            raise TErr("call of `%s` with byte-memory arguments: no such function in the crate" % "::".join(segs))
        return sorted(set(self.key(g) for g in cands)), [g for g in cands]

    def fn_pointer_targets(self, it, name, kinds):
        """`NAME(args)` where NAME is a `static ref` declared by a macro invocation in the calling fn: the `m::f` paths of
        its expansion that name fns of the crate"""
        f = it.fn
        t = f.file.toks
        out = []
        i = f.body[0]
        while i < f.body[1] - 2:
            if is_id(t[i]) and is_p(t[i + 1], "!") and is_p(t[i + 2], "("):
                md = f.file.macro_def(t[i].s)
                e = match_close(t, i + 2)
                if md is not None:
                    args = KC.split_args(t[i + 3:e - 1])
                    try:
                        body = md.expand(args)
                    except (TErr, AttributeError):
                        body = None
                    if body is not None and any(is_id(body[q], "ref") and is_id(body[q + 1], name) for q in range(len(body) - 1)):
                        for q in range(len(body) - 2):
                            if is_id(body[q]) and is_p(body[q + 1], "::") and is_id(body[q + 2]) and not is_p(body[q + 3] if q + 3 < len(body) else None, "!") \
                                    and not (q > 0 and is_p(body[q - 1], "::")) and not (q + 3 < len(body) and is_p(body[q + 3], "::")):
                                for g in self.all:
                                    if g.name == body[q + 2].s and ("mod %s" % body[q].s) in g.ctx.split(" / ") and g.params is not None:
                                        out.append(g)
                i = e
                continue
            i += 1
        return out


# =========================================================================== inventory

def translate_crate(repo, d):
    cr = Crate(repo, d)
    recs, errors = {}, list(cr.errors)
    sel = cr.select()
    raw = {}
    for f in sel:
        key = cr.key(f)
        if key in raw:
            errors.append("%s: two functions with this context label" % key)
            continue
        try:
            it = Interp(cr, f)
            params, events = it.run()
            raw[key] = (f, params, events)
        except TErr as ex:
            raw[key] = (f, None, str(ex))
            errors.append("%s: %s" % (key, ex))
    # a selected fn without byte-memory parameters and without events says nothing: dropped
    keep = {k: v for k, v in raw.items() if v[1] is None or v[1] or v[2]}
    # required extents of raw-pointer parameters (max over constant accesses and calls)
    memo = {}

    def need(key, pname, stack=()):
        if (key, pname) in memo:
            return memo[(key, pname)]
        if key in stack:
            raise TErr("recursive call chain through %s" % key)
        f, params, events = keep[key]
        if params is None:
            raise TErr("%s was not translated" % key)
        pr = [p for p in params if p[0] == pname]
        if not pr:
            raise TErr("%s has no byte-memory parameter `%s`" % (key, pname))
        if pr[0][1] != "ptr":
            memo[(key, pname)] = pr[0][2]
            return pr[0][2]
        m = 0
        for ev in events:
            if ev[0] == "acc" and ev[2] == pname:
                if ev[3][0] != "lit":
                    raise TErr("access through the raw pointer `%s` at an offset that is not a literal" % pname)
                m = max(m, ev[3][1] + ev[4])
            elif ev[0] == "call":
                for a in call_args(keep, ev):
                    if a[1] == pname:
                        if a[2][0] != "lit":
                            raise TErr("raw pointer `%s` handed on at an offset that is not a literal" % pname)
                        m = max(m, a[2][1] + (a[4] or 0))
            elif ev[0] == "callGeneric":
                if any(a[0] == pname for a in ev[2]):
                    raise TErr("raw pointer `%s` handed to a generic method" % pname)
        memo[(key, pname)] = m
        return m

    def call_args(keep_, ev):
        """[(callee param, caller base, off, len, need)] of a call event (all alternatives must agree)"""
        keys, gs = ev[1]
        vals = [v for v in ev[2] if v[0] in ("ptr", "slice")]
        per = []
        for k, g in zip(keys, sorted(gs, key=cr.key)):
            if k not in keep_ or keep_[k][1] is None:
                raise TErr("callee %s was not translated" % k)
            pnames = [p[0] for p in keep_[k][1]]
            if len(pnames) != len(vals):
                raise TErr("callee %s: %d byte-memory parameters for %d arguments" % (k, len(pnames), len(vals)))
            row = []
            for pn, v in zip(pnames, vals):
                if v[0] == "slice":
                    row.append((pn, v[1], v[2], v[3], need(k, pn)))
                else:
                    row.append((pn, v[1], v[2], ex_sub(v[3], v[2]), need(k, pn)))
            per.append(row)
        for r in per[1:]:
            if r != per[0]:
                raise TErr("the alternatives %s disagree on parameter names / needs" % ", ".join(keys))
        return per[0]

    out = {}
    for key in sorted(keep):
        f, params, events = keep[key]
        if params is None:
            out[key] = (f, None, events)
            continue
        try:
            evs = []
            for ev in events:
                if ev[0] == "call":
                    evs.append(("call", ev[1][0], call_args(keep, ev)))
                else:
                    evs.append(ev)
            ps = [(p[0], p[1], need(key, p[0])) for p in params]
            out[key] = (f, ps, evs)
        except TErr as ex:
            out[key] = (f, None, str(ex))
            errors.append("%s: %s" % (key, ex))
    return out, errors


def footprint_inventory(repo="/repo"):
    recs, errors = {}, []
    for d in MODELLED_DIRS:
        try:
            o, e = translate_crate(repo, d)
        except TErr as ex:
            o, e = {}, ["%s: %s" % (d, ex)]
        recs.update(o)
        errors += e
    return recs, errors


# =========================================================================== Lean output

def mangle(key):
    s = re.sub(r"[^A-Za-z0-9]+", "_", key.replace("$", "")).strip("_")
    s = re.sub(r"^(?:utils_simd_ppv_lite86_src|hashes|stream_ciphers|block_ciphers)_", "", s)
    return "fp_" + s


def ev_lean(ev):
    if ev[0] == "acc":
        return ".acc %s %s %s %d %d" % ("true" if ev[1] else "false", lstr(ev[2]), ex_lean(ev[3]), ev[4], ev[5])
    if ev[0] in ("assertEq", "check"):
        return ".%s %s %s" % (ev[0], ex_lean(ev[1]), ex_lean(ev[2]))
    if ev[0] == "call":
        return ".call [%s] [%s]" % (", ".join(lstr(k) for k in ev[1]), ", ".join(
            "⟨%s, %s, %s, %s, %s⟩" % (lstr(a[0]), lstr(a[1]), ex_lean(a[2]), ex_lean(a[3]),
                                      "none" if a[4] is None else "some %d" % a[4]) for a in ev[2]))
    if ev[0] == "callGeneric":
        return ".callGeneric %s [%s]" % (lstr(ev[1]), ", ".join(
            "⟨\"\", %s, %s, %s, none⟩" % (lstr(a[0]), ex_lean(a[1]), ex_lean(a[2])) for a in ev[2]))
    raise TErr("event %s" % (ev[0],))


def render_lean(inv):
    recs, errors = inv
    L = ["/-",
         "  CC.Gen.FootprintSrc — GENERATED by tools/inventory_footprint.py from the tree under verification on every run",
         "  (tools/regen).  Do not edit.  The raw-memory access footprint of every function that touches caller-provided byte",
         "  memory through a raw pointer / load-store intrinsic / zerocopy, or hands it on to one that does.  The obligations",
         "  (in bounds, no alignment requirement, equal to the hand-written footprint model `CC.Mem.footprint`) are in",
         "  lean/CC/Mem/SrcFootprint.lean, collected as `CC.Thm.C16.source_footprint_match`.",
         ""] + trusted_lines() + ["-/", "import CC.Mem.SrcVocab", "namespace CC.Gen.FootprintSrc", "open CC.Mem.Src", ""]
    names = []
    used = set()
    for key in sorted(recs):
        f, params, evs = recs[key]
        nm = mangle(key)
        if nm in used:
            errors = errors + ["%s: Lean name %s is used twice" % (key, nm)]
            continue
        used.add(nm)
        L.append("/-- %s -/" % key.replace("-/", "- /"))
        if params is None:
            L.append("def %s : String := %s" % (nm, lstr("ERROR: " + evs)))
            L.append("")
            continue
        names.append(nm)
        rel, ctx = key.split(" :: ", 1)
        L.append("def %s : FnRec := {" % nm)
        L.append("  file := %s," % lstr(rel))
        L.append("  ctx := %s," % lstr(ctx))
        L.append("  params := [%s]," % ", ".join("⟨%s, .%s, %s⟩" % (lstr(p[0]), p[1], "none" if p[2] is None else "some %d" % p[2])
                                               for p in params))
        if evs:
            L.append("  body := [")
            L += ["    " + ev_lean(ev) + ("," if i + 1 < len(evs) else "") for i, ev in enumerate(evs)]
            L.append("  ] }")
        else:
            L.append("  body := [] }")
        L.append("")
    L.append("/-- every translated function -/")
    L.append("def fns : List FnRec := [")
    L += ["  " + n + ("," if i + 1 < len(names) else "") for i, n in enumerate(names)]
    L.append("]")
    L.append("")
    L.append("/-- proof helper: unfold every generated record (in the goal / everywhere) -/")
    nl = ",\n    ".join(names)
    L.append("macro \"fpsrc_unfold\" : tactic => `(tactic| simp only [\n    %s])" % nl)
    L.append("macro \"fpsrc_unfold_all\" : tactic => `(tactic| simp only [\n    %s] at *)" % nl)
    L.append("")
    L.append("/-- translation errors (obligation: `= []`) -/")
    L.append("def footprint_errors : List String := [")
    L += ["  " + lstr(e) + ("," if i + 1 < len(errors) else "") for i, e in enumerate(errors)]
    L.append("]")
    L += ["", "end CC.Gen.FootprintSrc", ""]
    return "\n".join(L)


def footprint_regenerate(repo="/repo", out=None):
    out = out or DEFAULT_OUT
    txt = render_lean(footprint_inventory(repo))
    os.makedirs(os.path.dirname(out), exist_ok=True)
    old = open(out, encoding="utf-8").read() if os.path.exists(out) else None
    if old != txt:
        with open(out, "w", encoding="utf-8") as f:
            f.write(txt)
    return out


def main(argv):
    repo, mode, out = "/repo", "write", None
    a = argv[1:]
    while a:
        if a[0] == "--repo":
            repo, a = a[1], a[2:]
        elif a[0] == "--out":
            out, a = a[1], a[2:]
        elif a[0] == "--print":
            mode, a = "print", a[1:]
        else:
            print(__doc__)
            return 2
    if mode == "print":
        sys.stdout.write(render_lean(footprint_inventory(repo)))
        return 0
    recs, errors = footprint_inventory(repo)
    p = footprint_regenerate(repo, out)
    print("%d functions, %d errors -> %s" % (len(recs), len(errors), p))
    return 0


if __name__ == "__main__":
    sys.exit(main(sys.argv))
