#!/usr/bin/env python3
"""tools/inventory_kernels.py — source-to-Lean TRANSLATOR for the straight-line arithmetic kernels and the
constant tables of the repository under verification.

    kernels_regenerate(repo)      (CLI: python3 tools/inventory_kernels.py [--repo DIR] [--out FILE | --print])

On every run it parses the Rust functions / constants listed in KERNELS, TABLES, INVOCATIONS, … below
(comments ignored, string literals lexed as strings, every item under `#[cfg(test)]` dropped) and writes
lean/CC/Gen/Kernels.lean (definitions only; imports CC.Simd.Mach only).  The per-family proof modules
lean/CC/<Family>/Src.lean state, for every generated definition, that it EQUALS the hand-written model
definition the property theorems are about (`rfl` / `decide +kernel`), re-exported as
`CC.Thm.Cxx.source_kernels_match`.

Kernels are written in a tiny straight-line language: `let [mut] pat = e;`, `lv = e;`, `lv op= e;`
(op ∈ + ^ & |), a final result expression; lvalues are locals, struct fields `x.a`, tuple fields `m.0`;
expressions are binary `^ & | +`, unary `!`, method calls, tuple / tuple-struct / struct construction, calls of
other translated functions of the same file (inlined).  The body is evaluated SYMBOLICALLY to a dataflow DAG
and printed as an SSA `let` chain in canonical (post-order from the results) order, so that a reordering of
independent statements or a cosmetic rewrite (`d ^= a; d = d.rot()` vs `d = (d ^ a).rot()`) yields the same
text, while a changed rotation distance, operand, shuffle, table entry … yields a different term and the
`rfl` obligation fails.  The meaning of (vector type, Rust operator / trait method) as a field of
`CC.Simd.Mach` is the TRUSTED table OPS below; it is printed in the header of the generated file.

Anything the translator does not understand (unknown method, operator, statement form, type, missing
function …) is a translation ERROR: the definition is emitted as a `String` carrying the message (so the
obligation about it cannot elaborate) and the message is added to `<family>_errors` (obligation
`src_<family>_clean : <family>_errors = []`).  Nothing is skipped silently.

Standard library only; self-contained; deterministic (no line numbers, no timestamps).
"""
import os, re, sys

_HERE = os.path.dirname(os.path.abspath(__file__))
_LEAN = os.path.join(os.path.dirname(_HERE), "lean")
DEFAULT_OUT = os.path.join(_LEAN, "CC", "Gen", "Kernels.lean")


class TErr(Exception):
    """translation error (reported, never swallowed)"""


# =========================================================================== lexer

class Tok(object):
    __slots__ = ("k", "s", "v", "suf")

    def __init__(self, k, s, v=None, suf=None):
        self.k, self.s, self.v, self.suf = k, s, v, suf      # kind: id int str char life p

    def __repr__(self):
        return "%s:%s" % (self.k, self.s)


PUNCT3 = ["<<=", ">>=", "...", "..="]
PUNCT2 = ["::", "->", "=>", "==", "!=", "<=", ">=", "&&", "||", "+=", "-=", "*=", "/=", "%=", "^=", "&=", "|=",
          "<<", ">>", ".."]
INT_SUFFIX = re.compile(r"(?:u|i)(?:8|16|32|64|128|size)")
ID_RE = re.compile(r"[A-Za-z_][A-Za-z0-9_]*")
SIMPLE_ESC = {"n": 10, "r": 13, "t": 9, "\\": 92, "0": 0, '"': 34, "'": 39}


def _decode_str(body):
    """bytes of a (byte) string literal body (escapes processed, `\\<newline>` continuation skips whitespace)"""
    out, i, n = [], 0, len(body)
    while i < n:
        c = body[i]
        if c != "\\":
            out.extend(c.encode("utf-8"))
            i += 1
            continue
        i += 1
        if i >= n:
            raise TErr("dangling backslash in a string literal")
        e = body[i]
        if e in SIMPLE_ESC:
            out.append(SIMPLE_ESC[e])
            i += 1
        elif e == "x":
            out.append(int(body[i + 1:i + 3], 16))
            i += 3
        elif e == "\n" or e == "\r":
            while i < n and body[i] in " \t\r\n":
                i += 1
        elif e == "u":
            j = body.index("}", i)
            out.extend(chr(int(body[i + 2:j], 16)).encode("utf-8"))
            i = j + 1
        else:
            raise TErr("unknown escape \\%s in a string literal" % e)
    return bytes(out)


def lex(src):
    toks, i, n = [], 0, len(src)
    while i < n:
        c = src[i]
        if c.isspace():
            i += 1
        elif src.startswith("//", i):
            j = src.find("\n", i)
            i = n if j < 0 else j
        elif src.startswith("/*", i):
            depth, j = 1, i + 2
            while j < n and depth:
                if src.startswith("/*", j):
                    depth, j = depth + 1, j + 2
                elif src.startswith("*/", j):
                    depth, j = depth - 1, j + 2
                else:
                    j += 1
            i = j
        elif re.match(r'b?r#*"|b?"', src[i:i + 12]):
            m = re.match(r'(b?)(r?)(#*)"', src[i:])
            raw, hashes = m.group(2) == "r", m.group(3)
            j = i + m.end()
            if raw:
                end = src.find('"' + hashes, j)
                if end < 0:
                    raise TErr("unterminated raw string")
                body, i2 = src[j:end], end + 1 + len(hashes)
                val = body.encode("utf-8")
            else:
                k = j
                while k < n and src[k] != '"':
                    k += 2 if src[k] == "\\" else 1
                if k >= n:
                    raise TErr("unterminated string")
                body, i2 = src[j:k], k + 1
                val = _decode_str(body)
            toks.append(Tok("str", src[i:i2], val))
            i = i2
        elif c == "'" or (c == "b" and src.startswith("b'", i)):
            j = i + (2 if c == "b" else 1)
            m = re.match(r"(\\x[0-9a-fA-F]{2}|\\u\{[0-9a-fA-F]+\}|\\.|[^\\'])'", src[j:])
            if m:
                toks.append(Tok("char", src[i:j + m.end()]))
                i = j + m.end()
            else:
                m = ID_RE.match(src, j)
                if not m or c == "b":
                    raise TErr("stray quote")
                toks.append(Tok("life", src[i:m.end()]))
                i = m.end()
        elif c.isdigit():
            m = re.match(r"0x[0-9a-fA-F_]+|0b[01_]+|0o[0-7_]+|[0-9][0-9_]*", src[i:])
            txt = m.group(0)
            j = i + m.end()
            suf = None
            ms = INT_SUFFIX.match(src, j)
            if ms:
                suf, j = ms.group(0), ms.end()
            body = txt.replace("_", "")
            val = int(body, 16) if body.startswith("0x") else int(body[2:], 2) if body.startswith("0b") else \
                int(body[2:], 8) if body.startswith("0o") else int(body)
            toks.append(Tok("int", src[i:j], val, suf))
            i = j
        elif c.isalpha() or c == "_":
            m = ID_RE.match(src, i)
            toks.append(Tok("id", m.group(0)))
            i = m.end()
        else:
            for L, tab in ((3, PUNCT3), (2, PUNCT2)):
                if src[i:i + L] in tab:
                    toks.append(Tok("p", src[i:i + L]))
                    i += L
                    break
            else:
                toks.append(Tok("p", c))
                i += 1
    return toks


OPEN = {"(": ")", "[": "]", "{": "}"}
CLOSE = set(OPEN.values())


def match_close(toks, i):
    """index just past the bracket matching the opening bracket toks[i]"""
    depth, j = 0, i
    while j < len(toks):
        t = toks[j]
        if t.k == "p":
            if t.s in OPEN:
                depth += 1
            elif t.s in CLOSE:
                depth -= 1
                if depth == 0:
                    return j + 1
        j += 1
    raise TErr("unbalanced bracket")


def is_p(t, s):
    return t is not None and t.k == "p" and t.s == s


def is_id(t, s=None):
    return t is not None and t.k == "id" and (s is None or t.s == s)


def skip_attr(toks, i):
    """toks[i] is `#`: index just past the attribute `#[..]` / `#![..]`"""
    j = i + 1
    if j < len(toks) and is_p(toks[j], "!"):
        j += 1
    if j < len(toks) and is_p(toks[j], "["):
        return match_close(toks, j)
    return i + 1


def item_end(toks, j):
    """index just past the item starting at j: first `;` at depth 0, or the close of the first `{` at depth 0"""
    while j < len(toks):
        t = toks[j]
        if t.k == "p":
            if t.s == ";":
                return j + 1
            if t.s == "{":
                e = match_close(toks, j)
                # `macro!{..}` / struct bodies end here; an `impl`/`fn`/`mod` body too
                return e
            if t.s in "([":
                j = match_close(toks, j)
                continue
        j += 1
    return j


def drop_cfg_test(toks):
    """remove every item that carries `#[cfg(test)]` (attributes included)"""
    out, i, n = [], 0, len(toks)
    while i < n:
        t = toks[i]
        if is_p(t, "#") and i + 1 < n and is_p(toks[i + 1], "["):
            e = match_close(toks, i + 1)
            body = "".join(x.s for x in toks[i + 2:e - 1])
            if body == "cfg(test)":
                j = e
                while j < n and is_p(toks[j], "#"):
                    j = skip_attr(toks, j)
                i = item_end(toks, j)
                continue
        out.append(t)
        i += 1
    return out


# =========================================================================== parser (types, patterns, expressions)

class P(object):
    """recursive-descent parser over a token list"""

    def __init__(self, toks, i=0, end=None):
        self.t, self.i, self.end = toks, i, len(toks) if end is None else end

    def peek(self, k=0):
        j = self.i + k
        return self.t[j] if j < self.end else None

    def at_p(self, s, k=0):
        return is_p(self.peek(k), s)

    def at_id(self, s=None, k=0):
        return is_id(self.peek(k), s)

    def eat_p(self, s):
        if not self.at_p(s):
            raise TErr("`%s` expected at `%s`" % (s, self.ctx()))
        self.i += 1

    def eat_id(self, s=None):
        if not self.at_id(s):
            raise TErr("%s expected at `%s`" % ("`%s`" % s if s else "identifier", self.ctx()))
        self.i += 1
        return self.t[self.i - 1].s

    def ctx(self):
        return " ".join(x.s for x in self.t[self.i:min(self.end, self.i + 8)])

    def done(self):
        return self.i >= self.end

    # ---- generics `<A: B + C, 'a, const N: usize>` -> [(name, bounds text)]
    def generics(self):
        out = []
        if not self.at_p("<"):
            return out
        self.i += 1
        depth, cur = 1, []
        while depth:
            t = self.peek()
            if t is None:
                raise TErr("unterminated generics")
            self.i += 1
            if t.k == "p" and t.s == "<":
                depth += 1
            elif t.k == "p" and t.s == ">":
                depth -= 1
                if depth == 0:
                    break
            elif t.k == "p" and t.s == ">>":
                depth -= 2
                if depth <= 0:
                    break
            elif t.k == "p" and t.s == "," and depth == 1:
                out.append(cur)
                cur = []
                continue
            cur.append(t)
        if cur:
            out.append(cur)
        res = []
        for g in out:
            if g and g[0].k == "id":
                res.append((g[0].s, " ".join(x.s for x in g[2:])))
        return res

    # ---- types
    def type_(self):
        if self.at_p("&"):
            raise TErr("reference type in a kernel signature at `%s`" % self.ctx())
        if self.at_p("("):
            self.i += 1
            items = []
            while not self.at_p(")"):
                items.append(self.type_())
                if self.at_p(","):
                    self.i += 1
            self.eat_p(")")
            return ("tuple", items)
        if self.at_p("["):
            self.i += 1
            el = self.type_()
            n = None
            if self.at_p(";"):
                self.i += 1
                n = self.expr()
            self.eat_p("]")
            return ("array", el, n)
        if self.at_p("<"):
            raise TErr("qualified path type `<T as Trait>::X` not supported at `%s`" % self.ctx())
        segs = [self.eat_id()]
        args = []
        while True:
            if self.at_p("::") and self.at_id(None, 1):
                self.i += 1
                segs.append(self.eat_id())
            elif self.at_p("<"):
                self.i += 1
                while not self.at_p(">"):
                    args.append(self.type_())
                    if self.at_p(","):
                        self.i += 1
                self.eat_p(">")
            else:
                break
        return ("path", segs, args)

    # ---- patterns: `[mut] x` | `( pat, .. )` | `_`
    def pattern(self):
        if self.at_p("("):
            self.i += 1
            items = []
            while not self.at_p(")"):
                items.append(self.pattern())
                if self.at_p(","):
                    self.i += 1
            self.eat_p(")")
            return ("ptuple", items)
        if self.at_id("mut"):
            self.i += 1
        if self.at_p("&") or self.at_id("ref"):
            raise TErr("reference pattern at `%s`" % self.ctx())
        return ("pid", self.eat_id())

    # ---- expressions (Rust precedence: unary > as > * / % > + - > << >> > & > ^ > |)
    LEVELS = [["|"], ["^"], ["&"], ["<<", ">>"], ["+", "-"], ["*", "/", "%"]]

    def expr(self, lvl=0):
        if lvl == len(self.LEVELS):
            return self.cast()
        e = self.expr(lvl + 1)
        while self.peek() is not None and self.peek().k == "p" and self.peek().s in self.LEVELS[lvl]:
            op = self.peek().s
            self.i += 1
            e = ("bin", op, e, self.expr(lvl + 1))
        return e

    def cast(self):
        e = self.unary()
        while self.at_id("as"):
            self.i += 1
            e = ("cast", e, self.type_())
        return e

    def unary(self):
        if self.at_p("!") or self.at_p("-"):
            op = self.peek().s
            self.i += 1
            return ("un", op, self.unary())
        if self.at_p("&") or self.at_p("*"):
            raise TErr("reference / dereference expression at `%s`" % self.ctx())
        return self.postfix()

    def args(self):
        self.eat_p("(")
        out = []
        while not self.at_p(")"):
            out.append(self.expr())
            if self.at_p(","):
                self.i += 1
            elif not self.at_p(")"):
                raise TErr("`,` or `)` expected at `%s`" % self.ctx())
        self.eat_p(")")
        return out

    def postfix(self):
        e = self.primary()
        while True:
            if self.at_p("."):
                t = self.peek(1)
                if t is not None and t.k == "int":
                    if t.suf:
                        raise TErr("suffixed tuple index")
                    self.i += 2
                    e = ("tfield", e, t.v)
                elif is_id(t):
                    self.i += 2
                    if self.at_p("::"):
                        raise TErr("turbofish method call at `%s`" % self.ctx())
                    if self.at_p("("):
                        e = ("mcall", e, t.s, self.args())
                    else:
                        e = ("field", e, t.s)
                else:
                    raise TErr("field or method expected at `%s`" % self.ctx())
            elif self.at_p("["):
                self.i += 1
                ix = self.expr()
                self.eat_p("]")
                e = ("index", e, ix)
            elif self.at_p("?"):
                raise TErr("`?` operator")
            else:
                return e

    def primary(self):
        t = self.peek()
        if t is None:
            raise TErr("expression expected at end of input")
        if t.k == "int":
            self.i += 1
            return ("int", t.v, t.suf)
        if t.k == "str":
            self.i += 1
            return ("str", t.v)
        if t.k == "p" and t.s == "(":
            self.i += 1
            items, trailing = [], False
            while not self.at_p(")"):
                items.append(self.expr())
                trailing = False
                if self.at_p(","):
                    self.i += 1
                    trailing = True
                elif not self.at_p(")"):
                    raise TErr("`,` or `)` expected at `%s`" % self.ctx())
            self.eat_p(")")
            if len(items) == 1 and not trailing:
                return items[0]
            return ("tuple", items)
        if t.k == "p" and t.s == "[":
            self.i += 1
            items = []
            while not self.at_p("]"):
                items.append(self.expr())
                if self.at_p(";"):
                    self.i += 1
                    n = self.expr()
                    self.eat_p("]")
                    return ("repeat", items[0], n)
                if self.at_p(","):
                    self.i += 1
                elif not self.at_p("]"):
                    raise TErr("`,` or `]` expected at `%s`" % self.ctx())
            self.eat_p("]")
            return ("array", items)
        if t.k == "id":
            if t.s in ("if", "match", "loop", "while", "for", "unsafe", "return", "break", "continue", "move",
                       "let", "fn", "struct", "impl", "use", "const", "static"):
                raise TErr("`%s` is outside the kernel language (at `%s`)" % (t.s, self.ctx()))
            segs = [self.eat_id()]
            while self.at_p("::"):
                self.i += 1
                if self.at_p("<"):
                    raise TErr("turbofish at `%s`" % self.ctx())
                segs.append(self.eat_id())
            if self.at_p("!"):
                # macro call: keep the raw tokens of its argument
                self.i += 1
                if not (self.at_p("(") or self.at_p("[") or self.at_p("{")):
                    raise TErr("macro call without arguments at `%s`" % self.ctx())
                e = match_close(self.t, self.i)
                body = self.t[self.i + 1:e - 1]
                self.i = e
                return ("macro", segs[-1], body)
            if self.at_p("("):
                return ("call", segs, self.args())
            if self.at_p("{") and segs[-1][:1].isupper() and self._looks_like_struct_lit():
                self.i += 1
                fields = []
                while not self.at_p("}"):
                    f = self.eat_id()
                    if self.at_p(":"):
                        self.i += 1
                        fields.append((f, self.expr()))
                    else:
                        fields.append((f, ("path", [f])))
                    if self.at_p(","):
                        self.i += 1
                    elif not self.at_p("}"):
                        raise TErr("`,` or `}` expected in a struct literal at `%s`" % self.ctx())
                self.eat_p("}")
                return ("structlit", segs, fields)
            return ("path", segs)
        raise TErr("expression expected at `%s`" % self.ctx())

    def _looks_like_struct_lit(self):
        a, b = self.peek(1), self.peek(2)
        return is_p(a, "}") or (is_id(a) and (is_p(b, ":") or is_p(b, ",") or is_p(b, "}")))

    # ---- statements of a straight-line body -> ([stmt], result expr | None)
    def block_body(self):
        stmts, result = [], None
        while not self.done():
            if self.at_p(";"):
                self.i += 1
                continue
            if self.at_p("#"):
                raise TErr("attribute inside a kernel body at `%s`" % self.ctx())
            if self.at_id("let"):
                self.i += 1
                pat = self.pattern()
                ty = None
                if self.at_p(":"):
                    self.i += 1
                    ty = self.type_()
                self.eat_p("=")
                e = self.expr()
                self.eat_p(";")
                stmts.append(("let", pat, ty, e))
                continue
            e = self.expr()
            t = self.peek()
            if t is None:
                result = e
                break
            if t.k == "p" and t.s in ("=", "+=", "^=", "&=", "|=", "-=", "*=", "<<=", ">>=", "/=", "%="):
                self.i += 1
                rhs = self.expr()
                self.eat_p(";")
                stmts.append(("assign", e, None if t.s == "=" else t.s[:-1], rhs))
                continue
            if t.k == "p" and t.s == ";":
                raise TErr("expression statement without effect in the kernel language: `%s`" % fmt_expr(e))
            raise TErr("statement not understood at `%s`" % self.ctx())
        return stmts, result


def fmt_expr(e):
    k = e[0]
    if k == "int":
        return str(e[1])
    if k == "path":
        return "::".join(e[1])
    if k == "bin":
        return "(%s %s %s)" % (fmt_expr(e[2]), e[1], fmt_expr(e[3]))
    if k == "un":
        return "%s%s" % (e[1], fmt_expr(e[2]))
    if k == "field":
        return "%s.%s" % (fmt_expr(e[1]), e[2])
    if k == "tfield":
        return "%s.%d" % (fmt_expr(e[1]), e[2])
    if k == "mcall":
        return "%s.%s(%s)" % (fmt_expr(e[1]), e[2], ", ".join(fmt_expr(a) for a in e[3]))
    if k == "call":
        return "%s(%s)" % ("::".join(e[1]), ", ".join(fmt_expr(a) for a in e[2]))
    if k == "tuple":
        return "(%s)" % ", ".join(fmt_expr(a) for a in e[1])
    if k == "array":
        return "[%s]" % ", ".join(fmt_expr(a) for a in e[1])
    if k == "cast":
        return "(%s as ..)" % fmt_expr(e[1])
    return "<%s>" % k


# =========================================================================== a source file: items

class FnItem(object):
    def __init__(self, name, generics, params, ret, body, impl):
        self.name, self.generics, self.params, self.ret, self.body, self.impl = name, generics, params, ret, body, impl
        # params: [(pattern | ("self",), type | None)], body: (toks, start, end) of the `{ .. }` interior


class Source(object):
    """token-level index of one Rust file (cfg(test) items dropped)"""

    def __init__(self, repo, rel):
        self.rel = rel
        path = os.path.join(repo, rel)
        if not os.path.exists(path):
            raise TErr("source file %s not found" % rel)
        self.toks = drop_cfg_test(lex(open(path, encoding="utf-8", errors="replace").read()))
        self._index()

    def _index(self):
        t = self.toks
        n = len(t)
        # macro_rules! bodies are not searched for items
        self.macro_spans = []
        i = 0
        while i < n:
            if is_id(t[i], "macro_rules") and i + 2 < n and is_p(t[i + 1], "!"):
                j = i + 2
                if is_id(t[j]):
                    j += 1
                if j < n and t[j].k == "p" and t[j].s in OPEN:
                    e = match_close(t, j)
                    self.macro_spans.append((i, e))
                    i = e
                    continue
            i += 1
        # impl blocks: (start of `{`, end, generics, self type)
        self.impls = []
        i = 0
        while i < n:
            if is_id(t[i], "impl") and not self.in_macro(i):
                p = P(t, i + 1)
                try:
                    gens = p.generics()
                    j = p.i
                    k = j
                    depth = 0
                    while k < n and not (is_p(t[k], "{") and depth == 0):
                        if is_p(t[k], "<"):
                            depth += 1
                        elif is_p(t[k], ">"):
                            depth -= 1
                        elif is_p(t[k], ">>"):
                            depth -= 2
                        k += 1
                    hdr = t[j:k]
                    # `impl Trait for Type` -> Type ; `impl Type` -> Type ; where-clauses cut
                    cut = len(hdr)
                    for q, x in enumerate(hdr):
                        if is_id(x, "where"):
                            cut = q
                            break
                    hdr = hdr[:cut]
                    for q, x in enumerate(hdr):
                        if is_id(x, "for"):
                            hdr = hdr[q + 1:]
                            break
                    selfname = hdr[0].s if hdr and hdr[0].k == "id" else None
                    self.impls.append((k, match_close(t, k), gens, selfname))
                except TErr:
                    pass
            i += 1

    def in_macro(self, i):
        return any(a <= i < b for a, b in self.macro_spans)

    def enclosing_impl(self, i):
        best = None
        for a, b, g, s in self.impls:
            if a < i < b and (best is None or a > best[0]):
                best = (a, b, g, s)
        return best

    # ---- functions
    def find_fn(self, name, impl_of=None):
        """the unique `fn name` outside macro_rules (inside `impl impl_of` when given)"""
        t = self.toks
        hits = []
        for i in range(len(t) - 1):
            if is_id(t[i], "fn") and is_id(t[i + 1], name) and not self.in_macro(i):
                im = self.enclosing_impl(i)
                if impl_of is None and im is None:
                    hits.append((i, im))
                elif impl_of is not None and im is not None and im[3] == impl_of:
                    hits.append((i, im))
        where = "%s%s in %s" % (impl_of + "::" if impl_of else "", name, self.rel)
        if not hits:
            raise TErr("fn %s not found" % where)
        if len(hits) > 1:
            raise TErr("fn %s is defined %d times" % (where, len(hits)))
        i, im = hits[0]
        p = P(t, i + 2)
        gens = p.generics()
        p.eat_p("(")
        params = []
        while not p.at_p(")"):
            if p.at_p("#"):
                raise TErr("attribute on a parameter of fn %s" % where)
            if p.at_id("self") or (p.at_id("mut") and p.at_id("self", 1)):
                p.i += 2 if p.at_id("mut") else 1
                params.append((("self",), None))
            else:
                pat = p.pattern()
                p.eat_p(":")
                params.append((pat, p.type_()))
            if p.at_p(","):
                p.i += 1
            elif not p.at_p(")"):
                raise TErr("parameter list of fn %s not understood at `%s`" % (where, p.ctx()))
        p.eat_p(")")
        ret = None
        if p.at_p("->"):
            p.i += 1
            ret = p.type_()
        if p.at_id("where"):
            while not p.at_p("{"):
                p.i += 1
        if not p.at_p("{"):
            raise TErr("body of fn %s not found" % where)
        e = match_close(t, p.i)
        return FnItem(name, gens, params, ret, (p.i + 1, e - 1), im)

    # ---- struct declarations: name -> (generics, [(field, type)])   (tuple structs: fields "0", "1", …)
    def find_struct(self, name):
        t = self.toks
        hits = [i for i in range(len(t) - 1) if is_id(t[i], "struct") and is_id(t[i + 1], name) and not self.in_macro(i)]
        if len(hits) != 1:
            raise TErr("struct %s: %d declarations in %s" % (name, len(hits), self.rel))
        p = P(t, hits[0] + 2)
        gens = p.generics()
        fields = []
        if p.at_p("{"):
            e = match_close(t, p.i)
            q = P(t, p.i + 1, e - 1)
            while not q.done():
                while q.at_p("#"):
                    q.i = skip_attr(t, q.i)
                if q.at_id("pub"):
                    q.i += 1
                    if q.at_p("("):
                        q.i = match_close(t, q.i)
                f = q.eat_id()
                q.eat_p(":")
                fields.append((f, q.type_()))
                if q.at_p(","):
                    q.i += 1
        elif p.at_p("("):
            e = match_close(t, p.i)
            q = P(t, p.i + 1, e - 1)
            k = 0
            while not q.done():
                while q.at_p("#"):
                    q.i = skip_attr(t, q.i)
                if q.at_id("pub"):
                    q.i += 1
                    if q.at_p("("):
                        q.i = match_close(t, q.i)
                fields.append((str(k), q.type_()))
                k += 1
                if q.at_p(","):
                    q.i += 1
        else:
            raise TErr("struct %s: body not understood" % name)
        return gens, fields

    # ---- const items: name -> [(type tokens, expr tokens)]
    def consts(self):
        t = self.toks
        out = {}
        n = len(t)
        for i in range(n - 2):
            if (is_id(t[i], "const") or is_id(t[i], "static")) and is_id(t[i + 1]) and is_p(t[i + 2], ":") \
                    and not (i > 0 and is_p(t[i - 1], "$")):
                j = i + 3
                depth = 0
                eq = None
                while j < n:
                    x = t[j]
                    if x.k == "p":
                        if x.s in OPEN:
                            j = match_close(t, j)
                            continue
                        if x.s == "=" and eq is None:
                            eq = j
                        elif x.s == ";":
                            break
                    j += 1
                if eq is None or j >= n:
                    continue
                if any(is_p(x, "$") for x in t[i:j]):
                    continue
                out.setdefault(t[i + 1].s, []).append((t[i + 3:eq], t[eq + 1:j]))
        return out

    # ---- macro invocations `name!( .. );` outside macro_rules bodies -> [[arg tokens]]
    def invocations(self, name):
        t = self.toks
        out = []
        for i in range(len(t) - 2):
            if is_id(t[i], name) and is_p(t[i + 1], "!") and is_p(t[i + 2], "(") and not self.in_macro(i) \
                    and not (i > 0 and is_id(t[i - 1], "macro_rules")):
                e = match_close(t, i + 2)
                args, cur, j = [], [], i + 3
                while j < e - 1:
                    x = t[j]
                    if x.k == "p" and x.s in OPEN:
                        k = match_close(t, j)
                        cur.extend(t[j:k])
                        j = k
                        continue
                    if is_p(x, ","):
                        args.append(cur)
                        cur = []
                    else:
                        cur.append(x)
                    j += 1
                if cur:
                    args.append(cur)
                out.append(args)
        return out

    # ---- `type Name = Base<A, B, C>;` aliases of a given base
    def type_aliases(self, base):
        t = self.toks
        out = []
        for i in range(len(t) - 3):
            if is_id(t[i], "type") and is_id(t[i + 1]) and is_p(t[i + 2], "=") and is_id(t[i + 3], base) \
                    and not self.in_macro(i):
                p = P(t, i + 3)
                ty = p.type_()
                if not p.at_p(";"):
                    raise TErr("type alias %s not understood" % t[i + 1].s)
                out.append((t[i + 1].s, ty))
        return out

    # ---- body token span of a fn found anywhere (incl. nested in macro bodies / dispatch blocks): all of them
    def fn_bodies(self, name):
        t = self.toks
        out = []
        for i in range(len(t) - 1):
            if is_id(t[i], "fn") and is_id(t[i + 1], name):
                j = i + 2
                while j < len(t) and not is_p(t[j], "{") and not is_p(t[j], ";"):
                    j = match_close(t, j) if (t[j].k == "p" and t[j].s in "([") else j + 1
                if j < len(t) and is_p(t[j], "{"):
                    out.append((j + 1, match_close(t, j) - 1))
        return out

    def all_fns(self):
        """[(name, body start, body end)] of every fn with a body, in source order"""
        t = self.toks
        out = []
        for i in range(len(t) - 1):
            if is_id(t[i], "fn") and is_id(t[i + 1]):
                j = i + 2
                while j < len(t) and not is_p(t[j], "{") and not is_p(t[j], ";"):
                    j = match_close(t, j) if (t[j].k == "p" and t[j].s in "([") else j + 1
                if j < len(t) and is_p(t[j], "{"):
                    out.append((t[i + 1].s, j + 1, match_close(t, j) - 1))
        return out


# =========================================================================== TRUSTED: meaning of the vector operations

# carrier of every leaf type in the generated Lean
LEAN_TY = {
    "u32x4": "BitVec 128", "u128x1": "BitVec 128", "u64x2": "BitVec 128",
    "u64x4": "BitVec 256", "u128x2": "BitVec 256",
    "u32x4x4": "BitVec 512",
    "u64": "BitVec 64",
    "u32": "Nat",            # only ever used as the rotation distance argument of rotate_left / rotate_right
}

# (type, Rust operator) -> Lean template ({0}, {1} = operands)          [binary: both operands and the result have `type`]
BINOPS = {
    ("u32x4", "+"): "M.add32 {0} {1}", ("u32x4", "^"): "M.xor128 {0} {1}",
    ("u32x4x4", "+"): "M.add32x16 {0} {1}", ("u32x4x4", "^"): "M.xor512 {0} {1}",
    ("u64x4", "+"): "M.add64x4 {0} {1}", ("u64x4", "^"): "M.xor256 {0} {1}",
    ("u128x1", "^"): "M.xor128 {0} {1}",
    ("u128x2", "^"): "M.xor256 {0} {1}", ("u128x2", "&"): "M.and256 {0} {1}", ("u128x2", "|"): "M.or256 {0} {1}",
    ("u64", "^"): "{0} ^^^ {1}",
}
UNOPS = {
    ("u128x2", "!"): "M.not256 {0}",
}
# (receiver type, method name regex, argument types) -> (Lean template, result type); {n} = the number in the name,
# {0} = receiver, {1}.. = arguments; an `int` argument must be a literal and is pasted as a numeral
METHODS = [
    ("u32x4", r"rotate_each_word_right(\d+)", [], "M.rotr32 {n} {0}", "u32x4"),
    ("u32x4x4", r"rotate_each_word_right(\d+)", [], "M.rotr32x16 {n} {0}", "u32x4x4"),
    ("u64x4", r"rotate_each_word_right(\d+)", [], "M.rotr64x4 {n} {0}", "u64x4"),
    ("u32x4", r"shuffle_lane_words(1230|2301|3012)", [], "M.shuf{n} {0}", "u32x4"),        # one lane: = shuffleNNNN
    ("u32x4x4", r"shuffle_lane_words(1230|2301|3012)", [], "M.shufLane{n} {0}", "u32x4x4"),
    ("u32x4", r"shuffle(1230|2301|3012)", [], "M.shuf{n} {0}", "u32x4"),
    ("u64x4", r"shuffle(1230|2301|3012)", [], "M.shuf{n}q {0}", "u64x4"),
    ("u128x2", r"andnot", ["u128x2"], "M.andnot256 {0} {1}", "u128x2"),
    ("[u128x1; 2]", r"vzip", [], "M.vzip256 {0} {1}", "u128x2"),                             # {0},{1} = the two array elements
    ("u128x2", r"extract", ["int"], "M.extract256 {0} {1}", "u128x1"),
    ("u64", r"wrapping_add", ["u64"], "{0} + {1}", "u64"),
    ("u64", r"wrapping_sub", ["u64"], "{0} - {1}", "u64"),
    ("u64", r"rotate_left", ["u32"], "BitVec.rotateLeft {0} {1}", "u64"),
    ("u64", r"rotate_right", ["u32"], "BitVec.rotateRight {0} {1}", "u64"),
]


def trusted_table_lines():
    L = []
    for t in sorted(LEAN_TY):
        L.append("    type %-10s carrier %s" % (t, LEAN_TY[t]))
    for (t, op) in sorted(BINOPS):
        L.append("    %-12s a %s b%s  ↦  %s" % (t, op, " " * (24 - len(op)), BINOPS[(t, op)].format("a", "b")))
    for (t, op) in sorted(UNOPS):
        L.append("    %-12s %sa%s  ↦  %s" % (t, op, " " * (27 - len(op)), UNOPS[(t, op)].format("a")))
    for (t, rx, args, tpl, res) in METHODS:
        name = rx.replace(r"(\d+)", "<n>").replace("(1230|2301|3012)", "<p>")
        call = "a.%s(%s)" % (name, ", ".join("b" if a != "int" else "i" for a in args))
        if t.startswith("["):
            call, tpl2 = "[a, b].%s()" % name, tpl.format("a", "b")
        else:
            tpl2 = tpl.replace("{n}", "<n>" if "<n>" in name else "<p>").format("a", "b" if args and args[0] != "int" else "i")
        L.append("    %-12s %-28s  ↦  %s : %s" % (t, call, tpl2, res))
    return L


# =========================================================================== symbolic evaluation of a kernel

class Dag(object):
    """hash-consed dataflow nodes: ("leaf", name, ty) | ("app", template, (arg ids / literal strings), ty)"""

    def __init__(self):
        self.nodes, self.memo = [], {}

    def mk(self, key):
        if key not in self.memo:
            self.memo[key] = len(self.nodes)
            self.nodes.append(key)
        return ("n", self.memo[key])

    def leaf(self, name, ty):
        return self.mk(("leaf", name, ty))

    def app(self, tpl, args, ty):
        return self.mk(("app", tpl, tuple(a[1] if isinstance(a, tuple) else a for a in args), ty))

    def ty(self, v):
        return self.nodes[v[1]][-1]


def is_node(v):
    return isinstance(v, tuple) and v and v[0] == "n"


class Kernel(object):
    """symbolic evaluation of one fn of `src` with the generic parameters bound by `subst`"""

    def __init__(self, src, subst):
        self.src, self.subst = src, dict(subst)
        self.dag = Dag()
        self.depth = 0

    # ---- types -> shapes: "u32x4" | ("tup", [shape]) | ("rec", name, [(field, shape)])
    def shape(self, ty, gens, selfname):
        k = ty[0]
        if k == "tuple":
            return ("tup", [self.shape(x, gens, selfname) for x in ty[1]])
        if k == "array":
            raise TErr("array type in a kernel signature")
        segs, args = ty[1], ty[2]
        if len(segs) == 2 and segs[0] in gens:
            # `M::u32x4` with `M: Machine`
            if "Machine" not in gens[segs[0]]:
                raise TErr("associated type %s::%s of a parameter that is not `Machine`" % (segs[0], segs[1]))
            if segs[1] not in LEAN_TY:
                raise TErr("vector type %s has no carrier in the trusted table" % segs[1])
            return segs[1]
        if len(segs) != 1:
            raise TErr("type path %s not understood" % "::".join(segs))
        name = segs[0]
        if name == "Self":
            if selfname is None:
                raise TErr("`Self` outside an impl")
            name, args = selfname, []
        if name in gens and not args:
            if name not in self.subst:
                raise TErr("generic type parameter %s is not bound by the kernel's instantiation" % name)
            return self.subst[name]
        if name in LEAN_TY and not args:
            return name
        sg, fields = self.src.find_struct(name)
        sub = {}
        targs = [a for a in args]
        tparams = [g for g in sg if not g[0].startswith("'")]
        if targs and len(targs) != len(tparams):
            raise TErr("struct %s: %d type arguments for %d parameters" % (name, len(targs), len(tparams)))
        inner_gens = dict(gens)
        inner = Kernel(self.src, self.subst)
        inner.dag = self.dag
        for (g, bounds), a in zip(tparams, targs):
            if a[0] == "path" and len(a[1]) == 1 and a[1][0] in gens and "Machine" in gens[a[1][0]]:
                inner_gens[g] = "Machine " + bounds
            else:
                inner.subst[g] = self.shape(a, gens, selfname)
                inner_gens[g] = bounds
        if not targs:
            for (g, bounds) in tparams:
                inner_gens[g] = bounds if g not in gens else gens[g]
        return ("rec", name, [(f, inner.shape(fty, inner_gens, name)) for f, fty in fields])

    def leaves(self, shape, prefix, out):
        """value of the given shape made of fresh leaves named prefix[_field…]; leaf list appended to out"""
        if isinstance(shape, str):
            out.append((prefix, shape))
            return self.dag.leaf(prefix, shape)
        if shape[0] == "tup":
            return ("tup", [self.leaves(s, "%s_%d" % (prefix, i), out) for i, s in enumerate(shape[1])])
        return ("rec", shape[1], [(f, self.leaves(s, "%s_%s" % (prefix, f), out)) for f, s in shape[2]])

    def bind(self, pat, val, env):
        if pat[0] == "pid":
            if pat[1] != "_":
                env[pat[1]] = val
        else:
            if not (isinstance(val, tuple) and val[0] == "tup" and len(val[1]) == len(pat[1])):
                raise TErr("tuple pattern against a value that is not a tuple of %d" % len(pat[1]))
            for p, v in zip(pat[1], val[1]):
                self.bind(p, v, env)

    def bind_param_leaves(self, pat, shape, out):
        """parameter pattern against a declared shape: tuple patterns name the components"""
        if pat[0] == "ptuple":
            if not (not isinstance(shape, str) and shape[0] == "tup" and len(shape[1]) == len(pat[1])):
                raise TErr("tuple parameter pattern against a non-tuple type")
            return ("tup", [self.bind_param_leaves(p, s, out) for p, s in zip(pat[1], shape[1])])
        return self.leaves(shape, pat[1], out)

    # ---- a function
    def gens_of(self, f):
        g = {}
        if f.impl is not None:
            for name, b in f.impl[2]:
                g[name] = b
        for name, b in f.generics:
            g[name] = b
        return g

    def run(self, f, argvals):
        """evaluate fn item f on argument values -> result value"""
        self.depth += 1
        if self.depth > 8:
            raise TErr("call depth exceeded (recursion?) in fn %s" % f.name)
        if len(argvals) != len(f.params):
            raise TErr("fn %s called with %d arguments for %d parameters" % (f.name, len(argvals), len(f.params)))
        env = {}
        for (pat, _ty), v in zip(f.params, argvals):
            if pat == ("self",):
                env["self"] = v
            else:
                self.bind(pat, v, env)
        a, b = f.body
        stmts, result = P(self.src.toks, a, b).block_body()
        selfname = f.impl[3] if f.impl else None
        for st in stmts:
            if st[0] == "let":
                self.bind(st[1], self.ev(st[3], env, selfname), env)
            else:
                rhs = self.ev(st[3], env, selfname)
                if st[2] is not None:
                    cur = self.ev(st[1], env, selfname)
                    rhs = self.binop(st[2], cur, rhs)
                self.assign(st[1], rhs, env)
        if result is None:
            raise TErr("fn %s has no result expression" % f.name)
        r = self.ev(result, env, selfname)
        self.depth -= 1
        return r

    def assign(self, lv, val, env):
        k = lv[0]
        if k == "path" and len(lv[1]) == 1:
            if lv[1][0] not in env:
                raise TErr("assignment to unknown local %s" % lv[1][0])
            old = env[lv[1][0]]
            self.same_shape(old, val, lv)
            env[lv[1][0]] = val
            return
        if k in ("field", "tfield"):
            base = self.ev(lv[1], env, None)
            if k == "field" or (isinstance(base, tuple) and base[0] == "rec"):
                if not (isinstance(base, tuple) and base[0] == "rec"):
                    raise TErr("field assignment to a non-struct: %s" % fmt_expr(lv))
                name = str(lv[2])
                if name not in [f for f, _ in base[2]]:
                    raise TErr("no field %s in struct %s" % (name, base[1]))
                self.same_shape(dict(base[2])[name], val, lv)
                new = ("rec", base[1], [(f, val if f == name else v) for f, v in base[2]])
            else:
                if not (isinstance(base, tuple) and base[0] == "tup" and lv[2] < len(base[1])):
                    raise TErr("tuple field assignment out of range: %s" % fmt_expr(lv))
                self.same_shape(base[1][lv[2]], val, lv)
                new = ("tup", [val if i == lv[2] else v for i, v in enumerate(base[1])])
            self.assign(lv[1], new, env)
            return
        raise TErr("assignment target not understood: %s" % fmt_expr(lv))

    def same_shape(self, a, b, where):
        if is_node(a) and is_node(b):
            if self.dag.ty(a) != self.dag.ty(b):
                raise TErr("assignment changes the type (%s := %s) at %s" % (self.dag.ty(a), self.dag.ty(b), fmt_expr(where)))
            return
        if is_node(a) or is_node(b) or a[0] != b[0]:
            raise TErr("assignment changes the shape at %s" % fmt_expr(where))
        xs = a[1] if a[0] == "tup" else [v for _, v in a[2]]
        ys = b[1] if b[0] == "tup" else [v for _, v in b[2]]
        if len(xs) != len(ys):
            raise TErr("assignment changes the shape at %s" % fmt_expr(where))
        for x, y in zip(xs, ys):
            self.same_shape(x, y, where)

    def binop(self, op, a, b):
        if not (is_node(a) and is_node(b)):
            raise TErr("operator %s on aggregate values" % op)
        ta, tb = self.dag.ty(a), self.dag.ty(b)
        if ta != tb:
            raise TErr("operator %s on different types %s, %s" % (op, ta, tb))
        if (ta, op) not in BINOPS:
            raise TErr("operator `%s` on %s is not in the trusted table" % (op, ta))
        return self.dag.app(BINOPS[(ta, op)], [a, b], ta)

    # ---- expressions
    def ev(self, e, env, selfname):
        k = e[0]
        if k == "path":
            if len(e[1]) == 1 and e[1][0] in env:
                return env[e[1][0]]
            raise TErr("unknown name %s" % "::".join(e[1]))
        if k == "int":
            return ("int", e[1])
        if k == "bin":
            return self.binop(e[1], self.ev(e[2], env, selfname), self.ev(e[3], env, selfname))
        if k == "un":
            a = self.ev(e[2], env, selfname)
            if not is_node(a) or (self.dag.ty(a), e[1]) not in UNOPS:
                raise TErr("unary `%s` on %s is not in the trusted table" % (e[1], self.dag.ty(a) if is_node(a) else "an aggregate"))
            return self.dag.app(UNOPS[(self.dag.ty(a), e[1])], [a], self.dag.ty(a))
        if k == "field" or k == "tfield":
            b = self.ev(e[1], env, selfname)
            if isinstance(b, tuple) and b[0] == "rec":
                d = dict(b[2])
                if str(e[2]) not in d:
                    raise TErr("no field %s in struct %s" % (e[2], b[1]))
                return d[str(e[2])]
            if k == "tfield" and isinstance(b, tuple) and b[0] == "tup" and e[2] < len(b[1]):
                return b[1][e[2]]
            raise TErr("field access not understood: %s" % fmt_expr(e))
        if k == "tuple":
            return ("tup", [self.ev(x, env, selfname) for x in e[1]])
        if k == "array":
            return ("arr", [self.ev(x, env, selfname) for x in e[1]])
        if k == "structlit":
            name = e[1][-1] if e[1] != ["Self"] else selfname
            _g, fields = self.src.find_struct(name)
            given = dict((f, self.ev(x, env, selfname)) for f, x in e[2])
            if sorted(given) != sorted(f for f, _ in fields):
                raise TErr("struct literal %s: fields %s given, %s declared" % (name, sorted(given), [f for f, _ in fields]))
            return ("rec", name, [(f, given[f]) for f, _ in fields])
        if k == "call":
            segs = e[1]
            args = [self.ev(x, env, selfname) for x in e[2]]
            if len(segs) == 1:
                # tuple-struct constructor or a free function of the same file
                name = segs[0] if segs[0] != "Self" else selfname
                try:
                    _g, fields = self.src.find_struct(name)
                except TErr:
                    fields = None
                if fields is not None:
                    if len(fields) != len(args) or any(not f.isdigit() for f, _ in fields):
                        raise TErr("constructor %s: %d arguments" % (name, len(args)))
                    return ("rec", name, [(f, a) for (f, _), a in zip(fields, args)])
                return self.sub(self.src.find_fn(name)).run_in(self, args)
            if len(segs) == 2:
                owner = segs[0] if segs[0] != "Self" else selfname
                return self.sub(self.src.find_fn(segs[1], owner)).run_in(self, args)
            raise TErr("call of %s not understood" % "::".join(segs))
        if k == "mcall":
            recv = self.ev(e[1], env, selfname)
            args = [self.ev(x, env, selfname) for x in e[3]]
            if isinstance(recv, tuple) and recv[0] == "rec":
                return self.sub(self.src.find_fn(e[2], recv[1])).run_in(self, [recv] + args)
            return self.method(recv, e[2], args)
        raise TErr("expression form `%s` is outside the kernel language: %s" % (k, fmt_expr(e)))

    def sub(self, f):
        outer = self

        class _Call(object):
            def run_in(self, k, args):
                return outer.run(f, args)
        return _Call()

    def method(self, recv, name, args):
        if isinstance(recv, tuple) and recv[0] == "arr":
            if not all(is_node(x) for x in recv[1]):
                raise TErr("method %s on an array of aggregates" % name)
            tys = set(self.dag.ty(x) for x in recv[1])
            rty = "[%s; %d]" % (sorted(tys)[0], len(recv[1])) if len(tys) == 1 else "[mixed]"
            operands = list(recv[1])
        elif is_node(recv):
            rty, operands = self.dag.ty(recv), [recv]
        else:
            raise TErr("method %s on a value that is not a vector" % name)
        for (t, rx, atys, tpl, res) in METHODS:
            m = re.match("^" + rx + "$", name)
            if t != rty or not m:
                continue
            if len(args) != len(atys):
                raise TErr("method %s.%s: %d arguments for %d" % (rty, name, len(args), len(atys)))
            ops = list(operands)
            for a, at in zip(args, atys):
                if at == "int":
                    if not (isinstance(a, tuple) and a[0] == "int"):
                        raise TErr("method %s.%s: literal index expected" % (rty, name))
                    ops.append(str(a[1]))
                else:
                    if not is_node(a) or self.dag.ty(a) != at:
                        raise TErr("method %s.%s: argument of type %s expected" % (rty, name, at))
                    ops.append(a)
            t2 = tpl.replace("{n}", m.group(1)) if m.groups() else tpl
            return self.dag.app(t2, ops, res)
        raise TErr("method `%s` on %s is not in the trusted table" % (name, rty))


def flatten(v, out):
    if is_node(v):
        out.append(v)
    elif isinstance(v, tuple) and v[0] == "tup":
        for x in v[1]:
            flatten(x, out)
    elif isinstance(v, tuple) and v[0] == "rec":
        for _, x in v[2]:
            flatten(x, out)
    else:
        raise TErr("kernel result contains a value that is not a vector (%s)" % (v[0] if isinstance(v, tuple) else v))
    return out


def translate_kernel(src, spec):
    """-> Lean text of `def <lean name> …`"""
    f = src.find_fn(spec["fn"], spec.get("impl"))
    K = Kernel(src, spec.get("subst", {}))
    gens = K.gens_of(f)
    selfname = f.impl[3] if f.impl else None
    leaves, argvals = [], []
    for pat, ty in f.params:
        if pat == ("self",):
            argvals.append(K.leaves(K.shape(("path", ["Self"], []), gens, selfname), "self", leaves))
        else:
            argvals.append(K.bind_param_leaves(pat, K.shape(ty, gens, selfname), leaves))
    result = K.run(f, argvals)
    outs = flatten(result, [])
    if f.ret is not None:
        # the declared result type fixes the number and types of the components
        want = []
        K2 = Kernel(src, spec.get("subst", {}))
        flatten(K2.leaves(K2.shape(f.ret, gens, selfname), "r", []), want)
        wt = [K2.dag.ty(x) for x in want]
        if wt != [K.dag.ty(o) for o in outs]:
            raise TErr("result components %s do not match the declared result type %s" % ([K.dag.ty(o) for o in outs], wt))
    names = [n for n, _ in leaves]
    if len(set(names)) != len(names):
        raise TErr("parameter leaf names clash: %s" % names)
    # canonical order: post-order from the results
    order, seen = [], set()

    def visit(i):
        if i in seen:
            return
        seen.add(i)
        nd = K.dag.nodes[i]
        if nd[0] == "app":
            for a in nd[2]:
                if isinstance(a, int):
                    visit(a)
            order.append(i)
    for o in outs:
        visit(o[1])
    tname = {}
    for i in order:
        tname[i] = "t%d" % (len(tname) + 1)

    def ref(a):
        if isinstance(a, str):
            return a
        nd = K.dag.nodes[a]
        return nd[1] if nd[0] == "leaf" else tname[a]
    # parameters grouped by type, in declaration order
    params, cur = [], None
    for n, t in leaves:
        lt = LEAN_TY[t]
        if cur is not None and cur[1] == lt:
            cur[0].append(n)
        else:
            cur = ([n], lt)
            params.append(cur)
    sig = " ".join("(%s : %s)" % (" ".join(ns), lt) for ns, lt in params)
    usesM = any(K.dag.nodes[i][1].startswith("M.") for i in order)
    rty = " × ".join(LEAN_TY[K.dag.ty(o)] for o in outs)
    L = ["def %s %s%s :" % (spec["lean"], "(M : Mach) " if spec.get("mach", True) else "", sig), "    %s :=" % rty]
    if not usesM and spec.get("mach", True) and order:
        raise TErr("kernel uses no machine operation but is declared over `Mach`")
    for i in order:
        nd = K.dag.nodes[i]
        L.append("  let %s := %s" % (tname[i], nd[1].format(*[ref(a) for a in nd[2]])))
    res = ", ".join(ref(o[1]) for o in outs)
    L.append("  (%s)" % res if len(outs) > 1 else "  %s" % res)
    return "\n".join(L)


# =========================================================================== constants

INT_BITS = {"u8": 8, "u16": 16, "u32": 32, "u64": 64, "u128": 128, "usize": 64,
            "i8": 8, "i16": 16, "i32": 32, "i64": 64, "i128": 128, "isize": 64}


class Consts(object):
    """evaluator of the const items of one file (integers, nested arrays, `hex!("..")`, byte strings)"""

    def __init__(self, src):
        self.src, self.items, self.busy = src, src.consts(), set()

    def lookup(self, name):
        defs = self.items.get(name)
        if not defs:
            raise TErr("const %s not found in %s" % (name, self.src.rel))
        texts = set((" ".join(x.s for x in a), " ".join(x.s for x in b)) for a, b in defs)
        if len(texts) != 1:
            raise TErr("const %s has %d different definitions in %s" % (name, len(texts), self.src.rel))
        return defs[0]

    def const_type(self, name):
        tt, _ = self.lookup(name)
        tt = [x for x in tt if not is_p(x, "&") and x.k != "life"]
        p = P(tt)
        ty = p.type_()
        if not p.done():
            raise TErr("type of const %s not understood" % name)
        return ty

    def value(self, name):
        if name in self.busy:
            raise TErr("const %s is defined in terms of itself" % name)
        self.busy.add(name)
        try:
            _, et = self.lookup(name)
            et = [x for x in et]
            while et and is_p(et[0], "&"):
                et = et[1:]
            p = P(et)
            e = p.expr()
            if not p.done():
                raise TErr("initializer of const %s not understood at `%s`" % (name, p.ctx()))
            v = self.ev(e)
            self.check(v, self.const_type(name), name)
            return v
        finally:
            self.busy.discard(name)

    def check(self, v, ty, name):
        if ty[0] == "array":
            n = self.ev(ty[2]) if ty[2] is not None else None
            if not isinstance(v, (list, bytes)):
                raise TErr("const %s: array expected" % name)
            if n is not None and len(v) != n:
                raise TErr("const %s: %d elements for declared length %d" % (name, len(v), n))
            for x in v:
                self.check(x, ty[1], name)
        elif ty[0] == "path" and len(ty[1]) == 1 and ty[1][0] in INT_BITS:
            t = ty[1][0]
            if not isinstance(v, int):
                raise TErr("const %s: integer expected" % name)
            lo, hi = (-(1 << (INT_BITS[t] - 1)), 1 << (INT_BITS[t] - 1)) if t[0] == "i" else (0, 1 << INT_BITS[t])
            if not (lo <= v < hi):
                raise TErr("const %s: value %d out of range of %s" % (name, v, t))
        else:
            raise TErr("const %s: type not understood" % name)

    def ev(self, e):
        k = e[0]
        if k == "int":
            return e[1]
        if k == "str":
            return bytes(e[1])
        if k == "path":
            if len(e[1]) == 1:
                return self.value(e[1][0])
            raise TErr("const path %s not understood" % "::".join(e[1]))
        if k == "array":
            return [self.ev(x) for x in e[1]]
        if k == "repeat":
            return [self.ev(e[1])] * self.ev(e[2])
        if k == "macro":
            if e[1] == "hex" and len(e[2]) == 1 and e[2][0].k == "str":
                txt = re.sub(r"\s+", "", e[2][0].v.decode("ascii", "replace"))
                if not re.match(r"^([0-9a-fA-F]{2})*$", txt):
                    raise TErr("hex!(..) argument is not a hex string")
                return bytes.fromhex(txt)
            raise TErr("macro %s! in a constant" % e[1])
        if k == "cast":
            v = self.ev(e[1])
            t = e[2]
            if not (isinstance(v, int) and t[0] == "path" and len(t[1]) == 1 and t[1][0] in INT_BITS):
                raise TErr("cast not understood in a constant")
            b = INT_BITS[t[1][0]]
            v &= (1 << b) - 1
            if t[1][0][0] == "i" and v >> (b - 1):
                v -= 1 << b
            return v
        if k == "bin":
            a, b = self.ev(e[2]), self.ev(e[3])
            if not (isinstance(a, int) and isinstance(b, int)):
                raise TErr("arithmetic on a non-integer constant")
            op = e[1]
            if op in ("/", "%") and b == 0:
                raise TErr("division by zero in a constant")
            return {"+": lambda: a + b, "-": lambda: a - b, "*": lambda: a * b, "/": lambda: a // b, "%": lambda: a % b,
                    "<<": lambda: a << b, ">>": lambda: a >> b, "&": lambda: a & b, "|": lambda: a | b,
                    "^": lambda: a ^ b}[op]()
        raise TErr("constant expression form `%s` not understood" % k)


# ---- rendering of values as Lean literals.  render ::= "nat" | ("bv", w) | ("be",) | "bytes" | ("list", render)

def lean_type(v, r):
    if r == "nat":
        return "Nat"
    if r == "str":
        return "String"
    if r == "bytes":
        return "List (BitVec 8)"
    if r[0] == "bv":
        return "BitVec %d" % r[1]
    if r[0] == "be":
        return "BitVec %d" % (8 * len(v))
    if r[0] == "list":
        if not isinstance(v, list) or not v:
            raise TErr("non-empty list expected")
        ts = set(lean_type(x, r[1]) for x in v)
        if len(ts) != 1:
            raise TErr("rows of different shapes")
        t = ts.pop()
        return "List (%s)" % t if " " in t else "List %s" % t
    raise TErr("render spec")


def lean_val(v, r, ind="  "):
    if r == "nat":
        if not isinstance(v, int) or v < 0:
            raise TErr("natural number expected")
        return str(v)
    if r == "str":
        return _lean_str(v)
    if r == "bytes":
        if not isinstance(v, (bytes, list)):
            raise TErr("bytes expected")
        xs = ["0x%02x#8" % b for b in v]
        rows = [", ".join(xs[i:i + 16]) for i in range(0, len(xs), 16)]
        return "[" + (",\n" + ind + " ").join(rows) + "]"
    if r[0] == "bv":
        if not isinstance(v, int) or not (0 <= v < (1 << r[1])):
            raise TErr("value does not fit BitVec %d" % r[1])
        return "0x%0*x#%d" % (r[1] // 4, v, r[1])
    if r[0] == "be":
        if not isinstance(v, bytes):
            raise TErr("byte array expected")
        return "0x%s#%d" % (v.hex(), 8 * len(v))
    if r[0] == "list":
        xs = [lean_val(x, r[1], ind + " ") for x in v]
        flat = "[" + ", ".join(xs) + "]"
        if len(flat) + len(ind) <= 110 and "\n" not in flat:
            return flat
        return "[" + (",\n" + ind + " ").join(xs) + "]"
    raise TErr("render spec")


def _lean_str(s):
    return '"' + s.replace("\\", "\\\\").replace('"', '\\"').replace("\n", "\\n") + '"'


def typenum(tok_text):
    m = re.match(r"^U(\d+)$", tok_text)
    if not m:
        raise TErr("typenum `U<n>` expected, found `%s`" % tok_text)
    return int(m.group(1))


# =========================================================================== what is translated

GUTS = "stream-ciphers/chacha/src/guts.rs"
RCI = "stream-ciphers/chacha/src/rustcrypto_impl.rs"
BLAKE_LIB = "hashes/blake/src/lib.rs"
BLAKE_CONSTS = "hashes/blake/src/consts.rs"
JH_COMP = "hashes/jh/src/compressor.rs"
JH_CONSTS = "hashes/jh/src/consts.rs"
JH_LIB = "hashes/jh/src/lib.rs"
TF_LIB = "block-ciphers/threefish/src/lib.rs"
TF_CONSTS = "block-ciphers/threefish/src/consts.rs"
SKEIN_LIB = "hashes/skein/src/lib.rs"
GROESTL_COMP = "hashes/groestl/src/compressor.rs"

FAMILIES = ["chacha", "blake", "jh", "threefish", "skein", "groestl"]

# kernels: the instantiation (`subst`: generic type parameter -> vector type) is part of the trusted input:
# `round::<State<M::u32x4>>` is what refill_narrow_rounds / init_chacha_x call, `State<M::u32x4x4>` what
# refill_wide_impl calls; BLAKE's diagonalize is called with M::u32x4 (Compressor256) and M::u64x4 (Compressor512).
KERNELS = [
    dict(fam="chacha", lean="chacha_round", file=GUTS, fn="round", subst={"V": "u32x4"}),
    dict(fam="chacha", lean="chacha_diagonalize", file=GUTS, fn="diagonalize", subst={"V": "u32x4"}),
    dict(fam="chacha", lean="chacha_undiagonalize", file=GUTS, fn="undiagonalize", subst={"V": "u32x4"}),
    dict(fam="chacha", lean="chacha_round4", file=GUTS, fn="round", subst={"V": "u32x4x4"}),
    dict(fam="chacha", lean="chacha_diagonalize4", file=GUTS, fn="diagonalize", subst={"V": "u32x4x4"}),
    dict(fam="chacha", lean="chacha_undiagonalize4", file=GUTS, fn="undiagonalize", subst={"V": "u32x4x4"}),
    dict(fam="blake", lean="blake_round32", file=BLAKE_LIB, fn="round32"),
    dict(fam="blake", lean="blake_round64", file=BLAKE_LIB, fn="round64"),
    dict(fam="blake", lean="blake_diagonalize32", file=BLAKE_LIB, fn="diagonalize", subst={"X4": "u32x4"}),
    dict(fam="blake", lean="blake_undiagonalize32", file=BLAKE_LIB, fn="undiagonalize", subst={"X4": "u32x4"}),
    dict(fam="blake", lean="blake_diagonalize64", file=BLAKE_LIB, fn="diagonalize", subst={"X4": "u64x4"}),
    dict(fam="blake", lean="blake_undiagonalize64", file=BLAKE_LIB, fn="undiagonalize", subst={"X4": "u64x4"}),
    dict(fam="jh", lean="jh_zip", file=JH_COMP, fn="zip", impl="X8"),
    dict(fam="jh", lean="jh_unzip", file=JH_COMP, fn="unzip", impl="X8"),
    dict(fam="jh", lean="jh_ss", file=JH_COMP, fn="ss"),          # `state.zip()` / `X8::unzip(m)` are inlined
    dict(fam="jh", lean="jh_l", file=JH_COMP, fn="l"),
    dict(fam="threefish", lean="threefish_mix", file=TF_LIB, fn="mix", mach=False),
    dict(fam="threefish", lean="threefish_inv_mix", file=TF_LIB, fn="inv_mix", mach=False),
]

L = lambda r: ("list", r)
TABLES = [
    dict(fam="chacha", lean="chacha_BLOCK", file=GUTS, const="BLOCK", render="nat"),
    dict(fam="chacha", lean="chacha_BLOCK64", file=GUTS, const="BLOCK64", render="nat"),
    dict(fam="chacha", lean="chacha_BUFBLOCKS", file=GUTS, const="BUFBLOCKS", render="nat"),
    dict(fam="chacha", lean="chacha_BUFSZ64", file=GUTS, const="BUFSZ64", render="nat"),
    dict(fam="chacha", lean="chacha_BUFSZ", file=GUTS, const="BUFSZ", render="nat"),
    dict(fam="chacha", lean="chacha_BIG_LEN", file=RCI, const="BIG_LEN", render="nat"),
    dict(fam="chacha", lean="chacha_SMALL_LEN", file=RCI, const="SMALL_LEN", render="nat"),
    dict(fam="blake", lean="blake_PADDING", file=BLAKE_CONSTS, const="PADDING", render="bytes"),
    dict(fam="blake", lean="blake_SIGMA", file=BLAKE_CONSTS, const="SIGMA", render=L(L("nat"))),
    dict(fam="blake", lean="blake_BLAKE256_U", file=BLAKE_CONSTS, const="BLAKE256_U", render=L(("bv", 32))),
    dict(fam="blake", lean="blake_BLAKE512_U", file=BLAKE_CONSTS, const="BLAKE512_U", render=L(("bv", 64))),
    dict(fam="blake", lean="blake_BLAKE224_IV", file=BLAKE_CONSTS, const="BLAKE224_IV", render=L(L(("bv", 32)))),
    dict(fam="blake", lean="blake_BLAKE256_IV", file=BLAKE_CONSTS, const="BLAKE256_IV", render=L(L(("bv", 32)))),
    dict(fam="blake", lean="blake_BLAKE384_IV", file=BLAKE_CONSTS, const="BLAKE384_IV", render=L(L(("bv", 64)))),
    dict(fam="blake", lean="blake_BLAKE512_IV", file=BLAKE_CONSTS, const="BLAKE512_IV", render=L(L(("bv", 64)))),
    # `hex!("..")` byte arrays are rendered as the big-endian reading of the hex string (as the model writes them)
    dict(fam="jh", lean="jh_E8_BITSLICE_ROUNDCONSTANT", file=JH_COMP, const="E8_BITSLICE_ROUNDCONSTANT", render=L(("be",))),
    dict(fam="jh", lean="jh_JH224_H0", file=JH_CONSTS, const="JH224_H0", render=("be",)),
    dict(fam="jh", lean="jh_JH256_H0", file=JH_CONSTS, const="JH256_H0", render=("be",)),
    dict(fam="jh", lean="jh_JH384_H0", file=JH_CONSTS, const="JH384_H0", render=("be",)),
    dict(fam="jh", lean="jh_JH512_H0", file=JH_CONSTS, const="JH512_H0", render=("be",)),
    dict(fam="threefish", lean="threefish_C240", file=TF_CONSTS, const="C240", render=("bv", 64)),
    dict(fam="threefish", lean="threefish_R_256", file=TF_CONSTS, const="R_256", render=L(L("nat"))),
    dict(fam="threefish", lean="threefish_R_512", file=TF_CONSTS, const="R_512", render=L(L("nat"))),
    dict(fam="threefish", lean="threefish_R_1024", file=TF_CONSTS, const="R_1024", render=L(L("nat"))),
    dict(fam="threefish", lean="threefish_P_256", file=TF_CONSTS, const="P_256", render=L("nat")),
    dict(fam="threefish", lean="threefish_P_512", file=TF_CONSTS, const="P_512", render=L("nat")),
    dict(fam="threefish", lean="threefish_P_1024", file=TF_CONSTS, const="P_1024", render=L("nat")),
    dict(fam="skein", lean="skein_VERSION", file=SKEIN_LIB, const="VERSION", render=("bv", 64)),
    dict(fam="skein", lean="skein_ID_STRING_LE", file=SKEIN_LIB, const="ID_STRING_LE", render=("bv", 64)),
    dict(fam="skein", lean="skein_SCHEMA_VER", file=SKEIN_LIB, const="SCHEMA_VER", render=("bv", 64)),
    dict(fam="skein", lean="skein_CFG_TREE_INFO_SEQUENTIAL", file=SKEIN_LIB, const="CFG_TREE_INFO_SEQUENTIAL", render=("bv", 64)),
    dict(fam="skein", lean="skein_T1_FLAG_FIRST", file=SKEIN_LIB, const="T1_FLAG_FIRST", render=("bv", 64)),
    dict(fam="skein", lean="skein_T1_FLAG_FINAL", file=SKEIN_LIB, const="T1_FLAG_FINAL", render=("bv", 64)),
    dict(fam="skein", lean="skein_T1_BLK_TYPE_CFG", file=SKEIN_LIB, const="T1_BLK_TYPE_CFG", render=("bv", 64)),
    dict(fam="skein", lean="skein_T1_BLK_TYPE_MSG", file=SKEIN_LIB, const="T1_BLK_TYPE_MSG", render=("bv", 64)),
    dict(fam="skein", lean="skein_T1_BLK_TYPE_OUT", file=SKEIN_LIB, const="T1_BLK_TYPE_OUT", render=("bv", 64)),
    dict(fam="skein", lean="skein_CFG_STR_LEN", file=SKEIN_LIB, const="CFG_STR_LEN", render="nat"),
]

# macro invocations `name!(a, b, …);`: schema per argument: "str" (the tokens as text), "nat" (integer literal),
# "typenum" (`U64` -> 64), "last" (last path segment as text)
INVOCATIONS = [
    dict(fam="blake", lean="blake_define_compressor", file=BLAKE_LIB, macro="define_compressor",
         schema=["str", "str", "str", "typenum", "str", "nat", "str", "str"]),
    dict(fam="blake", lean="blake_define_hasher", file=BLAKE_LIB, macro="define_hasher",
         schema=["str", "str", "nat", "typenum", "nat", "typenum", "str", "str"]),
    dict(fam="jh", lean="jh_define_hasher", file=JH_LIB, macro="define_hasher", schema=["str", "last", "typenum"]),
    dict(fam="threefish", lean="threefish_impl_threefish", file=TF_LIB, macro="impl_threefish",
         schema=["str", "nat", "nat", "typenum", "str", "str"]),
    dict(fam="skein", lean="skein_define_hasher", file=SKEIN_LIB, macro="define_hasher",
         schema=["str", "str", "typenum", "nat"]),
]


def invocation_rows(src, spec):
    rows = []
    for args in src.invocations(spec["macro"]):
        if len(args) != len(spec["schema"]):
            raise TErr("%s!: %d arguments for %d in the schema" % (spec["macro"], len(args), len(spec["schema"])))
        row = []
        for a, kind in zip(args, spec["schema"]):
            txt = "".join(x.s for x in a)
            if kind == "str":
                row.append(_lean_str(txt))
            elif kind == "last":
                row.append(_lean_str(a[-1].s))
            elif kind == "nat":
                if len(a) != 1 or a[0].k != "int":
                    raise TErr("%s!: integer literal expected, found `%s`" % (spec["macro"], txt))
                row.append(str(a[0].v))
            elif kind == "typenum":
                row.append(str(typenum(txt)))
        rows.append("(" + ", ".join(row) + ")")
    if not rows:
        raise TErr("no invocation of %s! found in %s" % (spec["macro"], src.rel))
    ty = " × ".join("Nat" if k in ("nat", "typenum") else "String" for k in spec["schema"])
    return "def %s : List (%s) := [\n  %s]" % (spec["lean"], ty, ",\n  ".join(rows))


# ---- special extractions

def chacha_variants(src):
    """`pub type Name = ChaChaAny<U<nonce>, U<drounds>, X|O>;` -> (name, nonce bytes, double rounds, is X)"""
    rows = []
    for name, ty in src.type_aliases("ChaChaAny"):
        args = ty[2]
        if len(args) != 3 or any(a[0] != "path" or len(a[1]) != 1 or a[2] for a in args):
            raise TErr("alias %s: parameters of ChaChaAny not understood" % name)
        x = args[2][1][0]
        if x not in ("X", "O"):
            raise TErr("alias %s: IsX parameter `%s`" % (name, x))
        rows.append("(%s, %d, %d, %s)" % (_lean_str(name), typenum(args[0][1][0]), typenum(args[1][1][0]),
                                           "true" if x == "X" else "false"))
    if not rows:
        raise TErr("no alias of ChaChaAny found")
    return "def chacha_variants : List (String × Nat × Nat × Bool) := [\n  %s]" % ",\n  ".join(rows)


def _vec_literals(src, n):
    t = src.toks
    rows = []
    for i in range(len(t) - 3):
        if is_p(t[i], ".") and is_id(t[i + 1], "vec") and is_p(t[i + 2], "(") and is_p(t[i + 3], "["):
            e = match_close(t, i + 3)
            lits = [x for x in t[i + 4:e - 1] if not is_p(x, ",")]
            if lits and all(x.k == "int" for x in lits):
                if len(lits) not in (2, 4):
                    raise TErr("`.vec([..])` with %d literals" % len(lits))
                if len(lits) == n:
                    rows.append(lits)
    if not rows:
        raise TErr("no `.vec([literal; %d])` found in %s" % (n, src.rel))
    return rows


def chacha_k_literals(src):
    """every `.vec([l0, l1, l2, l3])` with four integer literals in guts.rs (the "expand 32-byte k" words)"""
    rows = ["[" + ", ".join(lean_val(x.v, ("bv", 32)) for x in r) + "]" for r in _vec_literals(src, 4)]
    return "def chacha_k_literals : List (List (BitVec 32)) := [\n  %s]" % ",\n  ".join(rows)


def chacha_ctr_literals(src):
    """every `.vec([l0, l1])` with two integer literals in guts.rs (the u64x2 counter increments of d0123)"""
    rows = ["[" + ", ".join(lean_val(x.v, ("bv", 64)) for x in r) + "]" for r in _vec_literals(src, 2)]
    return "def chacha_ctr_literals : List (List (BitVec 64)) := [%s]" % ", ".join(rows)


def jh_swap_table(src):
    """`match j { 0 => M::u128x1::swap1, … }` in f8_impl -> [(j, n)]"""
    spans = src.fn_bodies("f8_impl")
    if len(spans) != 1:
        raise TErr("fn f8_impl: %d definitions" % len(spans))
    t = src.toks
    a, b = spans[0]
    rows = []
    for i in range(a, b - 1):
        if t[i].k == "int" and is_p(t[i + 1], "=>"):
            j = i + 2
            last = None
            while j < b and (t[j].k == "id" or is_p(t[j], "::")):
                if t[j].k == "id":
                    last = t[j].s
                j += 1
            m = re.match(r"^swap(\d+)$", last or "")
            if not m:
                raise TErr("f8_impl: match arm %d does not select a swap<n>" % t[i].v)
            rows.append("(%d, %s)" % (t[i].v, m.group(1)))
    if not rows:
        raise TErr("f8_impl: no `j => swap<n>` arms found")
    return "def jh_swap_table : List (Nat × Nat) := [%s]" % ", ".join(rows)


def groestl_literals(src):
    """per fn (source order, test code dropped): the integer literals above 0xffff of its body, in order"""
    t = src.toks
    fns = src.all_fns()
    rows = []
    for name, a, b in fns:
        inner = [(x, y) for n2, x, y in fns if a < x and y <= b and (x, y) != (a, b)]
        lits = []
        for i in range(a, b):
            if any(x <= i < y for x, y in inner):
                continue
            if t[i].k == "int" and t[i].v > 0xffff:
                if t[i].v >= 1 << 64:
                    raise TErr("fn %s: literal wider than 64 bits" % name)
                lits.append(lean_val(t[i].v, ("bv", 64)))
        if lits:
            rows.append((name, lits))
    if not rows:
        raise TErr("no literals found in %s" % src.rel)
    out = []
    for name, lits in rows:
        chunks = [", ".join(lits[i:i + 4]) for i in range(0, len(lits), 4)]
        out.append("(%s, [%s])" % (_lean_str(name), (",\n     ").join(chunks)))
    return "def groestl_literals : List (String × List (BitVec 64)) := [\n  %s]" % ",\n  ".join(out)


SPECIALS = [
    dict(fam="chacha", lean="chacha_variants", file=RCI, fn=chacha_variants),
    dict(fam="chacha", lean="chacha_k_literals", file=GUTS, fn=chacha_k_literals),
    dict(fam="chacha", lean="chacha_ctr_literals", file=GUTS, fn=chacha_ctr_literals),
    dict(fam="jh", lean="jh_swap_table", file=JH_COMP, fn=jh_swap_table),
    dict(fam="groestl", lean="groestl_literals", file=GROESTL_COMP, fn=groestl_literals),
]


# phase 2 (tools/inventory_kernels_code.py): the code around the kernels.  Per definition: the function (`impl` = owner
# type), `expand` = (item macro, index of its invocation) when the function lives in a macro body, `drop` = cfg
# attributes whose items are removed (the alternative that is NOT compiled), `lens` = lengths of unsized slice
# parameters (instantiation), `unroll` = unroll counted loops, `calls` = callees that stay calls of their own
# generated definition, `mach` = the definition is over a machine M, `out` = it returns `Out` (panics are guards).
CODE = [
    dict(fam="chacha", lean="chacha_read_u32le", file=GUTS, fn="read_u32le", lens={"xs": 4}, mach=False),
    dict(fam="chacha", lean="chacha_pos64", file=GUTS, fn="pos64", impl="ChaCha"),
    dict(fam="chacha", lean="chacha_seek64", file=GUTS, fn="seek64", impl="ChaCha"),
    dict(fam="chacha", lean="chacha_seek32", file=GUTS, fn="seek32", impl="ChaCha"),
    dict(fam="chacha", lean="chacha_inc_block_ct", file=GUTS, fn="inc_block_ct", impl="ChaCha"),
    dict(fam="chacha", lean="chacha_d0123", file=GUTS, fn="d0123"),
    dict(fam="chacha", lean="chacha_add_pos", file=GUTS, fn="add_pos"),
    dict(fam="chacha", lean="chacha_refill_narrow_rounds", file=GUTS, fn="refill_narrow_rounds"),
    dict(fam="chacha", lean="chacha_refill_narrow", file=GUTS, fn="refill_narrow"),
    dict(fam="chacha", lean="chacha_refill_wide_impl", file=GUTS, fn="refill_wide_impl"),
    dict(fam="chacha", lean="chacha_refill4", file=GUTS, fn="refill4", impl="ChaCha"),
    dict(fam="chacha", lean="chacha_refill", file=GUTS, fn="refill", impl="ChaCha"),
    dict(fam="chacha", lean="chacha_refill_rounds", file=GUTS, fn="refill_rounds", impl="ChaCha"),
    dict(fam="chacha", lean="chacha_stream32_eq", file=GUTS, fn="stream32_eq", impl="ChaCha", mach=False),
    dict(fam="chacha", lean="chacha_stream64_eq", file=GUTS, fn="stream64_eq", impl="ChaCha", mach=False),
    dict(fam="chacha", lean="chacha_set_stream_param", file=GUTS, fn="set_stream_param", impl="ChaCha", mach=False, out=True),
    dict(fam="chacha", lean="chacha_get_stream_param", file=GUTS, fn="get_stream_param", impl="ChaCha", mach=False, out=True),
    dict(fam="chacha", lean="chacha_new_8", file=GUTS, fn="new", impl="ChaCha", lens={"nonce": 8}, mach=False,
         calls={"read_u32le": "chacha_read_u32le"}),
    dict(fam="chacha", lean="chacha_new_12", file=GUTS, fn="new", impl="ChaCha", lens={"nonce": 12}, mach=False,
         calls={"read_u32le": "chacha_read_u32le"}),
    dict(fam="chacha", lean="chacha_init_chacha_x_guts", file=GUTS, fn="init_chacha_x",
         calls={"read_u32le": "chacha_read_u32le"}),
    dict(fam="chacha", lean="chacha_init_chacha_8", file=RCI, fn="init_chacha", lens={"nonce": 8}, **{"with": (GUTS,)}),
    dict(fam="chacha", lean="chacha_init_chacha_12", file=RCI, fn="init_chacha", lens={"nonce": 12}, **{"with": (GUTS,)}),
    dict(fam="chacha", lean="chacha_init_chacha_x", file=RCI, fn="init_chacha_x", **{"with": (GUTS,)}),
    dict(fam="blake", lean="blake_put_block_u32x4", file=BLAKE_LIB, fn="put_block", expand=("define_compressor", 0)),
    dict(fam="blake", lean="blake_put_block_u64x4", file=BLAKE_LIB, fn="put_block", expand=("define_compressor", 1)),
    dict(fam="threefish", lean="threefish256_with_tweak", file=TF_LIB, fn="with_tweak", impl="Threefish256",
         expand=("impl_threefish", 0), unroll=True, mach=False, drop=('#[cfg(feature="no_unroll")]',)),
    dict(fam="threefish", lean="threefish256_encrypt_block", file=TF_LIB, fn="encrypt_block", impl="Threefish256",
         expand=("impl_threefish", 0), mach=False, drop=('#[cfg(feature="no_unroll")]',), lens={"block": 32}),
    dict(fam="threefish", lean="threefish256_decrypt_block", file=TF_LIB, fn="decrypt_block", impl="Threefish256",
         expand=("impl_threefish", 0), mach=False, drop=('#[cfg(feature="no_unroll")]',), lens={"block": 32}),
    dict(fam="threefish", lean="threefish256_encrypt_block_no_unroll", file=TF_LIB, fn="encrypt_block", impl="Threefish256",
         expand=("impl_threefish", 0), mach=False, drop=('#[cfg(not(feature="no_unroll"))]',), lens={"block": 32}),
    dict(fam="threefish", lean="threefish256_decrypt_block_no_unroll", file=TF_LIB, fn="decrypt_block", impl="Threefish256",
         expand=("impl_threefish", 0), mach=False, drop=('#[cfg(not(feature="no_unroll"))]',), lens={"block": 32}),
    dict(fam="threefish", lean="threefish512_with_tweak", file=TF_LIB, fn="with_tweak", impl="Threefish512",
         expand=("impl_threefish", 1), unroll=True, mach=False, drop=('#[cfg(feature="no_unroll")]',)),
    dict(fam="threefish", lean="threefish512_encrypt_block", file=TF_LIB, fn="encrypt_block", impl="Threefish512",
         expand=("impl_threefish", 1), mach=False, drop=('#[cfg(feature="no_unroll")]',), lens={"block": 64}),
    dict(fam="threefish", lean="threefish512_decrypt_block", file=TF_LIB, fn="decrypt_block", impl="Threefish512",
         expand=("impl_threefish", 1), mach=False, drop=('#[cfg(feature="no_unroll")]',), lens={"block": 64}),
    dict(fam="threefish", lean="threefish512_encrypt_block_no_unroll", file=TF_LIB, fn="encrypt_block", impl="Threefish512",
         expand=("impl_threefish", 1), mach=False, drop=('#[cfg(not(feature="no_unroll"))]',), lens={"block": 64}),
    dict(fam="threefish", lean="threefish512_decrypt_block_no_unroll", file=TF_LIB, fn="decrypt_block", impl="Threefish512",
         expand=("impl_threefish", 1), mach=False, drop=('#[cfg(not(feature="no_unroll"))]',), lens={"block": 64}),
    dict(fam="threefish", lean="threefish1024_with_tweak", file=TF_LIB, fn="with_tweak", impl="Threefish1024",
         expand=("impl_threefish", 2), unroll=True, mach=False, drop=('#[cfg(feature="no_unroll")]',)),
    dict(fam="threefish", lean="threefish1024_encrypt_block", file=TF_LIB, fn="encrypt_block", impl="Threefish1024",
         expand=("impl_threefish", 2), mach=False, drop=('#[cfg(feature="no_unroll")]',), lens={"block": 128}),
    dict(fam="threefish", lean="threefish1024_decrypt_block", file=TF_LIB, fn="decrypt_block", impl="Threefish1024",
         expand=("impl_threefish", 2), mach=False, drop=('#[cfg(feature="no_unroll")]',), lens={"block": 128}),
    dict(fam="threefish", lean="threefish1024_encrypt_block_no_unroll", file=TF_LIB, fn="encrypt_block", impl="Threefish1024",
         expand=("impl_threefish", 2), mach=False, drop=('#[cfg(not(feature="no_unroll"))]',), lens={"block": 128}),
    dict(fam="threefish", lean="threefish1024_decrypt_block_no_unroll", file=TF_LIB, fn="decrypt_block", impl="Threefish1024",
         expand=("impl_threefish", 2), mach=False, drop=('#[cfg(not(feature="no_unroll"))]',), lens={"block": 128}),
    dict(fam="blake", lean="blake_increase_count_224", file=BLAKE_LIB, fn="increase_count", impl="Blake224",
         expand=("define_hasher", 0), mach=False, out=True),
    dict(fam="blake", lean="blake_increase_count_256", file=BLAKE_LIB, fn="increase_count", impl="Blake256",
         expand=("define_hasher", 1), mach=False, out=True),
    dict(fam="blake", lean="blake_increase_count_384", file=BLAKE_LIB, fn="increase_count", impl="Blake384",
         expand=("define_hasher", 2), mach=False, out=True),
    dict(fam="blake", lean="blake_increase_count_512", file=BLAKE_LIB, fn="increase_count", impl="Blake512",
         expand=("define_hasher", 3), mach=False, out=True),
]


# =========================================================================== the generated file

def kernels_inventory(repo="/repo"):
    """-> dict(defs={family: [(lean name, text, source description)]}, errors={family: [msg]})"""
    sources, consts = {}, {}

    def src_of(rel):
        if rel not in sources:
            try:
                sources[rel] = Source(repo, rel)
            except TErr as e:
                sources[rel] = e
            except Exception as e:      # a lexer crash is a translation error too
                sources[rel] = TErr("%s: %s: %s" % (rel, type(e).__name__, e))
        if isinstance(sources[rel], TErr):
            raise sources[rel]
        return sources[rel]

    defs = dict((f, []) for f in FAMILIES)
    errors = dict((f, []) for f in FAMILIES)

    def attempt(fam, lean, what, thunk):
        try:
            text = thunk()
        except TErr as e:
            msg = "%s (%s): %s" % (lean, what, e)
            errors[fam].append(msg)
            text = "def %s : String := %s" % (lean, _lean_str("TRANSLATION ERROR: " + msg))
        except Exception as e:
            msg = "%s (%s): internal error %s: %s" % (lean, what, type(e).__name__, e)
            errors[fam].append(msg)
            text = "def %s : String := %s" % (lean, _lean_str("TRANSLATION ERROR: " + msg))
        defs[fam].append((lean, text, what))

    for k in KERNELS:
        inst = ", ".join("%s = %s" % kv for kv in sorted(k.get("subst", {}).items()))
        what = "%s: fn %s%s%s" % (k["file"], k["impl"] + "::" if k.get("impl") else "", k["fn"], " with " + inst if inst else "")
        attempt(k["fam"], k["lean"], what, lambda k=k: translate_kernel(src_of(k["file"]), k))
    code_specs = list(CODE)
    for tb in TABLES:
        what = "%s: const %s" % (tb["file"], tb["const"])

        def render(tb=tb):
            s = src_of(tb["file"])
            if tb["file"] not in consts:
                consts[tb["file"]] = Consts(s)
            v = consts[tb["file"]].value(tb["const"])
            ty = lean_type(v, tb["render"])
            val = lean_val(v, tb["render"])
            return "def %s : %s :=%s%s" % (tb["lean"], ty, "\n  " if ("\n" in val or len(val) > 60) else " ", val)
        attempt(tb["fam"], tb["lean"], what, render)
    for iv in INVOCATIONS:
        attempt(iv["fam"], iv["lean"], "%s: invocations of %s!" % (iv["file"], iv["macro"]),
                lambda iv=iv: invocation_rows(src_of(iv["file"]), iv))
    for sp in SPECIALS:
        attempt(sp["fam"], sp["lean"], "%s: %s" % (sp["file"], (sp["fn"].__doc__ or "").strip().split("\n")[0]),
                lambda sp=sp: sp["fn"](src_of(sp["file"])))
    import inventory_kernels_code as KC
    import inventory_kernels_glue as KG
    tr = KG.GlueTranslator(repo)
    code_specs += list(KG.GLUE)
    for cs in code_specs:
        inst = []
        if cs.get("header"):
            inst.append("in `impl %s`" % cs["header"])
        if cs.get("tsub"):
            inst.append(", ".join("%s = %s" % kv for kv in sorted(cs["tsub"].items())))
        if cs.get("tconsts"):
            inst.append(", ".join("%s = %s" % (k, v[1] if isinstance(v, tuple) else v) for k, v in sorted(cs["tconsts"].items())))
        if cs.get("extern"):
            inst.append("extern: " + ", ".join(sorted(cs["extern"])))
        if cs.get("params"):
            inst.append("parameters given by a named primitive: " + ", ".join(sorted(cs["params"])))
        if isinstance(cs.get("expand"), list):
            inst.append("; ".join("invocation %d of %s!" % (w, n) for n, w in cs["expand"]))
        elif cs.get("expand"):
            inst.append("invocation %d of %s!" % (cs["expand"][1], cs["expand"][0]))
        if cs.get("lens"):
            inst.append(", ".join("%s.len() = %d" % kv for kv in sorted(cs["lens"].items())))
        if cs.get("drop"):
            inst.append("without " + " ".join(cs["drop"]))
        if cs.get("unroll"):
            inst.append("counted loops unrolled")
        if cs.get("calls"):
            inst.append("calls kept: " + ", ".join(sorted(cs["calls"])))
        what = "%s: fn %s%s%s" % (cs["file"], cs["impl"] + "::" if cs.get("impl") else "", cs["fn"],
                                  " [" + "; ".join(inst) + "]" if inst else "")

        def run(cs=cs):
            texts, doc = tr.translate(cs)
            run.doc = doc
            return "\n\n".join(texts)
        n0 = len(defs[cs["fam"]])
        attempt(cs["fam"], cs["lean"], what, run)
        if getattr(run, "doc", None):
            lean, text, w = defs[cs["fam"]][n0]
            defs[cs["fam"]][n0] = (lean, text, w + " — " + run.doc)
    return dict(defs=defs, errors=errors)


def render_lean(inv):
    Ls = ["/-",
          "  GENERATED by tools/inventory_kernels.py — do not edit.  Regenerated on every run (tools/regen) from the",
          "  repository under verification: the straight-line arithmetic kernels, translated statement by statement",
          "  into SSA form (canonical order: post-order from the results, so that reordering independent statements",
          "  or splitting/merging expressions does not change the text), the constant tables as literals, the",
          "  arguments of the instantiating macro invocations.  No line numbers.  Comments, strings and",
          "  `#[cfg(test)]` items of the Rust are ignored.",
          "",
          "  Obligations (one per definition): lean/CC/<Family>/Src.lean, theorems `CC.Src.src_<family>_<name>`, each",
          "  stating that the hand-written model definition EQUALS the definition below; collected per property as",
          "  `CC.Thm.Cxx.source_kernels_match`.  A definition that could not be translated is a `String` with the",
          "  reason (its obligation then does not elaborate) and is listed in `<family>_errors`.",
          "",
          "  TRUSTED: the meaning of the Rust operators / ppv-lite86 trait methods as fields of `CC.Simd.Mach`",
          "  (table OPS of the translator), and the instantiations of the generic kernels named below:"]
    Ls += trusted_table_lines()
    import inventory_kernels_code as KC
    import inventory_kernels_glue as KG
    Ls += KC.trusted_table_lines2()
    Ls += KG.trusted_table_lines3()
    Ls += ["-/", "import CC.Simd.Mach", "import CC.Buffer.BlockBuffer", "set_option linter.unusedVariables false",
           "namespace CC.Gen.Kernels", "open CC.Simd", "",
           "/-- `for _ in 0..n { x = f(x) }` -/",
           "def iter {α : Type} (f : α → α) : Nat → α → α",
           "  | 0, x => x",
           "  | n + 1, x => iter f n (f x)", ""]
    Ls += KG.PRELUDE.split("\n")
    for fam in FAMILIES:
        Ls.append("/-! ## %s -/" % fam)
        Ls.append("")
        errs = inv["errors"][fam]
        Ls.append("/-- everything of this family the translator could not translate (must be empty) -/")
        if errs:
            Ls.append("def %s_errors : List String := [\n  %s]" % (fam, ",\n  ".join(_lean_str(e) for e in errs)))
        else:
            Ls.append("def %s_errors : List String := []" % fam)
        Ls.append("")
        for lean, text, what in inv["defs"][fam]:
            if text.startswith("/--"):
                # loop bodies first (each with its own comment); the comment of the definition goes before its `def`
                head, _, last = text.rpartition("\n\ndef ")
                Ls.append(head)
                Ls.append("")
                text = "def " + last
            Ls.append("/-- %s -/" % what.replace("-/", "- /"))
            Ls.append(text)
            Ls.append("")
    Ls.append("end CC.Gen.Kernels")
    return "\n".join(Ls) + "\n"


def kernels_regenerate(repo="/repo", out=None):
    """write lean/CC/Gen/Kernels.lean (only when the content changes, to keep lake's cache warm)"""
    out = out or DEFAULT_OUT
    inv = kernels_inventory(repo)
    text = render_lean(inv)
    os.makedirs(os.path.dirname(out), exist_ok=True)
    old = open(out, encoding="utf-8").read() if os.path.exists(out) else None
    if old != text:
        with open(out, "w", encoding="utf-8") as f:
            f.write(text)
    return inv, out


def main(argv):
    repo, out = None, None
    it = iter(argv)
    for a in it:
        if a == "--repo":
            repo = next(it)
        elif a == "--out":
            out = next(it)
        elif a == "--print":
            out = "-"
    if repo is None:
        try:
            import cclib
            repo = cclib.REPO
        except Exception:
            repo = os.environ.get("VERIF_REPO", "/repo")
    if out == "-":
        sys.stdout.write(render_lean(kernels_inventory(repo)))
        return 0
    inv, path = kernels_regenerate(repo, out)
    n = sum(len(v) for v in inv["defs"].values())
    errs = [e for f in FAMILIES for e in inv["errors"][f]]
    print("kernels/tables translated from %s: %d definitions, %d errors" % (repo, n, len(errs)))
    for e in errs:
        print("TRANSLATION ERROR: " + e)
    print("written: " + path)
    return 1 if errs else 0


if __name__ == "__main__":
    sys.path.insert(0, _HERE)
    sys.exit(main(sys.argv[1:]))
