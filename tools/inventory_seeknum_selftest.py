#!/usr/bin/env python3
"""tools/inventory_seeknum_selftest.py — negative / positive tests of tools/inventory_seeknum.py (not a registered check):
copies the source of the pinned `cipher` crate into a scratch tree under the system temp directory, applies ONE edit per case,
regenerates lean/CC/Gen/SeekNumSrc.lean from the scratch tree (`crate_dirs` override) and
  * N cases (breaking edits): `lake build CC.ChaCha.SrcSeekNum` must FAIL (a proof obligation breaks, or the translator reports an
    error and `seeknum_errors = []` breaks);
  * P cases (harmless rewrites): the regenerated file must be BYTE-IDENTICAL to the one regenerated from the real source.
The generated file is restored from the real source at the end and the scratch tree removed.
    python3 tools/inventory_seeknum_selftest.py [case id | N* | P* ...]"""
import os, shutil, subprocess, sys, tempfile, time
V = os.path.dirname(os.path.dirname(os.path.abspath(__file__)))
sys.path.insert(0, V + "/tools")
import inventory_seeknum as S
import inventory_blockbuffer as BB

REPO = os.environ.get("VERIF_REPO", "/repo")
ROOT = os.path.join(tempfile.gettempdir(), "seeknum_selftest_%d" % os.getpid())
MODULE = "CC.ChaCha.SrcSeekNum"


def sub1(old, new, nth=0):
    def f(s):
        parts = s.split(old)
        assert len(parts) > nth + 1, old
        return old.join(parts[:nth + 1]) + new + old.join(parts[nth + 1:])
    return f


def chain(*fs):
    def f(s):
        for g in fs:
            s = g(s)
        return s
    return f


TRY = "let block = block.try_into().map_err(|_| OverflowError)?;"
POS = "let pos = block.checked_mul(bs as Self).ok_or(OverflowError)? + (byte as Self);"
BYTE = "let byte = self % bs;"
BLK = "let block = T::try_from(self/bs).map_err(|_| OverflowError)?;"
LIST = "impl_seek_num! { u8 u16 u32 u64 u128 usize i32 }"
CASES = [
    # (id + description, breaking?, edit)
    ("N01 from_block_byte: `checked_mul(..)?` -> unchecked `*`", True, sub1(POS, "let pos = block * (bs as Self) + (byte as Self);")),
    ("N02 from_block_byte: `checked_mul` -> `wrapping_mul` (error path dropped)", True, sub1(POS, "let pos = block.wrapping_mul(bs as Self) + (byte as Self);")),
    ("N03 from_block_byte: `+ byte` -> `.wrapping_add(byte)`", True, sub1(POS, "let pos = block.checked_mul(bs as Self).ok_or(OverflowError)?.wrapping_add(byte as Self);")),
    ("N04 from_block_byte: `bs` and `byte` exchanged", True, sub1(POS, "let pos = block.checked_mul(byte as Self).ok_or(OverflowError)? + (bs as Self);")),
    ("N05 from_block_byte: the `try_into` error path dropped (`.unwrap()`)", True, sub1(TRY, "let block: Self = block.try_into().map_err(|_| OverflowError).unwrap();")),
    ("N06 from_block_byte: the `try_into` dropped altogether (`block as Self` cannot be written for a generic T: `bs` used)", True, sub1(TRY, "let block = bs as Self;")),
    ("N07 from_block_byte: `debug_assert!(byte < bs)` -> `<=`", True, sub1("debug_assert!(byte < bs);", "debug_assert!(byte <= bs);")),
    ("N08 from_block_byte: addition of the byte dropped", True, sub1(POS, "let pos = block.checked_mul(bs as Self).ok_or(OverflowError)?;")),
    ("N09 to_block_byte: `%` -> `/` for the byte", True, sub1(BYTE, "let byte = self / bs;")),
    ("N10 to_block_byte: `/` -> `%` for the block", True, sub1(BLK, "let block = T::try_from(self%bs).map_err(|_| OverflowError)?;")),
    ("N11 to_block_byte: `/` and `%` exchanged", True, chain(sub1(BYTE, "let byte = self / bs;"), sub1(BLK, "let block = T::try_from(self%bs).map_err(|_| OverflowError)?;"))),
    ("N12 to_block_byte: block size through `i8` (`bs as i8 as Self`)", True, sub1("let bs = bs as Self;", "let bs = (bs as i8) as Self;")),
    ("N13 to_block_byte: result components exchanged in the division (`bs / self`)", True, sub1(BLK, "let block = T::try_from(bs/self).map_err(|_| OverflowError)?;")),
    ("N14 to_block_byte: the `try_from` error path dropped (`.unwrap()`)", True, sub1(BLK, "let block = T::try_from(self/bs).unwrap();")),
    ("N15 invocation list: `i32` removed", True, sub1(LIST, "impl_seek_num! { u8 u16 u32 u64 u128 usize }")),
    ("N16 invocation list: `u8` removed", True, sub1(LIST, "impl_seek_num! { u16 u32 u64 u128 usize i32 }")),
    ("N17 invocation list: `i64` added", True, sub1(LIST, "impl_seek_num! { u8 u16 u32 u64 u128 usize i32 i64 }")),
    ("N18 invocation list: `usize` replaced by `isize`", True, sub1(LIST, "impl_seek_num! { u8 u16 u32 u64 u128 isize i32 }")),
    ("N19 a hand-written `impl SeekNum for u8` next to the macro (u8 taken out of the list)", True, chain(
        sub1(LIST, "impl_seek_num! { u16 u32 u64 u128 usize i32 }"),
        sub1("macro_rules! impl_seek_num {", "impl SeekNum for u8 {\n    fn from_block_byte<T: TryInto<Self>>(block: T, byte: u8, bs: u8) -> Result<Self, OverflowError> { Err(OverflowError) }\n"
             "    fn to_block_byte<T: TryFrom<Self>>(self, bs: u8) -> Result<(T, u8), OverflowError> { Err(OverflowError) }\n}\n\nmacro_rules! impl_seek_num {"))),
    ("N20 &mut C: `apply_keystream` forwards to `try_apply_keystream(..).unwrap()`", True, sub1("C::apply_keystream(self, data);", "C::try_apply_keystream(self, data).unwrap();")),
    ("N21 &mut C: `try_apply_keystream` forwards to the wrong method", True, sub1("C::try_apply_keystream(self, data)\n", "{ C::apply_keystream(self, data); Ok(()) }\n")),
    ("P01 from_block_byte: locals renamed", False, chain(sub1(TRY, "let b = block.try_into().map_err(|_| OverflowError)?;"),
        sub1(POS, "let position = b.checked_mul(bs as Self).ok_or(OverflowError)? + (byte as Self);"), sub1("Ok(pos)", "Ok(position)"))),
    ("P02 from_block_byte: temporaries", False, sub1(POS, "let m = block.checked_mul(bs as Self);\n let m = m.ok_or(OverflowError)?;\n let add = byte as Self;\n let pos = m + add;")),
    ("P03 to_block_byte: the two independent lets reordered", False, sub1(BYTE + "\n                    " + BLK, BLK + "\n                    " + BYTE)),
    ("P04 reformatting, comments, redundant parentheses", False, chain(sub1(POS, "let pos = (block.checked_mul(bs as Self).ok_or(OverflowError)?) // block * bs\n  + byte as Self;"),
        sub1("self/bs", "(self / bs)"))),
    ("P05 to_block_byte: the shadowing `bs` renamed", False, chain(sub1("let bs = bs as Self;", "let size = bs as Self;"), sub1(BYTE, "let byte = self % size;"), sub1("self/bs", "self/size"))),
    ("P06 invocation list split into two invocations", False, sub1(LIST, "impl_seek_num! { u8 u16 u32 }\nimpl_seek_num! { u64 u128 usize i32 }")),
    ("P07 &mut C: call written as the tail expression, `#[inline(always)]`", False, chain(sub1("C::apply_keystream(self, data);", "C::apply_keystream(self, data)"),
        sub1("    #[inline]\n    fn try_apply_keystream(&mut self, data: &mut [u8]) -> Result<(), LoopError> {\n        C::try", "    #[inline(always)]\n    fn try_apply_keystream(&mut self, data: &mut [u8]) -> Result<(), LoopError> {\n        C::try"))),
    ("P08 to_block_byte: the byte cast into a temporary", False, sub1("Ok((block, byte as u8))", "let b8 = byte as u8;\n Ok((block, b8))")),
]


def selected(cid, o):
    if o.endswith("*"):
        return cid.startswith(o[:-1])
    return cid == o


def run(cmd, **kw):
    return subprocess.run(cmd, stdout=subprocess.PIPE, stderr=subprocess.STDOUT, universal_newlines=True, **kw)


def norm(text):
    import re
    return re.sub(r"(?m)^    cipher \S+", "    cipher VERSION", text)


def main():
    only = sys.argv[1:]
    real, _ = BB.crate_dir(REPO, S.CRATE)
    out = S.DEFAULT_OUT
    S.seeknum_regenerate(REPO)
    reference = open(out, encoding="utf-8").read()
    results = []
    try:
        for cid, breaking, edit in CASES:
            if only and not any(selected(cid.split()[0], o) for o in only):
                continue
            shutil.rmtree(ROOT, ignore_errors=True)
            d = os.path.join(ROOT, S.CRATE)
            shutil.copytree(os.path.join(real, "src"), os.path.join(d, "src"))
            p = os.path.join(d, S.FILE)
            s = open(p).read()
            s2 = edit(s)
            assert s2 != s, cid
            open(p, "w").write(s2)
            inv, _ = S.seeknum_regenerate(REPO, crate_dirs={S.CRATE: d})
            same = norm(open(out, encoding="utf-8").read()) == norm(reference)
            if not breaking:
                ok = same
                print("%-11s %s | regenerated file %s | translator errors: %d" % (
                    "as expected" if ok else "UNEXPECTED", cid, "byte-identical" if same else "DIFFERS", len(inv["errors"])))
            else:
                t0 = time.time()
                b = run(["lake", "build", MODULE], cwd=V + "/lean")
                failed = b.returncode != 0
                errs = [l for l in b.stdout.splitlines() if l.startswith("error:")]
                ok = failed and not same
                print("%-11s %s | file %s | translator errors: %d | lake build %s: %s (%.1fs) | %s" % (
                    "as expected" if ok else "UNEXPECTED", cid, "changed" if not same else "UNCHANGED", len(inv["errors"]), MODULE,
                    "FAILED" if failed else "OK", time.time() - t0, (inv["errors"][0][:120] if inv["errors"] else (errs[0][:120] if errs else ""))))
            sys.stdout.flush()
            results.append(ok)
        # a pinned version whose source is missing is a translation error, never a silent skip
        if not only or any(selected("N90", o) for o in only):
            shutil.rmtree(ROOT, ignore_errors=True)
            os.makedirs(ROOT)
            lock = open(os.path.join(REPO, "Cargo.lock")).read()
            lock2 = lock.replace('name = "cipher"\nversion = "', 'name = "cipher"\nversion = "99.')
            assert lock2 != lock
            open(os.path.join(ROOT, "Cargo.lock"), "w").write(lock2)
            inv, _ = S.seeknum_regenerate(ROOT)
            b = run(["lake", "build", MODULE], cwd=V + "/lean")
            ok = b.returncode != 0 and any("not in the cargo registry" in e for e in inv["errors"])
            print("%-11s N90 Cargo.lock pins a cipher version whose source is not in the registry | translator errors: %d | lake build %s: %s | %s" % (
                "as expected" if ok else "UNEXPECTED", len(inv["errors"]), MODULE, "FAILED" if b.returncode else "OK", inv["errors"][0][:120] if inv["errors"] else ""))
            results.append(ok)
    finally:
        shutil.rmtree(ROOT, ignore_errors=True)
        S.seeknum_regenerate(REPO)
    restored = open(out, encoding="utf-8").read() == reference
    b = run(["lake", "build", "CC.Thm.C02", "CC.Thm.C11"], cwd=V + "/lean")
    print("restored from the real source: %s; lake build CC.Thm.C02 CC.Thm.C11: %s" % ("identical" if restored else "DIFFERENT", "OK" if b.returncode == 0 else "FAILED"))
    nb = sum(1 for c in CASES if c[1]) + 1
    print("%s: %d cases run (%d breaking, %d harmless defined)" % (
        "ALL AS EXPECTED" if all(results) and restored and b.returncode == 0 else "SOME UNEXPECTED", len(results), nb, len(CASES) + 1 - nb))
    return 0 if all(results) else 1


if __name__ == "__main__":
    sys.exit(main())
